(* SelectRefine.v — the select machine (Select.v) refines its specification (SelectSpec.v).

   Invariant of a select in progress (Inv): for every receive source, every mailbox message
   before its cursor is type-incompatible or was rejected by the (pure) filter; the `receiving`
   slot, when set, names a filter source and the message its cursor points at.  Messages are only
   appended between entries, so the invariant survives every arrival; each entry re-establishes
   it.  From it: an entry that completes does so with select_spec on that entry's state; an entry
   that parks does so only when select_spec says Wait; an entry that calls a failing filter or
   meets an invalid source does so only when select_spec says Fail; no entry panics. *)
From Quiver Require Import Base.
From Quiver Require Import sel.Select sel.SelectSpec.
Local Open Scope nat_scope.

(* ---------------------------------------------------------------- list helpers *)
Lemma nth_set_nth_eq {A} (d : A) : forall n v (l : list A), n < length l -> nth n (set_nth n v l) d = v.
Proof.
  induction n as [|n IH]; intros v [|x l] Hlt; cbn in *; try lia; auto. apply IH. lia.
Qed.

Lemma nth_set_nth_neq {A} (d : A) : forall n m v (l : list A), n <> m -> nth m (set_nth n v l) d = nth m l d.
Proof.
  induction n as [|n IH]; intros [|m] v [|x l] Hne; cbn; try reflexivity; try congruence.
  apply IH. congruence.
Qed.

Lemma length_set_nth {A} : forall n (v : A) l, length (set_nth n v l) = length l.
Proof. induction n as [|n IH]; intros v [|x l]; cbn; auto. Qed.

Lemma cur_get_set_eq r v cs : r < length cs -> cur_get r (set_nth r v cs) = v.
Proof. apply nth_set_nth_eq. Qed.
Lemma cur_get_set_neq r r' v cs : r <> r' -> cur_get r' (set_nth r v cs) = cur_get r' cs.
Proof. apply nth_set_nth_neq. Qed.

Lemma nth_error_skipn {A} : forall c (l : list A) k, nth_error (skipn c l) k = nth_error l (c + k).
Proof.
  induction c as [|c IH]; intros [|x l] k; cbn; auto. destruct k; reflexivity.
Qed.

Lemma skipn_nil_iff {A} : forall c (l : list A), skipn c l = [] <-> length l <= c.
Proof.
  induction c as [|c IH]; intros [|x l]; cbn; split; intros H; try reflexivity; try lia; try discriminate.
  - apply IH in H. lia.
  - apply IH. lia.
Qed.

(* ---------------------------------------------------------------- the scan loop *)
Lemma scan_found classes : forall l i c idx m,
  scan classes l i c = Found idx m ->
  exists k, idx = i + k /\ nth_error l k = Some m /\ compat classes m = true /\
            forall j x, j < k -> nth_error l j = Some x -> compat classes x = false.
Proof.
  induction l as [|a l IH]; intros i c idx m H; cbn in H; [discriminate|].
  destruct (compat classes a) eqn:Ea.
  - inversion H; subst. exists 0. repeat split; auto. intros j x Hj. lia.
  - apply IH in H. destruct H as (k & -> & Hn & Hc & Hb).
    exists (S k). repeat split; auto; try lia.
    intros [|j] x Hj Hx; cbn in Hx; [inversion Hx; subst; auto|]. apply (Hb j); auto. lia.
Qed.

Lemma scan_notfound classes : forall l i c c',
  scan classes l i c = NotFound c' ->
  (forall x, In x l -> compat classes x = false) /\ c' = match l with [] => c | _ => i + length l end.
Proof.
  induction l as [|a l IH]; intros i c c' H; cbn in H.
  - inversion H; subst. split; auto. intros x [].
  - destruct (compat classes a) eqn:Ea; [discriminate|].
    apply IH in H. destruct H as (Hall & ->). split.
    + intros x [<-|Hin]; auto.
    + destruct l; cbn; lia.
Qed.

Section Refine.
Variable fix45 : bool.
Variable verdict_of : nat -> msg -> verdict.
Variable written : list source.

Notation accepts := (accepts verdict_of).
Notation pick_msg := (pick_msg verdict_of).
Notation select_spec_from := (select_spec_from verdict_of).

(* ---------------------------------------------------------------- pick_msg by position *)
Lemma pick_at r classes ty : forall mb idx m n,
  nth_error mb idx = Some m ->
  (forall j x, j < idx -> nth_error mb j = Some x -> accepts r classes ty x = VdNil) ->
  accepts r classes ty m = Truthy n ->
  pick_msg r classes ty mb = Picked m (remove_nth idx mb).
Proof.
  induction mb as [|a mb IH]; intros idx m n Hn Hb Ha; [destruct idx; discriminate|].
  destruct idx as [|idx]; cbn in Hn |- *.
  - inversion Hn; subst. rewrite Ha. reflexivity.
  - rewrite (Hb 0 a) by (auto; lia). erewrite IH; eauto.
    intros j x Hj Hx. apply (Hb (S j)); auto. lia.
Qed.

Lemma pick_err_at r classes ty : forall mb idx m e,
  nth_error mb idx = Some m ->
  (forall j x, j < idx -> nth_error mb j = Some x -> accepts r classes ty x = VdNil) ->
  accepts r classes ty m = VdErr e ->
  pick_msg r classes ty mb = PickErr e.
Proof.
  induction mb as [|a mb IH]; intros idx m e Hn Hb Ha; [destruct idx; discriminate|].
  destruct idx as [|idx]; cbn in Hn |- *.
  - inversion Hn; subst. rewrite Ha. reflexivity.
  - rewrite (Hb 0 a) by (auto; lia). erewrite IH; eauto.
    intros j x Hj Hx. apply (Hb (S j)); auto. lia.
Qed.

Lemma pick_none r classes ty : forall mb,
  (forall j x, nth_error mb j = Some x -> accepts r classes ty x = VdNil) ->
  pick_msg r classes ty mb = NoPick.
Proof.
  induction mb as [|a mb IH]; intros Hb; cbn; auto.
  rewrite (Hb 0 a) by auto. rewrite IH; auto. intros j x Hx. apply (Hb (S j)); auto.
Qed.

Lemma accepts_incompat r classes ty m : compat classes m = false -> accepts r classes ty m = VdNil.
Proof. unfold SelectSpec.accepts. intros ->. reflexivity. Qed.

(* ---------------------------------------------------------------- the invariant *)
Fixpoint nth_recv (srcs : list source) (r : nat) : option (list nat * bool) :=
  match srcs with
  | [] => None
  | SrcRecv c t :: rest => match r with O => Some (c, t) | S r' => nth_recv rest r' end
  | _ :: rest => nth_recv rest r
  end.

(* cursor_skips_only_rejected: everything before a cursor is incompatible or rejected *)
Definition skipped_before (cs : list nat) (mb : list msg) : Prop :=
  forall r c t, nth_recv written r = Some (c, t) ->
  forall j m, j < cur_get r cs -> nth_error mb j = Some m -> accepts r c t m = VdNil.

(* cursors never run past the end of the mailbox *)
Definition cursors_le (cs : list nat) (mb : list msg) : Prop := forall r, cur_get r cs <= length mb.

Definition receiving_inv (cs : list nat) (mb : list msg) (rcv : option (nat * msg)) : Prop :=
  match rcv with
  | None => True
  | Some (r0, m0) => exists c, nth_recv written r0 = Some (c, false) /\ compat c m0 = true /\
                               nth_error mb (cur_get r0 cs) = Some m0
  end.

Definition sel_inv (s : sel_state) (mb : list msg) : Prop :=
  ss_sources s = written /\
  length (ss_cursors s) = count_recv written /\
  skipped_before (ss_cursors s) mb /\
  receiving_inv (ss_cursors s) mb (ss_receiving s) /\
  cursors_le (ss_cursors s) mb.

(* (a dead process never enters its select again: nothing is claimed about its select state) *)
Definition Inv (st : proc) : Prop :=
  p_error st = None -> forall s, p_sel st = Some s -> sel_inv s (p_mailbox st).

Lemma nth_recv_lt : forall srcs r x, nth_recv srcs r = Some x -> r < count_recv srcs.
Proof.
  unfold count_recv. induction srcs as [|[p|c t|d|e] rest IH]; intros r x H; cbn in *; try discriminate;
    try (apply IH in H; exact H).
  destruct r; [lia|]. apply IH in H. lia.
Qed.

(* appending a message keeps the invariant (positions before any cursor are unchanged) *)
Lemma nth_error_app_some {A} (l : list A) x j m : nth_error l j = Some m -> nth_error (l ++ [x]) j = Some m.
Proof. intros H. rewrite nth_error_app1; auto. apply nth_error_Some. congruence. Qed.

(* verdict as handle_select_continuation hands it over *)
Definition rr_of (v : verdict) : option (option nat) :=
  match v with Truthy n => Some (Some n) | VdNil => Some None | VdErr _ => None end.

(* ---------------------------------------------------------------- one receive source *)
Section OneEntry.
Variable s0 : sel_state.                      (* the clone taken at the top of the pass *)
Variable rr : option (option nat).
Variable mb : list msg.

Hypothesis Hrr : match ss_receiving s0 with
                 | Some (r0, m0) => (forall e, verdict_of r0 m0 <> VdErr e) /\ rr = rr_of (verdict_of r0 m0)
                 | None => rr = None
                 end.

(* what we know about the live state `s` when the pass reaches receive index r *)
Record live_ok (r : nat) (s : sel_state) : Prop := {
  lo_len : length (ss_cursors s) = count_recv written;
  lo_agree : forall r', r <= r' -> cur_get r' (ss_cursors s) = cur_get r' (ss_cursors s0);
  lo_skipped : skipped_before (ss_cursors s) mb;
  lo_rinv : receiving_inv (ss_cursors s) mb (ss_receiving s);
  lo_le : cursors_le (ss_cursors s) mb;
  lo_rcv : (ss_receiving s = ss_receiving s0 /\ forall r0 m0, ss_receiving s0 = Some (r0, m0) -> r <= r0) \/
           (ss_receiving s = None /\ forall r0 m0, ss_receiving s0 = Some (r0, m0) -> r0 < r);
}.

(* what a state handed back by the pass satisfies *)
Definition good (s s' : sel_state) : Prop :=
  ss_sources s' = ss_sources s /\ ss_start s' = ss_start s /\
  length (ss_cursors s') = count_recv written /\
  skipped_before (ss_cursors s') mb /\
  receiving_inv (ss_cursors s') mb (ss_receiving s') /\
  cursors_le (ss_cursors s') mb.

Lemma cursors_le_set cs r v : cursors_le cs mb -> v <= length mb -> cursors_le (set_nth r v cs) mb.
Proof.
  intros Hle Hv r'. destruct (Nat.eq_dec r r') as [<-|Hne].
  - destruct (Nat.lt_ge_cases r (length cs)) as [Hl|Hg].
    + rewrite cur_get_set_eq; auto.
    + unfold cur_get. rewrite nth_overflow; [lia|]. rewrite length_set_nth. exact Hg.
  - rewrite cur_get_set_neq; auto.
Qed.

Lemma scan_mailbox_ok r c t s :
  nth_recv written r = Some (c, t) ->
  length (ss_cursors s) = count_recv written ->
  skipped_before (ss_cursors s) mb ->
  receiving_inv (ss_cursors s) mb (ss_receiving s) ->
  cursors_le (ss_cursors s) mb ->
  ss_receiving s = None \/ (exists r0 m0, ss_receiving s = Some (r0, m0) /\ r0 <> r) ->
  match scan_mailbox r c t s0 s mb with
  | RComplete v mb' => exists m, v = VMsg m /\ pick_msg r c t mb = Picked m mb'
  | RCalled s' => good s s' /\
                  exists m, ss_receiving s' = Some (r, m) /\
                            forall e, verdict_of r m = VdErr e -> pick_msg r c t mb = PickErr e
  | RContinue s' => pick_msg r c t mb = NoPick /\ good s s' /\
                    (forall r', r <> r' -> cur_get r' (ss_cursors s') = cur_get r' (ss_cursors s)) /\
                    ss_receiving s' = ss_receiving s
  | RErr _ _ => False
  | RPanic _ => False
  end.
Proof.
  intros Hsrc Hlen Hsk Hrinv Hcle Hrcv.
  pose proof (nth_recv_lt _ _ _ Hsrc) as Hrlt.
  unfold scan_mailbox.
  set (cur := cur_get r (ss_cursors s)).
  assert (Hbefore : forall j x, j < cur -> nth_error mb j = Some x -> accepts r c t x = VdNil).
  { intros j x Hj Hx. eapply Hsk; eauto. }
  destruct (scan c (skipn cur mb) cur cur) as [idx m|c'] eqn:Escan.
  - apply scan_found in Escan. destruct Escan as (k & -> & Hn & Hc & Hb).
    rewrite nth_error_skipn in Hn.
    assert (Hbefore' : forall j x, j < cur + k -> nth_error mb j = Some x -> accepts r c t x = VdNil).
    { intros j x Hj Hx. destruct (Nat.lt_ge_cases j cur) as [Hl|Hg]; [eauto|].
      apply accepts_incompat. apply (Hb (j - cur)); [lia|]. rewrite nth_error_skipn.
      replace (cur + (j - cur)) with j by lia. exact Hx. }
    destruct t.
    + (* body-less receiver: take the message *)
      exists m. split; [reflexivity|].
      assert (Hlt : cur + k < length mb) by (apply nth_error_Some; congruence).
      unfold take_msg. apply Nat.ltb_lt in Hlt. rewrite Hlt.
      eapply pick_at with (n := 0); eauto.
      unfold SelectSpec.accepts. rewrite Hc. reflexivity.
    + (* filter: call it *)
      assert (Hl : Nat.ltb r (length (ss_cursors s)) = true) by (apply Nat.ltb_lt; lia).
      rewrite Hl. split.
      * unfold good, with_cursors, with_receiving, receiving_inv; cbn [ss_sources ss_cursors ss_start ss_receiving]. repeat split; auto.
        -- rewrite length_set_nth. exact Hlen.
        -- intros r1 c1 t1 Hsrc1 j x Hj Hx.
           destruct (Nat.eq_dec r r1) as [<-|Hne].
           ++ rewrite cur_get_set_eq in Hj by lia. rewrite Hsrc in Hsrc1. inversion Hsrc1; subst. eauto.
           ++ rewrite cur_get_set_neq in Hj by auto. eapply Hsk; eauto.
        -- exists c. rewrite cur_get_set_eq by lia. auto.
        -- apply cursors_le_set; auto.
           assert (cur + k < length mb) by (apply nth_error_Some; congruence). lia.
      * exists m. split; [reflexivity|]. intros e He.
        eapply pick_err_at; eauto. unfold SelectSpec.accepts. rewrite Hc. exact He.
  - apply scan_notfound in Escan. destruct Escan as (Hall & Hc').
    assert (Hnone : pick_msg r c t mb = NoPick).
    { apply pick_none. intros j x Hx. destruct (Nat.lt_ge_cases j cur) as [Hl|Hg]; [eauto|].
      apply accepts_incompat. apply Hall. apply nth_error_In with (n := j - cur).
      rewrite nth_error_skipn. replace (cur + (j - cur)) with j by lia. exact Hx. }
    assert (Hnew : forall j x, j < c' -> nth_error mb j = Some x -> accepts r c t x = VdNil).
    { intros j x Hj Hx. destruct (Nat.lt_ge_cases j cur) as [Hl|Hg]; [eauto|].
      apply accepts_incompat. apply Hall. apply nth_error_In with (n := j - cur).
      rewrite nth_error_skipn. replace (cur + (j - cur)) with j by lia. exact Hx. }
    assert (Hgood_set : good s (with_cursors s (set_nth r c' (ss_cursors s)))).
    { unfold good, with_cursors; cbn [ss_sources ss_cursors ss_start ss_receiving]. repeat split; auto.
      - rewrite length_set_nth. exact Hlen.
      - intros r1 c1 t1 Hsrc1 j x Hj Hx.
        destruct (Nat.eq_dec r r1) as [<-|Hne].
        + rewrite cur_get_set_eq in Hj by lia. rewrite Hsrc in Hsrc1. inversion Hsrc1; subst. eauto.
        + rewrite cur_get_set_neq in Hj by auto. eapply Hsk; eauto.
      - destruct Hrcv as [Hn|(r0 & m0 & Hs & Hne)].
        + rewrite Hn. exact I.
        + rewrite Hs in Hrinv |- *. unfold receiving_inv in Hrinv |- *. destruct Hrinv as (c0 & H1 & H2 & H3).
          exists c0. rewrite cur_get_set_neq by auto. auto.
      - apply cursors_le_set; auto. rewrite Hc'.
        destruct (skipn cur mb) as [|a l] eqn:Esk; [apply Hcle|].
        assert (Hlen_sk : length (skipn cur mb) = length mb - cur) by apply skipn_length.
        rewrite Esk in Hlen_sk.
        assert (length mb > cur).
        { destruct (Nat.lt_ge_cases cur (length mb)); auto.
          assert (skipn cur mb = []) by (apply skipn_nil_iff; lia). congruence. }
        cbn [length] in Hlen_sk |- *. lia. }
    assert (Hgood_id : good s s).
    { unfold good. repeat split; auto. }
    destruct (Nat.ltb (cur_get r (ss_cursors s0)) c') eqn:Elt.
    + assert (Hl : Nat.ltb r (length (ss_cursors s)) = true) by (apply Nat.ltb_lt; lia).
      rewrite Hl. repeat split; auto; try apply Hgood_set.
      intros r' Hne. unfold with_cursors; cbn [ss_cursors]. apply cur_get_set_neq. exact Hne.
    + repeat split; auto; try apply Hgood_id.
Qed.

Lemma good_trans s s1 s2 : good s s1 -> good s1 s2 -> good s s2.
Proof.
  unfold good. intros (A1 & A2 & _) (B1 & B2 & B3 & B4 & B5 & B6). repeat split; auto; congruence.
Qed.

Lemma live_ok_good r s : live_ok r s -> good s s.
Proof. intros [H1 H2 H3 H4 H5 H6]. unfold good. repeat split; auto. Qed.

Lemma handle_select_receive_ok r c t s :
  nth_recv written r = Some (c, t) ->
  live_ok r s ->
  match handle_select_receive r c t rr s0 s mb with
  | RComplete v mb' => exists m, v = VMsg m /\ pick_msg r c t mb = Picked m mb'
  | RCalled s' => good s s' /\
                  exists m, ss_receiving s' = Some (r, m) /\
                            forall e, verdict_of r m = VdErr e -> pick_msg r c t mb = PickErr e
  | RContinue s' => pick_msg r c t mb = NoPick /\ good s s' /\ live_ok (S r) s'
  | RErr _ _ => False
  | RPanic _ => False
  end.
Proof.
  intros Hsrc Hlive.
  pose proof (nth_recv_lt _ _ _ Hsrc) as Hrlt.
  destruct Hlive as [Hlen Hagree Hsk Hrinv Hcle Hlr].
  unfold handle_select_receive.
  (* the plain path: scan from the live state *)
  assert (Hplain : (ss_receiving s = None \/ exists r0 m0, ss_receiving s = Some (r0, m0) /\ r0 <> r) ->
                   (forall r0 m0, ss_receiving s0 = Some (r0, m0) -> r0 <> r) ->
                   match scan_mailbox r c t s0 s mb with
                   | RComplete v mb' => exists m, v = VMsg m /\ pick_msg r c t mb = Picked m mb'
                   | RCalled s' => good s s' /\
                                   exists m, ss_receiving s' = Some (r, m) /\
                                             forall e, verdict_of r m = VdErr e -> pick_msg r c t mb = PickErr e
                   | RContinue s' => pick_msg r c t mb = NoPick /\ good s s' /\ live_ok (S r) s'
                   | RErr _ _ => False
                   | RPanic _ => False
                   end).
  { intros Hrcv Hne.
    pose proof (scan_mailbox_ok r c t s Hsrc Hlen Hsk Hrinv Hcle Hrcv) as H.
    destruct (scan_mailbox r c t s0 s mb) as [v mb'|s'|s'|e s'|n]; auto.
    destruct H as (Hp & Hg & Hcur & Hr). split; [exact Hp|]. split; [exact Hg|].
    destruct Hg as (G1 & G2 & G3 & G4 & G5 & G6).
    constructor; auto.
    - intros r' Hle. rewrite Hcur by lia. apply Hagree. lia.
    - rewrite Hr. destruct Hlr as [(He & Hle)|(He & Hlt)].
      + left. split; auto. intros r0 m0 H0. specialize (Hle _ _ H0). specialize (Hne _ _ H0). lia.
      + right. split; auto. intros r0 m0 H0. specialize (Hlt _ _ H0). lia. }
  destruct (ss_receiving s0) as [[idx m0]|] eqn:Ercv0.
  - destruct (Nat.eqb idx r) eqn:Eidx.
    + apply Nat.eqb_eq in Eidx. subst idx.
      destruct Hrr as (Hnoerr & Hrreq).
      (* the live slot still holds the message (the right disjunct would need r < r) *)
      destruct Hlr as [(He & _)|(_ & Hlt)]; [|specialize (Hlt _ _ eq_refl); lia].
      rewrite He in Hrinv. cbn in Hrinv. destruct Hrinv as (c0 & Hs0 & Hcompat & Hnth).
      rewrite Hsrc in Hs0. inversion Hs0; subst c0 t. clear Hs0.
      assert (Hacc : accepts r c false m0 = verdict_of r m0).
      { unfold SelectSpec.accepts. rewrite Hcompat. reflexivity. }
      destruct (verdict_of r m0) as [n| |e] eqn:Evd; [| |exfalso; eapply Hnoerr; eauto].
      * (* accepted *)
        rewrite Hrreq. cbn [rr_of].
        exists m0. split; auto.
        assert (Hlt : cur_get r (ss_cursors s) < length mb) by (apply nth_error_Some; congruence).
        unfold take_msg. apply Nat.ltb_lt in Hlt. rewrite Hlt.
        eapply pick_at; eauto.
      * (* rejected: cursor + 1, slot cleared, scan on *)
        rewrite Hrreq. cbn [rr_of].
        assert (Hl : Nat.ltb r (length (ss_cursors s)) = true) by (apply Nat.ltb_lt; lia).
        rewrite Hl.
        set (s2 := with_receiving (with_cursors s (set_nth r (S (cur_get r (ss_cursors s))) (ss_cursors s))) None).
        assert (Hlen2 : length (ss_cursors s2) = count_recv written).
        { unfold s2, with_receiving, with_cursors; cbn [ss_cursors]. rewrite length_set_nth. exact Hlen. }
        assert (Hsk2 : skipped_before (ss_cursors s2) mb).
        { unfold s2, with_receiving, with_cursors; cbn [ss_cursors].
          intros r1 c1 t1 Hsrc1 j x Hj Hx.
          destruct (Nat.eq_dec r r1) as [<-|Hne].
          - rewrite cur_get_set_eq in Hj by lia. rewrite Hsrc in Hsrc1. inversion Hsrc1; subst c1 t1.
            destruct (Nat.eq_dec j (cur_get r (ss_cursors s))) as [->|Hnej].
            + rewrite Hnth in Hx. inversion Hx; subst x. rewrite Hacc. reflexivity.
            + eapply Hsk; eauto. lia.
          - rewrite cur_get_set_neq in Hj by auto. eapply Hsk; eauto. }
        assert (Hri2 : receiving_inv (ss_cursors s2) mb (ss_receiving s2)) by exact I.
        assert (Hcle2 : cursors_le (ss_cursors s2) mb).
        { unfold s2, with_receiving, with_cursors; cbn [ss_cursors]. apply cursors_le_set; auto.
          assert (cur_get r (ss_cursors s) < length mb) by (apply nth_error_Some; congruence). lia. }
        pose proof (scan_mailbox_ok r c false s2 Hsrc Hlen2 Hsk2 Hri2 Hcle2 (or_introl eq_refl)) as H.
        destruct (scan_mailbox r c false s0 s2 mb) as [v mb'|s'|s'|e s'|n]; auto.
        destruct H as (Hp & Hg & Hcur & Hr). split; [exact Hp|]. split.
           ++ exact Hg.
           ++ destruct Hg as (G1 & G2 & G3 & G4 & G5 & G6). constructor; auto.
              ** intros r' Hle. rewrite Hcur by lia.
                 unfold s2, with_receiving, with_cursors; cbn [ss_cursors].
                 rewrite cur_get_set_neq by lia. apply Hagree. lia.
              ** right. split; [rewrite Hr; reflexivity|]. intros r0 m1 H0. rewrite Ercv0 in H0. inversion H0; subst. lia.
    + apply Nat.eqb_neq in Eidx.
      apply Hplain.
      * destruct Hlr as [(He & _)|(He & _)]; [right; exists idx, m0; rewrite He; auto | left; auto].
      * intros r0 m1 H0. inversion H0; subst. exact Eidx.
  - apply Hplain.
    + destruct Hlr as [(He & _)|(He & _)]; left; congruence.
    + intros r0 m1 H0. discriminate H0.
Qed.

(* ---------------------------------------------------------------- one pass over the sources *)
Lemma process_sources_ok start now aw : forall suf r s,
  (forall k, nth_recv written (r + k) = nth_recv suf k) ->
  live_ok r s ->
  match process_sources s0 rr start now aw suf r s mb with
  | SComplete v mb' => select_spec_from suf r mb aw start now = Complete v mb'
  | SCalled s' => good s s' /\
                  exists r1 m, ss_receiving s' = Some (r1, m) /\
                               forall e, verdict_of r1 m = VdErr e ->
                                         select_spec_from suf r mb aw start now = Fail e
  | SPark s' => select_spec_from suf r mb aw start now = Wait /\ good s s'
  | SError e s' => select_spec_from suf r mb aw start now = Fail e
  | SPanic _ => False
  end.
Proof.
  induction suf as [|src rest IH]; intros r s Hsuf Hlive.
  - cbn. split; auto. eapply live_ok_good; eauto.
  - destruct src as [p|c t|d|e].
    + (* awaited process *)
      cbn [process_sources select_spec_from SelectSpec.select_spec_from].
      destruct (aw_get p aw) as [[v|]|]; auto; apply IH; auto.
    + (* receive *)
      cbn [process_sources select_spec_from SelectSpec.select_spec_from].
      assert (Hsrc : nth_recv written r = Some (c, t)).
      { specialize (Hsuf 0). rewrite Nat.add_0_r in Hsuf. exact Hsuf. }
      pose proof (handle_select_receive_ok r c t s Hsrc Hlive) as H.
      destruct (handle_select_receive r c t rr s0 s mb) as [v mb'|s'|s'|e s'|n]; try contradiction.
      * destruct H as (m & -> & Hp). rewrite Hp. reflexivity.
      * destruct H as (Hg & m & Hr & He). split; auto. exists r, m. split; auto.
        intros e Hv. rewrite (He e Hv). reflexivity.
      * destruct H as (Hp & Hg & Hlive'). rewrite Hp.
        assert (Hsuf' : forall k, nth_recv written (S r + k) = nth_recv rest k).
        { intros k. specialize (Hsuf (S k)). rewrite Nat.add_succ_r in Hsuf. exact Hsuf. }
        pose proof (IH (S r) s' Hsuf' Hlive') as H2.
        destruct (process_sources s0 rr start now aw rest (S r) s' mb) as [v mb'|s2|s2|e s2|n]; auto.
        -- destruct H2 as (Hg2 & Hrest). split; auto. eapply good_trans; eauto.
        -- destruct H2 as (Hw & Hg2). split; auto. eapply good_trans; eauto.
    + (* timeout *)
      cbn [process_sources select_spec_from SelectSpec.select_spec_from].
      destruct (timeout_ready d start now); auto. apply IH; auto.
    + (* not a source *)
      cbn [process_sources select_spec_from SelectSpec.select_spec_from]. reflexivity.
Qed.

(* ---------------------------------------------------------------- a pass that parks has scanned
   every receive source to the end of the mailbox (sys premise park_honest, first clause) *)
Lemma scan_mailbox_end r c t s s' :
  r < length (ss_cursors s) ->
  cur_get r (ss_cursors s) <= length mb ->
  cur_get r (ss_cursors s0) <= cur_get r (ss_cursors s) ->
  scan_mailbox r c t s0 s mb = RContinue s' ->
  cur_get r (ss_cursors s') = length mb /\
  forall r', r <> r' -> cur_get r' (ss_cursors s') = cur_get r' (ss_cursors s).
Proof.
  intros Hr Hle Hmono H. unfold scan_mailbox in H.
  set (cur := cur_get r (ss_cursors s)) in *.
  destruct (scan c (skipn cur mb) cur cur) as [idx m|c'] eqn:Escan.
  - destruct t; [discriminate|]. destruct (Nat.ltb r (length (ss_cursors s))); discriminate.
  - apply scan_notfound in Escan. destruct Escan as (_ & Hc').
    assert (Hc : c' = length mb).
    { rewrite Hc'. destruct (skipn cur mb) as [|a l] eqn:Esk.
      - assert (length mb <= cur) by (apply skipn_nil_iff; exact Esk). lia.
      - assert (Hl : length (skipn cur mb) = length mb - cur) by apply skipn_length.
        rewrite Esk in Hl. cbn [length] in Hl |- *. lia. }
    destruct (Nat.ltb (cur_get r (ss_cursors s0)) c') eqn:Elt.
    + apply Nat.ltb_lt in Hr. rewrite Hr in H. inversion H; subst s'. apply Nat.ltb_lt in Hr.
      unfold with_cursors; cbn [ss_cursors]. split.
      * rewrite cur_get_set_eq by exact Hr. exact Hc.
      * intros r' Hne. apply cur_get_set_neq. exact Hne.
    + inversion H; subst s'. apply Nat.ltb_ge in Elt. split; [lia|reflexivity].
Qed.

Lemma handle_select_receive_end r c t s s' :
  nth_recv written r = Some (c, t) ->
  live_ok r s ->
  handle_select_receive r c t rr s0 s mb = RContinue s' ->
  cur_get r (ss_cursors s') = length mb /\
  forall r', r <> r' -> cur_get r' (ss_cursors s') = cur_get r' (ss_cursors s).
Proof.
  intros Hsrc [Hlen Hagree Hsk Hrinv Hcle Hlr] H.
  pose proof (nth_recv_lt _ _ _ Hsrc) as Hrlt.
  assert (Hplain : scan_mailbox r c t s0 s mb = RContinue s' ->
                   cur_get r (ss_cursors s') = length mb /\
                   forall r', r <> r' -> cur_get r' (ss_cursors s') = cur_get r' (ss_cursors s)).
  { apply scan_mailbox_end; [lia|apply Hcle|]. rewrite Hagree by lia. lia. }
  unfold handle_select_receive in H.
  destruct (ss_receiving s0) as [[idx m0]|] eqn:Ercv0; [|auto].
  destruct (Nat.eqb idx r) eqn:Eidx; [|auto].
  apply Nat.eqb_eq in Eidx. subst idx.
  destruct rr as [[n|]|]; try discriminate.
  destruct (Nat.ltb r (length (ss_cursors s))) eqn:El; [|discriminate].
  destruct Hlr as [(He & _)|(_ & Hlt)]; [|specialize (Hlt _ _ eq_refl); lia].
  rewrite He in Hrinv. cbn in Hrinv. destruct Hrinv as (c0 & _ & _ & Hnth).
  assert (Hcur : cur_get r (ss_cursors s) < length mb) by (apply nth_error_Some; congruence).
  apply scan_mailbox_end in H.
  - unfold with_receiving, with_cursors in H; cbn [ss_cursors] in H. destruct H as (H1 & H2). split; auto.
    intros r' Hne. rewrite (H2 r' Hne). apply cur_get_set_neq. exact Hne.
  - unfold with_receiving, with_cursors; cbn [ss_cursors]. rewrite length_set_nth. lia.
  - unfold with_receiving, with_cursors; cbn [ss_cursors]. rewrite cur_get_set_eq by lia. lia.
  - unfold with_receiving, with_cursors; cbn [ss_cursors]. rewrite cur_get_set_eq by lia.
    rewrite <- (Hagree r) by lia. lia.
Qed.

Lemma process_sources_end start now aw : forall suf r s s',
  (forall k, nth_recv written (r + k) = nth_recv suf k) ->
  live_ok r s ->
  (forall r', r' < r -> cur_get r' (ss_cursors s) = length mb) ->
  process_sources s0 rr start now aw suf r s mb = SPark s' ->
  forall r', r' < r + count_recv suf -> cur_get r' (ss_cursors s') = length mb.
Proof.
  induction suf as [|src rest IH]; intros r s s' Hsuf Hlive Hdone H.
  - cbn in H. inversion H; subst s'. unfold count_recv; cbn. intros r' Hr'. apply Hdone. lia.
  - destruct src as [p|c t|d|e]; cbn [process_sources] in H.
    + assert (Hc : count_recv (SrcProc p :: rest) = count_recv rest) by reflexivity. rewrite Hc.
      destruct (aw_get p aw) as [[v|]|]; try discriminate; eapply IH; eauto.
    + assert (Hsrc : nth_recv written r = Some (c, t)).
      { specialize (Hsuf 0). rewrite Nat.add_0_r in Hsuf. exact Hsuf. }
      pose proof (handle_select_receive_ok r c t s Hsrc Hlive) as Hok.
      pose proof (handle_select_receive_end r c t s) as Hend.
      destruct (handle_select_receive r c t rr s0 s mb) as [v mb'|s1|s1|e s1|n]; try discriminate.
      destruct Hok as (_ & _ & Hlive1).
      destruct (Hend s1 Hsrc Hlive eq_refl) as (E1 & E2).
      assert (Hc : count_recv (SrcRecv c t :: rest) = S (count_recv rest)) by reflexivity. rewrite Hc.
      intros r' Hr'. replace (r + S (count_recv rest)) with (S r + count_recv rest) in Hr' by lia.
      eapply (IH (S r) s1 s'); eauto.
      * intros k. specialize (Hsuf (S k)). rewrite Nat.add_succ_r in Hsuf. exact Hsuf.
      * intros r2 Hr2. destruct (Nat.eq_dec r r2) as [<-|Hne]; [exact E1|].
        rewrite (E2 r2 Hne). apply Hdone. lia.
    + assert (Hc : count_recv (SrcTimeout d :: rest) = count_recv rest) by reflexivity. rewrite Hc.
      destruct (timeout_ready d start now); try discriminate. eapply IH; eauto.
    + discriminate.
Qed.

(* ... and no timeout source was due at the clock of that pass (sys premise time_honest, for the
   slice that parks) *)
Lemma process_sources_park_timeouts start now aw : forall suf r s s',
  process_sources s0 rr start now aw suf r s mb = SPark s' ->
  forall d, In (SrcTimeout d) suf -> timeout_ready d start now = false.
Proof.
  induction suf as [|src rest IH]; intros r s s' H d Hin; [destruct Hin|].
  destruct src as [p|c t|d0|e]; cbn [process_sources] in H.
  - destruct Hin as [Hd|Hin]; [discriminate|]. destruct (aw_get p aw) as [[v|]|]; try discriminate; eapply IH; eauto.
  - destruct Hin as [Hd|Hin]; [discriminate|].
    destruct (handle_select_receive r c t rr s0 s mb); try discriminate. eapply IH; eauto.
  - destruct (timeout_ready d0 start now) eqn:E; try discriminate.
    destruct Hin as [Hd|Hin]; [inversion Hd; subst; exact E|eapply IH; eauto].
  - discriminate.
Qed.

(* ... and no awaited process source had its result delivered *)
Lemma process_sources_park_procs start now aw : forall suf r s s',
  process_sources s0 rr start now aw suf r s mb = SPark s' ->
  forall p, In (SrcProc p) suf -> forall v, aw_get p aw <> Some (Some v).
Proof.
  induction suf as [|src rest IH]; intros r s s' H p Hin v; [destruct Hin|].
  destruct src as [p0|c t|d0|e]; cbn [process_sources] in H.
  - destruct (aw_get p0 aw) as [[v0|]|] eqn:E; try discriminate;
      (destruct Hin as [Hd|Hin]; [inversion Hd; subst; rewrite E; discriminate|eapply IH; eauto]).
  - destruct Hin as [Hd|Hin]; [discriminate|].
    destruct (handle_select_receive r c t rr s0 s mb); try discriminate. eapply IH; eauto.
  - destruct Hin as [Hd|Hin]; [discriminate|]. destruct (timeout_ready d0 start now); try discriminate. eapply IH; eauto.
  - discriminate.
Qed.

End OneEntry.
(* ---------------------------------------------------------------- one entry (Executor::step) *)
Notation step := (step fix45 verdict_of written).
Notation apply_event := (apply_event fix45 verdict_of written).
Notation run := (run fix45 verdict_of written).
Notation select_spec := (select_spec verdict_of).

(* the start time the entry works with (ensure_select_start_time) *)
Definition start_of (s : sel_state) (now : Z) : Z :=
  match ss_start s with Some t => t | None => now end.

Lemma nth_recv_written0 : forall k, nth_recv written (0 + k) = nth_recv written k.
Proof. reflexivity. Qed.

(* what one pass over the sources of an active select guarantees *)
Lemma pass_ok s mb aw now :
  sel_inv s mb ->
  (forall r m e, ss_receiving s = Some (r, m) -> verdict_of r m <> VdErr e) ->
  let rr := match ss_receiving s with Some (r, m) => rr_of (verdict_of r m) | None => None end in
  let s1 := with_start s (Some (start_of s now)) in
  match process_sources s1 rr (start_of s now) now aw (ss_sources s1) 0 s1 mb with
  | SComplete v mb' => select_spec written mb aw (start_of s now) now = Complete v mb'
  | SCalled s' => sel_inv s' mb /\
                  exists r1 m, ss_receiving s' = Some (r1, m) /\
                               forall e, verdict_of r1 m = VdErr e ->
                                         select_spec written mb aw (start_of s now) now = Fail e
  | SPark s' => select_spec written mb aw (start_of s now) now = Wait /\ sel_inv s' mb
  | SError e s' => select_spec written mb aw (start_of s now) now = Fail e
  | SPanic _ => False
  end.
Proof.
  intros (Hsrc & Hlen & Hsk & Hrinv & Hcle) Hnoerr rr s1.
  assert (Hrr : match ss_receiving s1 with
                | Some (r0, m0) => (forall e, verdict_of r0 m0 <> VdErr e) /\ rr = rr_of (verdict_of r0 m0)
                | None => rr = None
                end).
  { unfold s1, rr, with_start; cbn [ss_receiving].
    destruct (ss_receiving s) as [[r0 m0]|] eqn:E; auto. }
  assert (Hlive : live_ok s1 mb 0 s1).
  { constructor; auto. left. split; auto. intros; lia. }
  pose proof (process_sources_ok s1 rr mb Hrr (start_of s now) now aw (ss_sources s1) 0 s1) as H.
  assert (Hsrc1 : ss_sources s1 = written) by exact Hsrc.
  rewrite Hsrc1 in H |- *. specialize (H nth_recv_written0 Hlive).
  unfold select_spec, SelectSpec.select_spec.
  destruct (process_sources s1 rr (start_of s now) now aw written 0 s1 mb) as [v mb'|s'|s'|e s'|n]; auto.
  - destruct H as ((G1 & G2 & G3 & G4 & G5 & G6) & Hrest). split; auto.
    unfold sel_inv. repeat split; auto. congruence.
  - destruct H as (Hw & (G1 & G2 & G3 & G4 & G5 & G6)). split; auto.
    unfold sel_inv. repeat split; auto. congruence.
Qed.

(* an active entry: the process is runnable, alive, still inside its select *)
Definition active (now : Z) (st : proc) (s : sel_state) : Prop :=
  p_queued (check_expired now st) = true /\ p_error st = None /\ p_value st = None /\ p_sel st = Some s.

Lemma check_expired_fields now st :
  p_mailbox (check_expired now st) = p_mailbox st /\ p_awaiting (check_expired now st) = p_awaiting st /\
  p_sel (check_expired now st) = p_sel st /\ p_value (check_expired now st) = p_value st /\
  p_error (check_expired now st) = p_error st.
Proof. unfold check_expired. destruct (_ && _); cbn; auto. Qed.

Lemma check_expired_unrep now st : p_unreported (check_expired now st) = p_unreported st.
Proof. unfold check_expired. destruct (_ && _); cbn; auto. Qed.

(* the initial entry *)
Lemma sel_inv_init now mb :
  sel_inv {| ss_sources := written; ss_cursors := repeat 0 (count_recv written);
             ss_start := match pids_of written with [] => Some now | _ => None end;
             ss_receiving := None |} mb.
Proof.
  unfold sel_inv; cbn [ss_sources ss_cursors ss_receiving]. repeat split; auto.
  - apply repeat_length.
  - intros r c t _ j m Hj. exfalso. unfold cur_get in Hj.
    assert (nth r (repeat 0 (count_recv written)) 0 = 0).
    { destruct (Nat.lt_ge_cases r (count_recv written)).
      - apply nth_repeat.
      - apply nth_overflow. rewrite repeat_length. lia. }
    lia.
  - intros r. unfold cur_get.
    assert (nth r (repeat 0 (count_recv written)) 0 = 0).
    { destruct (Nat.lt_ge_cases r (count_recv written)).
      - apply nth_repeat.
      - apply nth_overflow. rewrite repeat_length. lia. }
    lia.
Qed.

Lemma Inv_flags st q sl : Inv st -> Inv (set_flags st q sl).
Proof. unfold Inv. cbn. auto. Qed.
Lemma Inv_error st e : Inv (set_error st e).
Proof. unfold Inv. cbn. discriminate. Qed.
Lemma Inv_awaiting st aw : Inv st -> Inv (set_awaiting st aw).
Proof. unfold Inv. cbn. auto. Qed.
Lemma Inv_check_expired now st : Inv st -> Inv (check_expired now st).
Proof. unfold check_expired. destruct (_ && _); auto. Qed.
Lemma Inv_wake st : Inv st -> Inv (wake st).
Proof. unfold wake. destruct (p_selecting st); auto. Qed.

Lemma sel_inv_app s mb m : sel_inv s mb -> sel_inv s (mb ++ [m]).
Proof.
  intros (H1 & H2 & H3 & H4 & H5). unfold sel_inv. repeat split; auto.
  - intros r c t Hs j x Hj Hx.
    assert (j < length mb) by (specialize (H5 r); lia).
    rewrite nth_error_app1 in Hx by auto. eapply H3; eauto.
  - destruct (ss_receiving s) as [[r0 m0]|]; cbn in *; auto.
    destruct H4 as (c & A & B & C). exists c. repeat split; auto. apply nth_error_app_some. exact C.
  - intros r. rewrite app_length. specialize (H5 r). lia.
Qed.

(* ---------------------------------------------------------------- what a parking pass has established *)
Definition all_at_end (s : sel_state) (mb : list msg) : Prop :=
  Forall (fun c => c = length mb) (ss_cursors s).

Lemma pass_park s mb aw now s' :
  sel_inv s mb ->
  (forall r m e, ss_receiving s = Some (r, m) -> verdict_of r m <> VdErr e) ->
  let rr := match ss_receiving s with Some (r, m) => rr_of (verdict_of r m) | None => None end in
  let s1 := with_start s (Some (start_of s now)) in
  process_sources s1 rr (start_of s now) now aw (ss_sources s1) 0 s1 mb = SPark s' ->
  sel_inv s' mb /\ ss_start s' = Some (start_of s now) /\ all_at_end s' mb /\
  (forall d, In (SrcTimeout d) written -> timeout_ready d (start_of s now) now = false) /\
  (forall p v, In (SrcProc p) written -> aw_get p aw <> Some (Some v)).
Proof.
  intros (Hsrc & Hlen & Hsk & Hrinv & Hcle) Hnoerr rr s1 Hpark.
  assert (Hrr : match ss_receiving s1 with
                | Some (r0, m0) => (forall e, verdict_of r0 m0 <> VdErr e) /\ rr = rr_of (verdict_of r0 m0)
                | None => rr = None
                end).
  { unfold s1, rr, with_start; cbn [ss_receiving].
    destruct (ss_receiving s) as [[r0 m0]|] eqn:E; auto. }
  assert (Hlive : live_ok s1 mb 0 s1).
  { constructor; auto. left. split; auto. intros; lia. }
  assert (Hsrc1 : ss_sources s1 = written) by exact Hsrc.
  rewrite Hsrc1 in Hpark.
  pose proof (process_sources_ok s1 rr mb Hrr (start_of s now) now aw written 0 s1 nth_recv_written0 Hlive) as Hok.
  pose proof (process_sources_end s1 rr mb Hrr (start_of s now) now aw written 0 s1 s' nth_recv_written0 Hlive
                ltac:(intros; lia) Hpark) as Hend.
  pose proof (process_sources_park_timeouts s1 rr mb (start_of s now) now aw written 0 s1 s' Hpark) as Htm.
  pose proof (process_sources_park_procs s1 rr mb (start_of s now) now aw written 0 s1 s' Hpark) as Hpr.
  rewrite Hpark in Hok. destruct Hok as (_ & (G1 & G2 & G3 & G4 & G5 & G6)).
  split; [unfold sel_inv; repeat split; auto; congruence|].
  split; [rewrite G2; reflexivity|].
  split; [|split; auto].
  unfold all_at_end. apply Forall_nth. intros i d Hi.
  rewrite (nth_indep _ d 0 Hi). apply (Hend i). rewrite Nat.add_0_l. rewrite <- G3. exact Hi.
Qed.

(* a step that parks a runnable, live process inside its select *)
Lemma park_entry now st st' s :
  Inv st -> active now st s -> p_unreported st = [] ->
  step now st = Val st' -> p_queued st' = false -> p_error st' = None ->
  exists s', p_sel st' = Some s' /\ p_selecting st' = true /\
    p_mailbox st' = p_mailbox st /\ p_awaiting st' = p_awaiting st /\
    sel_inv s' (p_mailbox st) /\ ss_start s' = Some (start_of s now) /\ all_at_end s' (p_mailbox st) /\
    (forall d, In (SrcTimeout d) written -> timeout_ready d (start_of s now) now = false) /\
    (forall p v, In (SrcProc p) written -> aw_get p (p_awaiting st) <> Some (Some v)).
Proof.
  intros HI (Hq & Herr & Hval & Hsel) Hun Hstep Hq' He'.
  destruct (check_expired_fields now st) as (Fmb & Faw & Fsel & Fval & Ferr).
  pose proof (check_expired_unrep now st) as Fun.
  assert (Hinv : sel_inv s (p_mailbox st)) by (apply HI; auto).
  assert (Hne : forall r m e, ss_receiving s = Some (r, m) -> verdict_of r m <> VdErr e).
  { intros r m e Hr Hvd. unfold Select.step in Hstep.
    rewrite Hq, Ferr, Herr, Fval, Hval, Fsel, Hsel, Hr, Hvd in Hstep. cbn [negb] in Hstep.
    inversion Hstep; subst. cbn in He'. discriminate. }
  pose proof (pass_park s (p_mailbox st) (p_awaiting st) now) as HP. cbv zeta in HP.
  unfold Select.step in Hstep. rewrite Hq, Ferr, Herr, Fval, Hval, Fsel, Hsel, Fun, Hun in Hstep. cbn [negb] in Hstep.
  rewrite Fmb, Faw in Hstep.
  assert (Hgo : forall rr,
            rr = match ss_receiving s with Some (r, m) => rr_of (verdict_of r m) | None => None end ->
            match process_sources (with_start s (Some (start_of s now))) rr (start_of s now) now (p_awaiting st)
                    (ss_sources (with_start s (Some (start_of s now)))) 0 (with_start s (Some (start_of s now))) (p_mailbox st) with
            | SComplete v mb => Val (complete_select fix45 (check_expired now st) (ss_sources (with_start s (Some (start_of s now)))) v mb)
            | SCalled s' => Val (set_sel (check_expired now st) (Some s'))
            | SPark s' => Val (set_flags (set_sel (check_expired now st) (Some s')) false true)
            | SError e s' => Val (set_flags (set_error (set_sel (check_expired now st) (Some s')) (PErr e)) false (p_selecting (check_expired now st)))
            | SPanic n => Panic n
            end = Val st' ->
            exists s', p_sel st' = Some s' /\ p_selecting st' = true /\
              p_mailbox st' = p_mailbox st /\ p_awaiting st' = p_awaiting st /\
              sel_inv s' (p_mailbox st) /\ ss_start s' = Some (start_of s now) /\ all_at_end s' (p_mailbox st) /\
              (forall d, In (SrcTimeout d) written -> timeout_ready d (start_of s now) now = false) /\
              (forall p v, In (SrcProc p) written -> aw_get p (p_awaiting st) <> Some (Some v))).
  { clear Hstep. intros rr Hrr Hs. subst rr.
    destruct (process_sources _ _ _ _ _ _ _ _ _) as [v mb'|s'|s'|e s'|n'] eqn:Eps;
      inversion Hs; subst; cbn in Hq', He'; try congruence; try discriminate.
    destruct (HP s' Hinv Hne eq_refl) as (A & B & C & D & E).
    exists s'. cbn. rewrite Fmb, Faw. repeat split; auto; apply A. }
  destruct (ss_receiving s) as [[r0 m0]|] eqn:Ercv.
  - destruct (verdict_of r0 m0) as [n| |e] eqn:Evd; [| |exfalso; eapply Hne; eauto].
    + apply (Hgo (Some (Some n))); [reflexivity|]. unfold start_of. exact Hstep.
    + apply (Hgo (Some None)); [reflexivity|]. unfold start_of. exact Hstep.
  - apply (Hgo None); [reflexivity|]. unfold start_of. exact Hstep.
Qed.

(* An active entry whose popped verdict (if any) is not an error does exactly one of four things,
   each justified by the specification evaluated on the state at this entry. *)
Lemma active_entry now st s :
  Inv st -> active now st s -> p_unreported st = [] ->
  (forall r m e, ss_receiving s = Some (r, m) -> verdict_of r m <> VdErr e) ->
  let st1 := check_expired now st in
  let spec := select_spec written (p_mailbox st) (p_awaiting st) (start_of s now) now in
  (exists v mb', spec = Complete v mb' /\ step now st = Val (complete_select fix45 st1 written v mb')) \/
  (exists s', sel_inv s' (p_mailbox st) /\
              (exists r1 m, ss_receiving s' = Some (r1, m) /\ forall e, verdict_of r1 m = VdErr e -> spec = Fail e) /\
              step now st = Val (set_sel st1 (Some s'))) \/
  (exists s', spec = Wait /\ sel_inv s' (p_mailbox st) /\
              step now st = Val (set_flags (set_sel st1 (Some s')) false true)) \/
  (exists e s', spec = Fail e /\
                step now st = Val (set_flags (set_error (set_sel st1 (Some s')) (PErr e)) false (p_selecting st1))).
Proof.
  intros HI (Hq & Herr & Hval & Hsel) Hun Hnoerr st1 spec.
  destruct (check_expired_fields now st) as (Fmb & Faw & Fsel & Fval & Ferr).
  pose proof (check_expired_unrep now st) as Fun.
  fold st1 in Hq, Fmb, Faw, Fsel, Fval, Ferr, Fun.
  assert (Hinv : sel_inv s (p_mailbox st)) by (apply HI; auto).
  pose proof (pass_ok s (p_mailbox st) (p_awaiting st) now Hinv Hnoerr) as H. cbv zeta in H.
  assert (Hsrcs : ss_sources (with_start s (Some (start_of s now))) = written) by apply Hinv.
  unfold Select.step. fold st1. rewrite Hq, Ferr, Herr, Fval, Hval, Fsel, Hsel, Fun, Hun. cbn [negb].
  rewrite Fmb, Faw.
  destruct (ss_receiving s) as [[r0 m0]|] eqn:Ercv.
  - destruct (verdict_of r0 m0) as [n| |e] eqn:Evd; [| |exfalso; eapply Hnoerr; eauto].
    + cbn [rr_of] in H. unfold start_of in H |- *.
      destruct (process_sources _ _ _ _ _ _ _ _ _) as [v mb'|s'|s'|e s'|n']; try contradiction.
      * left. exists v, mb'. split; auto. unfold with_start; cbn [ss_sources]. rewrite (proj1 Hinv). reflexivity.
      * right; left. exists s'. destruct H as (A & B). auto.
      * right; right; left. exists s'. destruct H as (A & B). auto.
      * right; right; right. exists e, s'. auto.
    + cbn [rr_of] in H. unfold start_of in H |- *.
      destruct (process_sources _ _ _ _ _ _ _ _ _) as [v mb'|s'|s'|e s'|n']; try contradiction.
      * left. exists v, mb'. split; auto. unfold with_start; cbn [ss_sources]. rewrite (proj1 Hinv). reflexivity.
      * right; left. exists s'. destruct H as (A & B). auto.
      * right; right; left. exists s'. destruct H as (A & B). auto.
      * right; right; right. exists e, s'. auto.
  - unfold start_of in H |- *.
    destruct (process_sources _ _ _ _ _ _ _ _ _) as [v mb'|s'|s'|e s'|n']; try contradiction.
    * left. exists v, mb'. split; auto. unfold with_start; cbn [ss_sources]. rewrite (proj1 Hinv). reflexivity.
    * right; left. exists s'. destruct H as (A & B). auto.
    * right; right; left. exists s'. destruct H as (A & B). auto.
    * right; right; right. exists e, s'. auto.
Qed.

(* ---------------------------------------------------------------- totality + invariance *)
(* the re-park of a select woken before every awaited process has been reported (Phase 3) *)
Lemma repark_step now st s :
  active now st s -> p_unreported st <> [] ->
  (forall r m e, ss_receiving s = Some (r, m) -> verdict_of r m <> VdErr e) ->
  step now st = Val (set_flags (check_expired now st) false true).
Proof.
  intros (Hq & Herr & Hval & Hsel) Hun Hne.
  destruct (check_expired_fields now st) as (Fmb & Faw & Fsel & Fval & Ferr).
  pose proof (check_expired_unrep now st) as Fun.
  unfold Select.step. rewrite Hq, Ferr, Herr, Fval, Hval, Fsel, Hsel, Fun. cbn [negb].
  destruct (p_unreported st) as [|u us]; [contradiction|].
  destruct (ss_receiving s) as [[r0 m0]|] eqn:Ercv; [|reflexivity].
  destruct (verdict_of r0 m0) as [n| |e] eqn:Evd; try reflexivity. exfalso. eapply Hne; eauto.
Qed.

Lemma step_total now st : Inv st -> exists st', step now st = Val st' /\ Inv st'.
Proof.
  intros HI.
  pose proof (Inv_check_expired now st HI) as HI1.
  destruct (check_expired_fields now st) as (Fmb & Faw & Fsel & Fval & Ferr).
  destruct (p_queued (check_expired now st)) eqn:Hq.
  2:{ unfold Select.step. rewrite Hq. cbn [negb]. eauto. }
  destruct (p_error st) as [pe|] eqn:Herr.
  { unfold Select.step. rewrite Hq, Ferr, ?Herr. cbn [negb]. eexists; split; [reflexivity|].
    apply Inv_flags; auto. }
  destruct (p_value st) as [v|] eqn:Hval.
  { unfold Select.step. rewrite Hq, Ferr, ?Herr, Fval, ?Hval. cbn [negb]. eauto. }
  destruct (p_sel st) as [s|] eqn:Hsel.
  - destruct (ss_receiving s) as [[r0 m0]|] eqn:Ercv.
    + destruct (verdict_of r0 m0) as [n| |e] eqn:Evd.
      3:{ unfold Select.step. rewrite Hq, Ferr, ?Herr, Fval, ?Hval, Fsel, ?Hsel, Ercv, Evd. cbn [negb].
          eexists; split; [reflexivity|]. apply Inv_flags. apply Inv_error. }
      all: assert (Hne : forall r m e, ss_receiving s = Some (r, m) -> verdict_of r m <> VdErr e)
          by (intros r m e Heq; rewrite Ercv in Heq; inversion Heq; subst; rewrite Evd; discriminate).
      all: destruct (p_unreported st) as [|u us] eqn:Hun;
        [|rewrite (repark_step now st s (conj Hq (conj Herr (conj Hval Hsel))));
          [eexists; split; [reflexivity|apply Inv_flags; exact HI1]|rewrite Hun; discriminate|assumption]].
      all: destruct (active_entry now st s HI (conj Hq (conj Herr (conj Hval Hsel))) Hun Hne)
          as [(v & mb' & _ & ->)|[(s' & Hi' & _ & ->)|[(s' & _ & Hi' & ->)|(e & s' & _ & ->)]]].
      all: eexists; split; [reflexivity|].
      all: try (unfold Inv; cbn; intros _ s2 Hs2; discriminate Hs2).
      all: try (unfold Inv; cbn; intros _ s2 Hs2; inversion Hs2; subst; rewrite Fmb; exact Hi').
      all: try (apply Inv_flags; apply Inv_error).
    + assert (Hne : forall r m e, ss_receiving s = Some (r, m) -> verdict_of r m <> VdErr e)
          by (intros r m e Heq; rewrite Ercv in Heq; discriminate Heq).
      destruct (p_unreported st) as [|u us] eqn:Hun;
        [|rewrite (repark_step now st s (conj Hq (conj Herr (conj Hval Hsel))));
          [eexists; split; [reflexivity|apply Inv_flags; exact HI1]|rewrite Hun; discriminate|assumption]].
      destruct (active_entry now st s HI (conj Hq (conj Herr (conj Hval Hsel))) Hun Hne)
          as [(v & mb' & _ & ->)|[(s' & Hi' & _ & ->)|[(s' & _ & Hi' & ->)|(e & s' & _ & ->)]]].
      all: eexists; split; [reflexivity|].
      all: try (unfold Inv; cbn; intros _ s2 Hs2; discriminate Hs2).
      all: try (unfold Inv; cbn; intros _ s2 Hs2; inversion Hs2; subst; rewrite Fmb; exact Hi').
      all: try (apply Inv_flags; apply Inv_error).
  - unfold Select.step. rewrite Hq, Ferr, ?Herr, Fval, ?Hval, Fsel, ?Hsel. cbn [negb].
    eexists; split; [reflexivity|].
    unfold initialize_select.
    pose proof (sel_inv_init now (p_mailbox (check_expired now st))) as H.
    destruct (pids_of written) eqn:Ep.
    + unfold Inv; cbn. intros _ s2 Hs2. inversion Hs2; subst. exact H.
    + unfold Inv; cbn. intros _ s2 Hs2. inversion Hs2; subst. exact H.
Qed.

Lemma notify_result_Inv p v st : Inv st -> Inv (notify_result fix45 p v st).
Proof.
  intros HI. unfold notify_result. apply Inv_wake.
  destruct (fix45 && negb (aw_has p (p_awaiting st))); auto.
Qed.

Lemma apply_event_total ev st : Inv st -> exists st', apply_event ev st = Val st' /\ Inv st'.
Proof.
  intros HI. destruct ev as [now|m|p v|p| |p r|tnow|rps]; cbn [Select.apply_event].
  - apply step_total; auto.
  - eexists; split; [reflexivity|]. apply Inv_wake.
    unfold Inv; cbn. intros He s Hs. apply sel_inv_app. apply HI; auto.
  - eexists; split; [reflexivity|]. apply notify_result_Inv; auto.
  - eexists; split; [reflexivity|]. destruct (fix45 && negb (aw_has p (p_awaiting st))); [apply Inv_wake; auto|apply Inv_error].
  - eexists; split; [reflexivity|]. apply Inv_wake; auto.
  - destruct (aw_has p (p_awaiting st)); [destruct r|]; eexists; split; try reflexivity; auto.
    + apply notify_result_Inv; auto.
    + apply Inv_error.
  - eexists; split; [reflexivity|]. apply Inv_check_expired; auto.
  - eexists; split; [reflexivity|]. exact HI.
Qed.

Lemma Inv_initial mb aw : Inv (initial mb aw).
Proof. unfold Inv, initial; cbn. intros _ s Hs. discriminate Hs. Qed.

(* the machine never panics, and every reachable state satisfies the invariant *)
Lemma run_total : forall evs st, Inv st -> exists st', run evs st = Val st' /\ Inv st'.
Proof.
  induction evs as [|ev evs IH]; intros st HI; cbn [Select.run].
  - eauto.
  - destruct (apply_event_total ev st HI) as (st1 & -> & HI1). cbn [obind]. apply IH; auto.
Qed.

(* ---------------------------------------------------------------- the property lemmas *)
(* cursor_skips_only_rejected, on every reachable state *)
Lemma cursor_skips_only_rejected_reach mb0 aw0 evs st s :
  run evs (initial mb0 aw0) = Val st -> p_error st = None -> p_sel st = Some s ->
  forall r c t, nth_recv written r = Some (c, t) ->
  forall j m, j < cur_get r (ss_cursors s) -> nth_error (p_mailbox st) j = Some m ->
  compat c m = false \/ (t = false /\ verdict_of r m = VdNil).
Proof.
  intros Hrun Herr Hsel r c t Hsrc j m Hj Hm.
  destruct (run_total evs (initial mb0 aw0) (Inv_initial mb0 aw0)) as (st' & Hrun' & HI).
  rewrite Hrun in Hrun'. inversion Hrun'; subst st'.
  destruct (HI Herr s Hsel) as (_ & _ & Hsk & _).
  specialize (Hsk r c t Hsrc j m Hj Hm). unfold SelectSpec.accepts in Hsk.
  destruct (compat c m); auto. destruct t; [discriminate|]. auto.
Qed.

(* a step that turns "no value yet" into "value v" is a completing entry of an active select *)
Lemma completing_is_active now st st' v :
  step now st = Val st' -> p_value st = None -> p_value st' = Some v ->
  exists s, active now st s /\ (forall r m e, ss_receiving s = Some (r, m) -> verdict_of r m <> VdErr e) /\
            p_unreported st = [].
Proof.
  intros Hstep Hv0 Hv1. pose proof (check_expired_unrep now st) as Fun.
  destruct (check_expired_fields now st) as (Fmb & Faw & Fsel & Fval & Ferr).
  unfold Select.step in Hstep.
  destruct (p_queued (check_expired now st)) eqn:Hq; cbn [negb] in Hstep.
  2:{ inversion Hstep; subst. congruence. }
  rewrite Ferr in Hstep. destruct (p_error st) as [pe|] eqn:Herr.
  { inversion Hstep; subst. cbn in Hv1. congruence. }
  rewrite Fval, Hv0 in Hstep.
  rewrite Fsel in Hstep. destruct (p_sel st) as [s|] eqn:Hsel.
  2:{ inversion Hstep; subst. unfold initialize_select in Hv1.
      destruct (pids_of written); cbn in Hv1; congruence. }
  exists s. split; [repeat split; auto|]. split.
  - intros r m e Hr Hvd. rewrite Hr, Hvd in Hstep. inversion Hstep; subst. cbn in Hv1. congruence.
  - destruct (p_unreported st) as [|u us] eqn:Hun; auto. exfalso. rewrite Fun in Hstep.
    destruct (ss_receiving s) as [[r0 m0]|]; [destruct (verdict_of r0 m0)|];
      inversion Hstep; subst; cbn in Hv1; congruence.
Qed.

Lemma select_refines_spec_step now st st' v :
  Inv st -> step now st = Val st' -> p_value st = None -> p_value st' = Some v ->
  exists s, p_sel st = Some s /\
    select_spec written (p_mailbox st) (p_awaiting st) (start_of s now) now = Complete v (p_mailbox st').
Proof.
  intros HI Hstep Hv0 Hv1.
  destruct (completing_is_active now st st' v Hstep Hv0 Hv1) as (s & Hact & Hne & Hun).
  destruct (check_expired_fields now st) as (Fmb & Faw & Fsel & Fval & Ferr).
  exists s. split; [apply Hact|].
  destruct (active_entry now st s HI Hact Hun Hne)
    as [(v' & mb' & Hspec & Hs)|[(s' & _ & _ & Hs)|[(s' & _ & _ & Hs)|(e & s' & _ & Hs)]]];
    rewrite Hs in Hstep; inversion Hstep; subst st'; cbn in Hv1; try congruence.
  inversion Hv1; subst v'. cbn. exact Hspec.
Qed.

(* a step that parks a runnable, live process (queued before, not queued and not dead after) *)
Lemma parks_only_when_spec_waits_step now st st' s :
  Inv st -> step now st = Val st' -> active now st s -> p_unreported st = [] ->
  p_queued st' = false -> p_error st' = None ->
  select_spec written (p_mailbox st) (p_awaiting st) (start_of s now) now = Wait.
Proof.
  intros HI Hstep Hact Hun Hq' He'.
  destruct (check_expired_fields now st) as (Fmb & Faw & Fsel & Fval & Ferr).
  assert (Hne : forall r m e, ss_receiving s = Some (r, m) -> verdict_of r m <> VdErr e).
  { intros r m e Hr Hvd. destruct Hact as (Hq & Herr & Hval & Hsel).
    unfold Select.step in Hstep. rewrite Hq, Ferr, ?Herr, Fval, ?Hval, Fsel, ?Hsel, Hr, Hvd in Hstep.
    cbn [negb] in Hstep. inversion Hstep; subst. cbn in He'. discriminate. }
  destruct (active_entry now st s HI Hact Hun Hne)
    as [(v' & mb' & Hspec & Hs)|[(s' & _ & _ & Hs)|[(s' & Hspec & _ & Hs)|(e & s' & _ & Hs)]]];
    rewrite Hs in Hstep; inversion Hstep; subst st'; cbn in Hq', He'; auto; try discriminate.
  - destruct Hact as (Hq & _). congruence.
  - destruct Hact as (Hq & _). congruence.
Qed.

(* a step that kills a live process with an executor error: either the entry itself failed and
   the spec says Fail on this entry's state, or the popped verdict was a filter error *)
Lemma fails_only_when_spec_fails_step now st st' s e :
  Inv st -> step now st = Val st' -> active now st s -> p_unreported st = [] ->
  p_error st' = Some (PErr e) ->
  (exists r m, ss_receiving s = Some (r, m) /\ verdict_of r m = VdErr e) \/
  select_spec written (p_mailbox st) (p_awaiting st) (start_of s now) now = Fail e.
Proof.
  intros HI Hstep Hact Hun He'.
  destruct (check_expired_fields now st) as (Fmb & Faw & Fsel & Fval & Ferr).
  destruct (ss_receiving s) as [[r0 m0]|] eqn:Ercv.
  - destruct (verdict_of r0 m0) as [n| |e0] eqn:Evd.
    3:{ left. exists r0, m0. split; auto.
        destruct Hact as (Hq & Herr & Hval & Hsel).
        unfold Select.step in Hstep. rewrite Hq, Ferr, ?Herr, Fval, ?Hval, Fsel, ?Hsel, Ercv, Evd in Hstep.
        cbn [negb] in Hstep. inversion Hstep; subst. cbn in He'. congruence. }
    all: right.
    all: assert (Hne : forall r m e, ss_receiving s = Some (r, m) -> verdict_of r m <> VdErr e)
        by (intros r m e1 Heq; rewrite Ercv in Heq; inversion Heq; subst; rewrite Evd; discriminate).
    all: destruct (active_entry now st s HI Hact Hun Hne)
        as [(v' & mb' & _ & Hs)|[(s' & _ & _ & Hs)|[(s' & _ & _ & Hs)|(e1 & s' & Hspec & Hs)]]];
        rewrite Hs in Hstep; inversion Hstep; subst st'; cbn in He'; destruct Hact as (_ & Herr & _); try congruence.
  - right.
    assert (Hne : forall r m e, ss_receiving s = Some (r, m) -> verdict_of r m <> VdErr e)
        by (intros r m e1 Heq; rewrite Ercv in Heq; discriminate Heq).
    destruct (active_entry now st s HI Hact Hun Hne)
        as [(v' & mb' & _ & Hs)|[(s' & _ & _ & Hs)|[(s' & _ & _ & Hs)|(e1 & s' & Hspec & Hs)]]];
        rewrite Hs in Hstep; inversion Hstep; subst st'; cbn in He'; destruct Hact as (_ & Herr & _); try congruence.
Qed.

(* ... and a filter is only ever CALLED on a message for which the spec, on the calling entry's
   state, depends on that verdict: if the verdict is an error the spec already says Fail *)
Lemma failing_filter_called_only_when_spec_fails_step now st st' s s' r m e :
  Inv st -> step now st = Val st' -> active now st s -> p_unreported st = [] ->
  (forall r m e, ss_receiving s = Some (r, m) -> verdict_of r m <> VdErr e) ->
  p_error st' = None -> p_value st' = None -> p_queued st' = true ->
  p_sel st' = Some s' -> ss_receiving s' = Some (r, m) -> verdict_of r m = VdErr e ->
  select_spec written (p_mailbox st) (p_awaiting st) (start_of s now) now = Fail e.
Proof.
  intros HI Hstep Hact Hun Hne He' Hv' Hq' Hs' Hr Hvd.
  destruct (active_entry now st s HI Hact Hun Hne)
    as [(v' & mb' & _ & Hs)|[(s2 & _ & (r1 & m1 & Hr1 & Hfail) & Hs)|[(s2 & _ & _ & Hs)|(e1 & s2 & _ & Hs)]]];
    rewrite Hs in Hstep; inversion Hstep; subst st'; cbn in He', Hv', Hq', Hs'; try discriminate.
  inversion Hs'; subst s2. rewrite Hr in Hr1. inversion Hr1; subst. apply Hfail. exact Hvd.
Qed.

(* ---------------------------------------------------------------- run-level statements *)
Theorem select_refines_spec mb0 aw0 evs st now st' v :
  run evs (initial mb0 aw0) = Val st ->
  step now st = Val st' -> p_value st = None -> p_value st' = Some v ->
  exists s, p_sel st = Some s /\
    select_spec written (p_mailbox st) (p_awaiting st) (start_of s now) now = Complete v (p_mailbox st').
Proof.
  intros Hrun. destruct (run_total evs (initial mb0 aw0) (Inv_initial mb0 aw0)) as (st1 & Hrun' & HI).
  rewrite Hrun in Hrun'. inversion Hrun'; subst st1. apply select_refines_spec_step; auto.
Qed.

Theorem parks_only_when_spec_waits mb0 aw0 evs st now st' s :
  run evs (initial mb0 aw0) = Val st ->
  step now st = Val st' -> active now st s -> p_unreported st = [] ->
  p_queued st' = false -> p_error st' = None ->
  select_spec written (p_mailbox st) (p_awaiting st) (start_of s now) now = Wait.
Proof.
  intros Hrun. destruct (run_total evs (initial mb0 aw0) (Inv_initial mb0 aw0)) as (st1 & Hrun' & HI).
  rewrite Hrun in Hrun'. inversion Hrun'; subst st1. apply parks_only_when_spec_waits_step; auto.
Qed.

Theorem fails_only_when_spec_fails mb0 aw0 evs st now st' s e :
  run evs (initial mb0 aw0) = Val st ->
  step now st = Val st' -> active now st s -> p_unreported st = [] -> p_error st' = Some (PErr e) ->
  (exists r m, ss_receiving s = Some (r, m) /\ verdict_of r m = VdErr e) \/
  select_spec written (p_mailbox st) (p_awaiting st) (start_of s now) now = Fail e.
Proof.
  intros Hrun. destruct (run_total evs (initial mb0 aw0) (Inv_initial mb0 aw0)) as (st1 & Hrun' & HI).
  rewrite Hrun in Hrun'. inversion Hrun'; subst st1. apply fails_only_when_spec_fails_step; auto.
Qed.

Theorem failing_filter_called_only_when_spec_fails mb0 aw0 evs st now st' s s' r m e :
  run evs (initial mb0 aw0) = Val st ->
  step now st = Val st' -> active now st s -> p_unreported st = [] ->
  (forall r m e, ss_receiving s = Some (r, m) -> verdict_of r m <> VdErr e) ->
  p_error st' = None -> p_value st' = None -> p_queued st' = true ->
  p_sel st' = Some s' -> ss_receiving s' = Some (r, m) -> verdict_of r m = VdErr e ->
  select_spec written (p_mailbox st) (p_awaiting st) (start_of s now) now = Fail e.
Proof.
  intros Hrun. destruct (run_total evs (initial mb0 aw0) (Inv_initial mb0 aw0)) as (st1 & Hrun' & HI).
  rewrite Hrun in Hrun'. inversion Hrun'; subst st1. apply failing_filter_called_only_when_spec_fails_step; auto.
Qed.

Theorem machine_never_panics mb0 aw0 evs : exists st, run evs (initial mb0 aw0) = Val st.
Proof. destruct (run_total evs (initial mb0 aw0) (Inv_initial mb0 aw0)) as (st & H & _). eauto. Qed.

(* ---------------------------------------------------------------- the unreported-awaits set
   (since /repo 8388832): it is non-empty only between the Await and its last report, and in that
   window the select has not started evaluating its sources *)
Definition UInv (st : proc) : Prop :=
  p_error st = None -> p_value st = None ->
  (p_sel st = None -> p_unreported st = []) /\
  (p_unreported st <> [] -> forall s, p_sel st = Some s -> ss_start s = None /\ ss_receiving s = None).

Lemma UInv_same st st' :
  p_sel st' = p_sel st -> p_unreported st' = p_unreported st ->
  (p_error st' = None -> p_error st = None) -> (p_value st' = None -> p_value st = None) ->
  UInv st -> UInv st'.
Proof.
  intros Es Eu Ee Ev H He Hv. rewrite Es, Eu. apply H; auto.
Qed.

Lemma UInv_report ps st st' :
  p_sel st' = p_sel st -> p_unreported st' = filter (fun t => negb (existsb (Nat.eqb t) ps)) (p_unreported st) ->
  (p_error st' = None -> p_error st = None) -> (p_value st' = None -> p_value st = None) ->
  UInv st -> UInv st'.
Proof.
  intros Es Eu Ee Ev H He Hv. destruct (H (Ee He) (Ev Hv)) as (A & B). rewrite Es, Eu. split.
  - intros Hn. rewrite (A Hn). reflexivity.
  - intros Hne. apply B. intros E. rewrite E in Hne. apply Hne. reflexivity.
Qed.

Lemma step_UInv now st st' : UInv st -> step now st = Val st' -> UInv st'.
Proof.
  intros HU Hstep.
  destruct (check_expired_fields now st) as (Fmb & Faw & Fsel & Fval & Ferr).
  pose proof (check_expired_unrep now st) as Fun.
  assert (HU1 : UInv (check_expired now st)).
  { eapply UInv_same; eauto; congruence. }
  unfold Select.step in Hstep.
  destruct (negb (p_queued (check_expired now st))); [inversion Hstep; subst; exact HU1|].
  destruct (p_error (check_expired now st)) eqn:Ee.
  { inversion Hstep; subst. intros He. cbn in He. congruence. }
  destruct (p_value (check_expired now st)) eqn:Ev; [inversion Hstep; subst; exact HU1|].
  destruct (HU1 Ee Ev) as (A & B).
  destruct (p_sel (check_expired now st)) as [s|] eqn:Hsel.
  - destruct (match ss_receiving s with Some (r, m) => Some (verdict_of r m) | None => None end) as [[n| |e]|].
    3:{ inversion Hstep; subst. intros He. cbn in He. discriminate. }
    all: destruct (p_unreported (check_expired now st)) as [|u us] eqn:Hun;
      [|inversion Hstep; subst; intros He Hv; cbn; rewrite Hsel, Hun; split; [discriminate|intros _; apply B; discriminate]].
    all: destruct (process_sources _ _ _ _ _ _ _ _ _); inversion Hstep; subst; intros He Hv; cbn in He, Hv |- *;
      try discriminate; rewrite ?Hun; (split; [discriminate|intros Hc; contradiction]).
  - inversion Hstep; subst. specialize (A eq_refl). unfold initialize_select.
    destruct (pids_of written) eqn:Ep; intros He Hv; cbn; rewrite ?A.
    + split; [discriminate|intros Hc; contradiction].
    + split; [discriminate|]. intros _ s1 Hs1. inversion Hs1; subst. cbn. auto.
Qed.

Lemma apply_event_UInv ev st st' : UInv st -> apply_event ev st = Val st' -> UInv st'.
Proof.
  intros HU H. destruct ev as [now|m|p v|p| |p r|tnow|rps]; cbn [Select.apply_event] in H.
  - eapply step_UInv; eauto.
  - inversion H; subst. eapply (UInv_same st); eauto; unfold wake; destruct (p_selecting _); cbn; auto.
  - inversion H; subst. unfold notify_result, wake.
    destruct (fix45 && negb (aw_has p (p_awaiting st))).
    + eapply (UInv_same st); eauto; destruct (p_selecting _); cbn; auto.
    + eapply (UInv_report [p] st); eauto; destruct (p_selecting _); cbn; auto.
  - inversion H; subst. destruct (fix45 && negb (aw_has p (p_awaiting st))).
    + eapply (UInv_same st); eauto; unfold wake; destruct (p_selecting _); cbn; auto.
    + intros He. cbn in He. discriminate.
  - inversion H; subst. eapply (UInv_same st); eauto; unfold wake; destruct (p_selecting _); cbn; auto.
  - destruct (aw_has p (p_awaiting st)); [destruct r|]; inversion H; subst; auto.
    + unfold notify_result, wake. destruct (fix45 && negb (aw_has p (p_awaiting st))).
      * eapply (UInv_same st); eauto; destruct (p_selecting _); cbn; auto.
      * eapply (UInv_report [p] st); eauto; destruct (p_selecting _); cbn; auto.
    + intros He. cbn in He. discriminate.
  - inversion H; subst. destruct (check_expired_fields tnow st) as (Fmb & Faw & Fsel & Fval & Ferr).
    eapply (UInv_same st); eauto; try congruence. apply check_expired_unrep.
  - inversion H; subst. eapply (UInv_report rps st); eauto.
Qed.

Lemma run_UInv : forall evs st st', UInv st -> run evs st = Val st' -> UInv st'.
Proof.
  induction evs as [|ev evs IH]; intros st st' HU H; cbn [Select.run] in H.
  - inversion H; subst; auto.
  - destruct (apply_event ev st) as [st1| |] eqn:E; cbn [obind] in H; try discriminate.
    eapply (IH st1 st'); auto. eapply apply_event_UInv; eauto.
Qed.

Lemma UInv_initial mb aw : UInv (initial mb aw).
Proof. intros _ _. cbn. split; auto. intros H. contradiction. Qed.

(* ---------------------------------------------------------------- the premises of the protocol cone
   (sys/ProtoParked.v park_honest / time_honest, sys/ProtoAwait.v await_honest) as theorems *)
Notation step_action := (step_action written).

(* the entry executes instructions of a live process that is still before / inside its select *)
Definition runs (now : Z) (st : proc) : Prop :=
  p_queued (check_expired now st) = true /\ p_error st = None /\ p_value st = None.

Lemma active_runs now st s : active now st s -> runs now st.
Proof. intros (A & B & C & _). repeat split; auto. Qed.

(* park_honest, first clause: an entry parks only after it has scanned the whole mailbox with
   every receive source: every cursor is at the end of the mailbox, the sources have been
   evaluated (start time set) *)
Theorem parks_only_after_full_scan mb0 aw0 evs st now st' s :
  run evs (initial mb0 aw0) = Val st ->
  step now st = Val st' -> active now st s -> p_unreported st = [] ->
  p_queued st' = false -> p_error st' = None ->
  exists s', p_sel st' = Some s' /\ p_selecting st' = true /\ ss_start s' <> None /\
             Forall (fun c => c = length (p_mailbox st')) (ss_cursors s').
Proof.
  intros Hrun Hstep Hact Hun Hq' He'.
  destruct (run_total evs (initial mb0 aw0) (Inv_initial mb0 aw0)) as (st1 & Hrun' & HI).
  rewrite Hrun in Hrun'. inversion Hrun'; subst st1.
  destruct (park_entry now st st' s HI Hact Hun Hstep Hq' He') as (s' & A & B & C & D & E & F & G & _).
  exists s'. rewrite C. repeat split; auto. rewrite F. discriminate.
Qed.

(* ... so it never parks with an unseen matching message: no message of the mailbox is acceptable
   to any receive source (type-compatible and, for a filter source, not rejected) *)
Theorem never_parks_with_acceptable_message mb0 aw0 evs st now st' s :
  run evs (initial mb0 aw0) = Val st ->
  step now st = Val st' -> active now st s -> p_unreported st = [] ->
  p_queued st' = false -> p_error st' = None ->
  forall r c t, nth_recv written r = Some (c, t) ->
  forall m, In m (p_mailbox st') -> compat c m = false \/ (t = false /\ verdict_of r m = VdNil).
Proof.
  intros Hrun Hstep Hact Hun Hq' He' r c t Hsrc m Hin.
  destruct (run_total evs (initial mb0 aw0) (Inv_initial mb0 aw0)) as (st1 & Hrun' & HI).
  rewrite Hrun in Hrun'. inversion Hrun'; subst st1.
  destruct (park_entry now st st' s HI Hact Hun Hstep Hq' He') as (s' & A & B & C & D & E & F & G & _).
  rewrite C in Hin. apply In_nth_error in Hin. destruct Hin as (j & Hj).
  destruct E as (_ & Hlen & Hsk & _).
  assert (Hcur : cur_get r (ss_cursors s') = length (p_mailbox st)).
  { unfold all_at_end in G. rewrite Forall_nth in G. apply G.
    rewrite Hlen. eapply nth_recv_lt; eauto. }
  assert (Hjl : j < length (p_mailbox st)) by (apply nth_error_Some; congruence).
  specialize (Hsk r c t Hsrc j m ltac:(lia) Hj). unfold SelectSpec.accepts in Hsk.
  destruct (compat c m); auto. destruct t; [discriminate|]. auto.
Qed.

(* park_honest, second clause: the slice that returns Action::Await is the initialising entry; it
   has not started evaluating its sources (start time unset), it parks, and its targets are the
   process sources in written order *)
Theorem await_slice_has_not_started now st st' ts :
  step_action now st = Some ts -> step now st = Val st' ->
  ts = pids_of written /\ ts <> [] /\ p_queued st' = false /\ p_selecting st' = true /\
  exists s', p_sel st' = Some s' /\ ss_start s' = None /\ ss_sources s' = written /\
             ss_receiving s' = None /\
             p_awaiting st' = fold_left (fun aw p => aw_insert p None aw) ts (p_awaiting st) /\
             p_unreported st' = ts.
Proof.
  intros Ha Hstep.
  destruct (check_expired_fields now st) as (Fmb & Faw & Fsel & Fval & Ferr).
  unfold Select.step_action in Ha. unfold Select.step in Hstep.
  destruct (negb (p_queued (check_expired now st))); [discriminate|].
  destruct (p_error (check_expired now st)); [discriminate|].
  destruct (p_value (check_expired now st)); [discriminate|].
  destruct (p_sel (check_expired now st)); [discriminate|].
  inversion Hstep; subst st'. unfold initialize_select.
  destruct (pids_of written) as [|q qs] eqn:Ep; [discriminate|].
  inversion Ha; subst ts. cbn. rewrite Faw.
  repeat split; auto; try discriminate.
  eexists. repeat split.
Qed.

(* no Action is returned by any other entry *)
Lemma step_action_only_at_init now st ts :
  step_action now st = Some ts -> runs now st /\ p_sel st = None.
Proof.
  intros Ha. destruct (check_expired_fields now st) as (Fmb & Faw & Fsel & Fval & Ferr).
  unfold Select.step_action in Ha. unfold runs.
  destruct (p_queued (check_expired now st)); cbn [negb] in Ha; [|discriminate].
  rewrite Ferr, Fval, Fsel in Ha.
  destruct (p_error st); [discriminate|]. destruct (p_value st); [discriminate|].
  destruct (p_sel st); [discriminate|]. auto.
Qed.

(* ---- since /repo 8388832 (F72): the select does not evaluate its sources before the await has
   reported the state of every process source ---- *)

(* a select woken (by a message, a timeout tick, a single result) while some awaited process is
   still unreported parks again: nothing is evaluated, nothing changes but the scheduling flags,
   and its start time is still unset *)
Theorem reparks_until_all_reported mb0 aw0 evs st now s :
  run evs (initial mb0 aw0) = Val st ->
  active now st s -> p_unreported st <> [] ->
  step now st = Val (set_flags (check_expired now st) false true) /\
  ss_start s = None /\ ss_receiving s = None.
Proof.
  intros Hrun Hact Hun.
  assert (HU : UInv st) by (eapply run_UInv; [apply UInv_initial|exact Hrun]).
  destruct Hact as (Hq & Herr & Hval & Hsel).
  destruct (HU Herr Hval) as (_ & HB). destruct (HB Hun s Hsel) as (Hst & Hrc).
  split; auto. apply (repark_step now st s); [repeat split; auto|exact Hun|].
  intros r m e Hr. rewrite Hrc in Hr. discriminate.
Qed.

(* ... so an entry that completes the select (or evaluates anything) runs only once every awaited
   process has been reported: a process source that finished long ago cannot lose to a later
   source whose result merely arrived first *)
Theorem completes_only_after_all_reported now st st' v :
  step now st = Val st' -> p_value st = None -> p_value st' = Some v -> p_unreported st = [].
Proof.
  intros Hstep Hv0 Hv1. destruct (completing_is_active now st st' v Hstep Hv0 Hv1) as (_ & _ & _ & H). exact H.
Qed.

(* park_honest clause 1 in the form the protocol cone now states it: whichever way an entry parks
   the process, IF the select has started evaluating (start time set) THEN every receive cursor
   is at the end of the mailbox.  (An Await slice and a re-park before all reports have the start
   time unset.) *)
Theorem parked_started_select_is_fully_scanned mb0 aw0 evs st now st' :
  run evs (initial mb0 aw0) = Val st ->
  step now st = Val st' -> runs now st -> p_queued st' = false -> p_error st' = None ->
  forall s', p_sel st' = Some s' -> ss_start s' <> None ->
             Forall (fun c => c = length (p_mailbox st')) (ss_cursors s').
Proof.
  intros Hrun Hstep (Hq & Herr & Hval) Hq' He' s' Hs' Hstart.
  destruct (run_total evs (initial mb0 aw0) (Inv_initial mb0 aw0)) as (st1 & Hrun' & HI).
  rewrite Hrun in Hrun'. inversion Hrun'; subst st1.
  destruct (p_sel st) as [s|] eqn:Hsel.
  - destruct (p_unreported st) as [|u us] eqn:Hun.
    + destruct (park_entry now st st' s HI (conj Hq (conj Herr (conj Hval Hsel))) Hun Hstep Hq' He')
        as (s2 & A & B & C & D & E & F & G & _).
      rewrite A in Hs'. inversion Hs'; subst s2. rewrite C. exact G.
    + exfalso. apply Hstart.
      destruct (reparks_until_all_reported _ _ _ _ now s Hrun (conj Hq (conj Herr (conj Hval Hsel)))
                  ltac:(rewrite Hun; discriminate)) as (Hs & Hst & _).
      rewrite Hs in Hstep. inversion Hstep; subst st'. cbn in Hs'.
      destruct (check_expired_fields now st) as (_ & _ & Fsel & _). rewrite Fsel, Hsel in Hs'.
      inversion Hs'; subst s'. exact Hst.
  - exfalso. apply Hstart.
    destruct (check_expired_fields now st) as (Fmb & Faw & Fsel & Fval & Ferr).
    unfold Select.step in Hstep. rewrite Hq, Ferr, Herr, Fval, Hval, Fsel, Hsel in Hstep. cbn [negb] in Hstep.
    inversion Hstep; subst st'. unfold initialize_select in Hs', Hq'.
    destruct (pids_of written) eqn:Ep; cbn in Hs', Hq'; [congruence|].
    inversion Hs'; subst s'. reflexivity.
Qed.

(* time_honest (for the slice that parks): an entry never parks the process with a timeout
   already due at the clock it checked — whether it parks after a pass over the sources (every
   timeout source was found not ready against the start time of this select) or by awaiting (the
   start time is unset: check_expired_timeouts ignores the process) *)
Theorem never_parks_with_due_timeout mb0 aw0 evs st now st' :
  run evs (initial mb0 aw0) = Val st ->
  step now st = Val st' -> runs now st -> p_queued st' = false -> p_error st' = None ->
  forall s', p_sel st' = Some s' -> expired s' now = false.
Proof.
  intros Hrun Hstep (Hq & Herr & Hval) Hq' He' s' Hs'.
  destruct (run_total evs (initial mb0 aw0) (Inv_initial mb0 aw0)) as (st1 & Hrun' & HI).
  rewrite Hrun in Hrun'. inversion Hrun'; subst st1.
  assert (HU : UInv st) by (eapply run_UInv; [apply UInv_initial|exact Hrun]).
  destruct (p_sel st) as [s|] eqn:Hsel.
  - destruct (p_unreported st) as [|u us] eqn:Hun.
    2:{ (* woken before every awaited process was reported: parks again, start time still unset *)
        destruct (HU Herr Hval) as (_ & HB).
        destruct (HB ltac:(rewrite Hun; discriminate) s Hsel) as (Hst & Hrc).
        rewrite (repark_step now st s (conj Hq (conj Herr (conj Hval Hsel)))) in Hstep;
          [|rewrite Hun; discriminate|intros r m e Hr; rewrite Hrc in Hr; discriminate].
        inversion Hstep; subst st'. cbn in Hs'.
        destruct (check_expired_fields now st) as (_ & _ & Fsel & _). rewrite Fsel, Hsel in Hs'.
        inversion Hs'; subst s'. unfold expired. rewrite Hst. reflexivity. }
    destruct (park_entry now st st' s HI (conj Hq (conj Herr (conj Hval Hsel))) Hun Hstep Hq' He')
      as (s2 & A & B & C & D & E & F & G & Htm & _).
    rewrite A in Hs'. inversion Hs'; subst s2. unfold expired. rewrite F.
    destruct E as (Hsrc & _). rewrite Hsrc.
    apply not_true_is_false. intros Hex. apply existsb_exists in Hex. destruct Hex as (src & Hin & Hr).
    destruct src as [p|c t|d|e]; try discriminate. rewrite (Htm d Hin) in Hr. discriminate.
  - destruct (check_expired_fields now st) as (Fmb & Faw & Fsel & Fval & Ferr).
    unfold Select.step in Hstep. rewrite Hq, Ferr, Herr, Fval, Hval, Fsel, Hsel in Hstep. cbn [negb] in Hstep.
    inversion Hstep; subst st'. unfold initialize_select in Hs', Hq'.
    destruct (pids_of written) eqn:Ep; cbn in Hs', Hq'; [congruence|].
    inversion Hs'; subst s'. reflexivity.
Qed.

(* ... hence the check_expired_timeouts of a later step at the same clock leaves it parked *)
Corollary parked_not_expired_at_same_clock mb0 aw0 evs st now st' :
  run evs (initial mb0 aw0) = Val st ->
  step now st = Val st' -> runs now st -> p_queued st' = false -> p_error st' = None ->
  check_expired now st' = st'.
Proof.
  intros Hrun Hstep Hr Hq' He'. unfold check_expired.
  destruct (p_sel st') as [s'|] eqn:Hs'; [|rewrite andb_false_r; reflexivity].
  rewrite (never_parks_with_due_timeout _ _ _ _ _ _ Hrun Hstep Hr Hq' He' s' Hs'), andb_false_r. reflexivity.
Qed.

(* await_honest (a): no entry is executed for a process whose result is already set (a process
   completed in place by a failure notification has its frames cleared): the step only takes it
   off the run queue; it returns no Action and changes nothing else *)
Theorem dead_process_runs_no_entry now st st' e :
  p_error st = Some e -> step now st = Val st' ->
  step_action now st = None /\
  p_sel st' = p_sel st /\ p_mailbox st' = p_mailbox st /\ p_awaiting st' = p_awaiting st /\
  p_value st' = p_value st /\ p_error st' = Some e /\ p_queued st' = false.
Proof.
  intros He Hstep. destruct (check_expired_fields now st) as (Fmb & Faw & Fsel & Fval & Ferr).
  unfold Select.step_action. unfold Select.step in Hstep.
  destruct (p_queued (check_expired now st)) eqn:Hq; cbn [negb] in *.
  - rewrite Ferr, He in *. inversion Hstep; subst st'. cbn. repeat split; auto.
  - inversion Hstep; subst st'. repeat split; auto. congruence.
Qed.

(* the awaiting map only changes where the code changes it: a completing entry *)
Lemma completing_step_awaiting now st st' v :
  Inv st -> step now st = Val st' -> p_value st = None -> p_value st' = Some v ->
  p_awaiting st' = if fix45 then fold_left (fun aw p => aw_remove p aw) (pids_of written) (p_awaiting st)
                   else p_awaiting st.
Proof.
  intros HI Hstep Hv0 Hv1.
  destruct (completing_is_active now st st' v Hstep Hv0 Hv1) as (s & Hact & Hne & Hun).
  destruct (check_expired_fields now st) as (Fmb & Faw & Fsel & Fval & Ferr).
  destruct (active_entry now st s HI Hact Hun Hne)
    as [(v' & mb' & Hspec & Hs)|[(s' & _ & _ & Hs)|[(s' & _ & _ & Hs)|(e & s' & _ & Hs)]]];
    rewrite Hs in Hstep; inversion Hstep; subst st'; cbn in Hv1; try congruence.
  cbn. rewrite Faw. reflexivity.
Qed.

(* ---------------------------------------------------------------- the taken message *)
Lemma pick_shape r c t : forall mb m rest,
  pick_msg r c t mb = Picked m rest -> exists l1 l2, mb = l1 ++ m :: l2 /\ rest = l1 ++ l2.
Proof.
  induction mb as [|a mb IH]; intros m rest H; cbn in H; [discriminate|].
  destruct (accepts r c t a).
  - inversion H; subst. exists []. eexists. split; reflexivity.
  - destruct (pick_msg r c t mb) as [x rest'| |] eqn:E; try discriminate.
    inversion H; subst. destruct (IH _ _ eq_refl) as (l1 & l2 & -> & ->).
    exists (a :: l1), l2. auto.
  - discriminate.
Qed.

(* untaken_preserved_in_order: a completion either leaves the mailbox alone or removes exactly
   one occurrence of the message it yields, keeping the order of all others *)
Lemma spec_complete_shape : forall srcs r mb aw start now v mb',
  select_spec_from srcs r mb aw start now = Complete v mb' ->
  mb' = mb \/ exists m l1 l2, v = VMsg m /\ mb = l1 ++ m :: l2 /\ mb' = l1 ++ l2.
Proof.
  induction srcs as [|[p|c t|d|e] rest IH]; intros r mb aw start now v mb' H; cbn in H; try discriminate.
  - destruct (aw_get p aw) as [[x|]|]; [inversion H; auto| |]; eapply IH; eauto.
  - destruct (pick_msg r c t mb) as [m rest'| |] eqn:E; try discriminate.
    + inversion H; subst. right. destruct (pick_shape _ _ _ _ _ _ E) as (l1 & l2 & -> & ->). exists m, l1, l2. repeat split; reflexivity.
    + eapply IH; eauto.
  - destruct (timeout_ready d start now); [inversion H; auto|]. eapply IH; eauto.
Qed.

Theorem untaken_preserved_in_order mb0 aw0 evs st now st' v :
  run evs (initial mb0 aw0) = Val st ->
  step now st = Val st' -> p_value st = None -> p_value st' = Some v ->
  p_mailbox st' = p_mailbox st \/
  exists m l1 l2, v = VMsg m /\ p_mailbox st = l1 ++ m :: l2 /\ p_mailbox st' = l1 ++ l2.
Proof.
  intros Hrun Hstep Hv0 Hv1.
  destruct (select_refines_spec _ _ _ _ _ _ _ Hrun Hstep Hv0 Hv1) as (s & _ & Hspec).
  apply spec_complete_shape in Hspec. exact Hspec.
Qed.

(* a nil completion comes from a nil-valued awaited result or from a ready timeout *)
Lemma spec_nil_source : forall srcs r mb aw start now mb',
  select_spec_from srcs r mb aw start now = Complete VNil mb' ->
  (exists p, In (SrcProc p) srcs /\ aw_get p aw = Some (Some VNil)) \/
  (exists d, In (SrcTimeout d) srcs /\ timeout_ready d start now = true).
Proof.
  induction srcs as [|[p|c t|d|e] rest IH]; intros r mb aw start now mb' H; cbn in H; try discriminate.
  - destruct (aw_get p aw) as [[x|]|] eqn:E.
    + inversion H; subst. left. exists p. split; [left; auto|auto].
    + destruct (IH _ _ _ _ _ _ H) as [(q & Hin & Hq)|(d & Hin & Hd)]; [left; exists q|right; exists d]; split; auto; right; auto.
    + destruct (IH _ _ _ _ _ _ H) as [(q & Hin & Hq)|(d & Hin & Hd)]; [left; exists q|right; exists d]; split; auto; right; auto.
  - destruct (pick_msg r c t mb) as [m rest'| |] eqn:E; try discriminate.
    destruct (IH _ _ _ _ _ _ H) as [(q & Hin & Hq)|(d & Hin & Hd)]; [left; exists q|right; exists d]; split; auto; right; auto.
  - destruct (timeout_ready d start now) eqn:E.
    + right. exists d. split; [left; auto|auto].
    + destruct (IH _ _ _ _ _ _ H) as [(q & Hin & Hq)|(d' & Hin & Hd)]; [left; exists q|right; exists d']; split; auto; right; auto.
Qed.

(* ---------------------------------------------------------------- timeouts *)
Definition steps_ge (t0 : Z) (evs : list event) : Prop :=
  Forall (fun ev => match ev with EStep t => (t0 <= t)%Z | _ => True end) evs.

Definition start_ge (t0 : Z) (st : proc) : Prop :=
  forall s t, p_sel st = Some s -> ss_start s = Some t -> (t0 <= t)%Z.

Lemma process_sources_start s0 rr start now aw : forall srcs r s mb,
  match process_sources s0 rr start now aw srcs r s mb with
  | SCalled s' | SPark s' | SError _ s' => ss_start s' = ss_start s
  | _ => True
  end.
Proof.
  induction srcs as [|[p|c t|d|e] rest IH]; intros r s mb; cbn [process_sources]; auto.
  - destruct (aw_get p aw) as [[x|]|]; auto; apply IH.
  - unfold handle_select_receive.
    assert (Hscan : forall s1, match scan_mailbox r c t s0 s1 mb with
                               | RCalled s' | RContinue s' | RErr _ s' => ss_start s' = ss_start s1
                               | _ => True end).
    { intros s1. unfold scan_mailbox.
      destruct (scan c (skipn (cur_get r (ss_cursors s1)) mb) _ _); [destruct t; auto|].
      - destruct (Nat.ltb r (length (ss_cursors s1))); auto.
      - destruct (Nat.ltb _ _); auto. destruct (Nat.ltb r (length (ss_cursors s1))); auto. }
    assert (Hgo : forall s1, ss_start s1 = ss_start s ->
              match match scan_mailbox r c t s0 s1 mb with
                    | RComplete v mb' => SComplete v mb'
                    | RCalled s' => SCalled s'
                    | RContinue s' => process_sources s0 rr start now aw rest (S r) s' mb
                    | RErr e s' => SError e s'
                    | RPanic n => SPanic n
                    end with
              | SCalled s' | SPark s' | SError _ s' => ss_start s' = ss_start s
              | _ => True
              end).
    { intros s1 Hs1. specialize (Hscan s1).
      destruct (scan_mailbox r c t s0 s1 mb) as [v mb'|s'|s'|e s'|n]; auto; try congruence.
      specialize (IH (S r) s' mb).
      destruct (process_sources s0 rr start now aw rest (S r) s' mb); auto; congruence. }
    destruct (ss_receiving s0) as [[idx m]|]; [|apply Hgo; auto].
    destruct (Nat.eqb idx r); [|apply Hgo; auto].
    destruct rr as [[n|]|]; auto.
    destruct (Nat.ltb r (length (ss_cursors s))); auto.
    apply Hgo. reflexivity.
  - destruct (timeout_ready d start now); auto. apply IH.
Qed.

Lemma step_start_ge t0 now st st' :
  (t0 <= now)%Z -> start_ge t0 st -> step now st = Val st' -> start_ge t0 st'.
Proof.
  intros Hnow Hge Hstep.
  destruct (check_expired_fields now st) as (Fmb & Faw & Fsel & Fval & Ferr).
  unfold Select.step in Hstep.
  destruct (negb (p_queued (check_expired now st))).
  { inversion Hstep; subst. unfold start_ge. rewrite Fsel. exact Hge. }
  destruct (p_error (check_expired now st)).
  { inversion Hstep; subst. unfold start_ge. cbn. rewrite Fsel. exact Hge. }
  destruct (p_value (check_expired now st)).
  { inversion Hstep; subst. unfold start_ge. rewrite Fsel. exact Hge. }
  rewrite Fsel in Hstep. destruct (p_sel st) as [s|] eqn:Hsel.
  - assert (Hs : forall t, ss_start (with_start s (Some (match ss_start s with Some t => t | None => now end))) = Some t -> (t0 <= t)%Z).
    { intros t Ht. cbn in Ht. inversion Ht; subst. destruct (ss_start s) eqn:E; auto. eapply Hge; eauto. }
    destruct (match ss_receiving s with Some (r, m) => Some (verdict_of r m) | None => None end) as [[n| |e]|].
    3:{ inversion Hstep; subst. unfold start_ge. cbn. rewrite Fsel. intros s1 t H1. inversion H1; subst. eapply Hge; eauto. }
    all: destruct (p_unreported (check_expired now st)) as [|u us];
      [|inversion Hstep; subst; unfold start_ge; cbn; rewrite Fsel; intros s1 t H1; inversion H1; subst; eapply Hge; eauto].
    all: match type of Hstep with context [process_sources ?a ?b ?c ?d ?e ?f ?g ?h ?i] =>
           pose proof (process_sources_start a b c d e f g h i) as Hst;
           destruct (process_sources a b c d e f g h i) end;
         inversion Hstep; subst; unfold start_ge; cbn;
         try (intros s1 t H1; discriminate H1);
         try (intros s1 t H1 H2; inversion H1; subst; apply Hs; congruence).
  - inversion Hstep; subst. unfold start_ge, initialize_select.
    destruct (pids_of written); cbn; intros s1 t H1 H2; inversion H1; subst; cbn in H2; inversion H2; subst; auto.
Qed.

Lemma apply_event_start_ge t0 ev st st' :
  match ev with EStep t => (t0 <= t)%Z | _ => True end ->
  start_ge t0 st -> apply_event ev st = Val st' -> start_ge t0 st'.
Proof.
  intros Hev Hge H. destruct ev as [now|m|p v|p| |p r|tnow|rps]; cbn [Select.apply_event] in H.
  - eapply step_start_ge; eauto.
  - inversion H; subst. unfold start_ge, wake. destruct (p_selecting _); cbn; exact Hge.
  - inversion H; subst. unfold start_ge, notify_result, wake.
    destruct (fix45 && _); destruct (p_selecting _); cbn; exact Hge.
  - inversion H; subst. destruct (fix45 && _); unfold start_ge, wake; [destruct (p_selecting _)|]; cbn; exact Hge.
  - inversion H; subst. unfold start_ge, wake. destruct (p_selecting _); cbn; exact Hge.
  - destruct (aw_has p (p_awaiting st)); [destruct r|]; inversion H; subst; auto.
    all: try (unfold start_ge, notify_result, wake; destruct (fix45 && _); destruct (p_selecting _); cbn; exact Hge).
    all: try (unfold start_ge; cbn; exact Hge).
  - inversion H; subst. unfold start_ge. destruct (check_expired_fields tnow st) as (_ & _ & Fsel & _). rewrite Fsel. exact Hge.
  - inversion H; subst. exact Hge.
Qed.

Lemma run_start_ge t0 : forall evs st st',
  steps_ge t0 evs -> start_ge t0 st -> run evs st = Val st' -> start_ge t0 st'.
Proof.
  induction evs as [|ev evs IH]; intros st st' Hall Hge H; cbn [Select.run] in H.
  - inversion H; subst; auto.
  - inversion Hall; subst.
    destruct (apply_event ev st) as [st1| |] eqn:E; cbn [obind] in H; try discriminate.
    eapply (IH st1 st'); auto. eapply apply_event_start_ge; eauto.
Qed.

Lemma eff_timeout_lower d : (Z.min d i64_max <= eff_timeout d)%Z.
Proof.
  unfold eff_timeout, to_i64_or_max, in_i64, i64_max.
  destruct ((- two63 <=? d)%Z && (d <? two63)%Z) eqn:E.
  - lia.
  - lia.
Qed.

(* timeout_not_early: with a clock that never runs behind t0 (the time of the select's first
   entry), a select that completes with nil although no awaited process returned nil does so no
   earlier than the (clamped) duration of one of its timeouts after t0 *)
Theorem timeout_not_early t0 mb0 aw0 evs st now st' :
  steps_ge t0 evs -> (t0 <= now)%Z ->
  run evs (initial mb0 aw0) = Val st ->
  step now st = Val st' -> p_value st = None -> p_value st' = Some VNil ->
  (forall p, aw_get p (p_awaiting st) <> Some (Some VNil)) ->
  exists d, In (SrcTimeout d) written /\ (Z.min d i64_max <= now - t0)%Z /\ (eff_timeout d <= now - t0)%Z.
Proof.
  intros Hall Hnow Hrun Hstep Hv0 Hv1 Hnonil.
  destruct (select_refines_spec _ _ _ _ _ _ _ Hrun Hstep Hv0 Hv1) as (s & Hsel & Hspec).
  assert (Hge : start_ge t0 st).
  { eapply run_start_ge; eauto. unfold start_ge, initial; cbn. intros s1 t H1. discriminate H1. }
  apply spec_nil_source in Hspec. destruct Hspec as [(p & _ & Hp)|(d & Hin & Hd)].
  - exfalso. eapply Hnonil; eauto.
  - exists d. split; auto.
    assert (Hstart : (t0 <= start_of s now)%Z).
    { unfold start_of. destruct (ss_start s) eqn:E; auto. eapply Hge; eauto. }
    unfold timeout_ready, elapsed in Hd. apply Z.leb_le in Hd.
    pose proof (eff_timeout_lower d).
    assert ((0 <= eff_timeout d)%Z) by (unfold eff_timeout; lia).
    lia.
Qed.

End Refine.

(* ---------------------------------------------------------------- the verdict is only a verdict *)
(* two filter oracles that agree on accept / reject / fail, whatever non-nil value they return *)
Definition same_verdict (a b : verdict) : Prop :=
  match a, b with
  | Truthy _, Truthy _ => True
  | VdNil, VdNil => True
  | VdErr e, VdErr e' => e = e'
  | _, _ => False
  end.

Lemma process_sources_payload s0 n n' start now aw : forall srcs r s mb,
  process_sources s0 (Some (Some n)) start now aw srcs r s mb =
  process_sources s0 (Some (Some n')) start now aw srcs r s mb.
Proof.
  induction srcs as [|[p|c t|d|e] rest IH]; intros r s mb; cbn [process_sources]; auto.
  - destruct (aw_get p aw) as [[x|]|]; auto.
  - unfold handle_select_receive.
    destruct (ss_receiving s0) as [[idx m]|].
    + destruct (Nat.eqb idx r); auto.
      destruct (scan_mailbox r c t s0 s mb); auto.
    + destruct (scan_mailbox r c t s0 s mb); auto.
  - destruct (timeout_ready d start now); auto.
Qed.

Lemma step_same_verdict fix45 v1 v2 written now st :
  (forall r m, same_verdict (v1 r m) (v2 r m)) ->
  step fix45 v1 written now st = step fix45 v2 written now st.
Proof.
  intros Hsame. unfold step.
  destruct (negb (p_queued (check_expired now st))); auto.
  destruct (p_error (check_expired now st)); auto.
  destruct (p_value (check_expired now st)); auto.
  destruct (p_sel (check_expired now st)) as [s|]; auto.
  destruct (ss_receiving s) as [[r m]|]; auto.
  specialize (Hsame r m). destruct (v1 r m) as [n| |e], (v2 r m) as [n'| |e']; cbn in Hsame; try contradiction; auto.
  - rewrite (process_sources_payload _ n n'). reflexivity.
  - subst. reflexivity.
Qed.

Theorem verdict_is_only_a_verdict fix45 v1 v2 written :
  (forall r m, same_verdict (v1 r m) (v2 r m)) ->
  forall evs st, run fix45 v1 written evs st = run fix45 v2 written evs st.
Proof.
  intros Hsame. induction evs as [|ev evs IH]; intros st; cbn [run]; auto.
  assert (Hev : apply_event fix45 v1 written ev st = apply_event fix45 v2 written ev st).
  { destruct ev; cbn [apply_event]; auto. apply step_same_verdict; auto. }
  rewrite Hev. destruct (apply_event fix45 v2 written ev st); cbn [obind]; auto.
Qed.

(* ... and the specification itself never looks at the payload either *)
Lemma pick_msg_same_verdict v1 v2 :
  (forall r m, same_verdict (v1 r m) (v2 r m)) ->
  forall r c t mb, pick_msg v1 r c t mb = pick_msg v2 r c t mb.
Proof.
  intros Hsame r c t. induction mb as [|a mb IHm]; cbn; auto.
  unfold accepts. destruct (compat c a); [destruct t|]; cbn.
  - reflexivity.
  - specialize (Hsame r a). destruct (v1 r a), (v2 r a); cbn in Hsame; try contradiction; subst; auto.
    rewrite IHm. reflexivity.
  - rewrite IHm. reflexivity.
Qed.

Lemma select_spec_same_verdict v1 v2 :
  (forall r m, same_verdict (v1 r m) (v2 r m)) ->
  forall srcs mb aw start now, select_spec v1 srcs mb aw start now = select_spec v2 srcs mb aw start now.
Proof.
  intros Hsame srcs mb aw start now. unfold select_spec. generalize 0.
  induction srcs as [|[p|c t|d|e] rest IH]; intros r; cbn; auto.
  - destruct (aw_get p aw) as [[x|]|]; auto.
  - rewrite (pick_msg_same_verdict v1 v2 Hsame). destruct (pick_msg v2 r c t mb); auto.
  - destruct (timeout_ready d start now); auto.
Qed.

(* ---------------------------------------------------------------- F45: stale awaits *)
(* `! [p0, 0]` : the select completes with nil (timeout 0); afterwards p0 fails *)
Definition f45_written : list source := [SrcProc 0; SrcTimeout 0%Z].
Definition f45_events : list event := [EStep 0%Z; EReport [0]; EActive; EStep 0%Z; EFail 0].
Definition no_verdict : nat -> msg -> verdict := fun _ _ => VdNil.

(* "a process whose select has completed is not killed by the later failure of a process it
   awaited in that select" *)
Definition completed_select_survives (fix45 : bool) : Prop :=
  forall verdict written evs mb st p st',
    run fix45 verdict written evs (initial mb []) = Val st ->
    p_value st <> None -> p_error st = None ->
    apply_event fix45 verdict written (EFail p) st = Val st' ->
    p_error st' = None.

(* the code as it stands (Process.awaiting is never cleared; the kill is unconditional) *)
Definition f45_state : proc :=
  {| p_mailbox := []; p_awaiting := [(0, None)]; p_sel := None; p_queued := true; p_selecting := false;
     p_value := Some VNil; p_error := None; p_unreported := [] |}.

Lemma f45_state_reached :
  run false no_verdict f45_written [EStep 0%Z; EReport [0]; EActive; EStep 0%Z] (initial [] []) = Val f45_state.
Proof. vm_compute. reflexivity. Qed.

Lemma stale_await_kills_refuted : ~ completed_select_survives false.
Proof.
  intros H.
  assert (K : p_error (set_error f45_state (PAwaited 0)) = None).
  { eapply (H no_verdict f45_written _ [] f45_state 0); [exact f45_state_reached|discriminate|reflexivity|reflexivity]. }
  discriminate K.
Qed.

(* the same history under the repair *)
Definition f45_state_fixed : proc :=
  {| p_mailbox := []; p_awaiting := []; p_sel := None; p_queued := true; p_selecting := false;
     p_value := Some VNil; p_error := None; p_unreported := [] |}.

Example stale_await_witness_repaired :
  run true no_verdict f45_written f45_events (initial [] []) = Val f45_state_fixed.
Proof. vm_compute. reflexivity. Qed.

(* ---------------------------------------------------------------- non-vacuity *)
(* `! [p0, &f, 50]` with a filter that rejects message 4, accepts message 2 (payload 77) and would
   fail on message 3; mailbox [4;2] before the select; message 3 arrives after the first entry.
   Entries: init (parks: awaits p0) - message wakes it - calls f on 4 - rejected, calls f on 2 -
   accepted: completes with message 2, the mailbox keeps [4;3]. *)
Definition ex_written : list source := [SrcProc 0; SrcRecv [0; 1; 2] false; SrcTimeout 50%Z].
Definition ex_verdict : nat -> msg -> verdict :=
  fun r m => match fst m with 2 => Truthy 77 | 3 => VdErr InvalidArgument | _ => VdNil end.
Definition ex_events : list event := [EStep 0%Z; EMsg (3, 2); EReport [0]; EStep 1%Z; EStep 2%Z].

Definition ex_mb0 : list msg := [(4, 0); (2, 1)].
Definition ex_st : proc :=
  Eval vm_compute in
    match run false ex_verdict ex_written ex_events (initial ex_mb0 []) with Val st => st | _ => initial [] [] end.
Definition ex_st' : proc :=
  Eval vm_compute in
    match step false ex_verdict ex_written 2%Z ex_st with Val st => st | _ => initial [] [] end.

Example ex_select_completes :
    run false ex_verdict ex_written ex_events (initial ex_mb0 []) = Val ex_st /\
    p_value ex_st = None /\
    (exists s, p_sel ex_st = Some s /\ ss_cursors s = [1] /\ ss_receiving s = Some (0, (2, 1)) /\ ss_start s = Some 1%Z) /\
    step false ex_verdict ex_written 2%Z ex_st = Val ex_st' /\
    p_value ex_st' = Some (VMsg (2, 1)) /\ p_mailbox ex_st' = [(4, 0); (3, 2)] /\
    select_spec ex_verdict ex_written (p_mailbox ex_st) (p_awaiting ex_st) 1%Z 2%Z = Complete (VMsg (2, 1)) [(4, 0); (3, 2)].
Proof.
  split; [vm_compute; reflexivity|]. split; [reflexivity|].
  split; [eexists; split; [reflexivity|]; repeat split|].
  split; [vm_compute; reflexivity|]. repeat split; vm_compute; reflexivity.
Qed.

(* a parked select with two sources whose timeout then fires, not early *)
Definition ex2_written : list source := [SrcRecv [0] true; SrcTimeout 5%Z].
Definition ex2_st : proc :=
  Eval vm_compute in
    match run false no_verdict ex2_written [EStep 10%Z; EStep 10%Z; EStep 14%Z] (initial [(7, 1)] []) with
    | Val st => st | _ => initial [] [] end.
Definition ex2_st' : proc :=
  Eval vm_compute in match step false no_verdict ex2_written 15%Z ex2_st with Val st => st | _ => initial [] [] end.

Example ex_timeout_fires :
    run false no_verdict ex2_written [EStep 10%Z; EStep 10%Z; EStep 14%Z] (initial [(7, 1)] []) = Val ex2_st /\
    p_selecting ex2_st = true /\ p_value ex2_st = None /\
    step false no_verdict ex2_written 15%Z ex2_st = Val ex2_st' /\
    p_value ex2_st' = Some VNil /\ p_mailbox ex2_st' = [(7, 1)].
Proof.
  split; [vm_compute; reflexivity|]. split; [reflexivity|]. split; [reflexivity|].
  split; [vm_compute; reflexivity|]. split; reflexivity.
Qed.

(* ---------------------------------------------------------------- F45, repaired: the theorem *)
Lemma aw_has_insert p q v aw : aw_has p (aw_insert q v aw) = (Nat.eqb p q || aw_has p aw)%bool.
Proof.
  unfold aw_has. induction aw as [|[k w] aw IH]; cbn.
  - destruct (Nat.eqb p q); reflexivity.
  - destruct (Nat.eqb q k) eqn:Eqk; cbn.
    + apply Nat.eqb_eq in Eqk. subst k. destruct (Nat.eqb p q) eqn:Epq; cbn; auto.
    + destruct (Nat.eqb p k) eqn:Epk; cbn; auto. destruct (Nat.eqb p q); reflexivity.
Qed.

Lemma aw_has_remove p q aw : aw_has p (aw_remove q aw) = (negb (Nat.eqb p q) && aw_has p aw)%bool.
Proof.
  unfold aw_has. induction aw as [|[k w] aw IH]; cbn.
  - rewrite andb_false_r. reflexivity.
  - destruct (Nat.eqb q k) eqn:Eqk; cbn.
    + apply Nat.eqb_eq in Eqk. subst k. rewrite IH.
      destruct (Nat.eqb p q) eqn:Epq; cbn; auto.
    + destruct (Nat.eqb p k) eqn:Epk; cbn; auto.
      apply Nat.eqb_eq in Epk. subst k.
      assert (Nat.eqb p q = false) as -> by (rewrite Nat.eqb_sym; exact Eqk). reflexivity.
Qed.

Lemma aw_has_fold_insert p : forall ps aw,
  aw_has p (fold_left (fun aw q => aw_insert q None aw) ps aw) = true -> In p ps \/ aw_has p aw = true.
Proof.
  induction ps as [|q ps IH]; intros aw H; cbn in H; auto.
  apply IH in H. destruct H as [H|H]; [left; right; auto|].
  rewrite aw_has_insert in H. apply orb_true_iff in H. destruct H as [H|H]; auto.
  apply Nat.eqb_eq in H. left; left; auto.
Qed.

Lemma aw_has_fold_remove p : forall ps aw,
  aw_has p (fold_left (fun aw q => aw_remove q aw) ps aw) = true -> ~ In p ps /\ aw_has p aw = true.
Proof.
  induction ps as [|q ps IH]; intros aw H; cbn in H; auto.
  apply IH in H. destruct H as (Hn & H). rewrite aw_has_remove in H.
  apply andb_true_iff in H. destruct H as (Hne & H). split; auto.
  intros [->|Hin]; auto. rewrite Nat.eqb_refl in Hne. discriminate.
Qed.

Lemma process_sources_ok_sources s0 rr start now aw : forall srcs r s mb,
  match process_sources s0 rr start now aw srcs r s mb with
  | SCalled s' | SPark s' | SError _ s' => ss_sources s' = ss_sources s
  | _ => True
  end.
Proof.
  induction srcs as [|[p|c t|d|e] rest IH]; intros r s mb; cbn [process_sources]; auto.
  - destruct (aw_get p aw) as [[x|]|]; auto; apply IH.
  - unfold handle_select_receive.
    assert (Hscan : forall s1, match scan_mailbox r c t s0 s1 mb with
                               | RCalled s' | RContinue s' | RErr _ s' => ss_sources s' = ss_sources s1
                               | _ => True end).
    { intros s1. unfold scan_mailbox.
      destruct (scan c (skipn (cur_get r (ss_cursors s1)) mb) _ _); [destruct t; auto|].
      - destruct (Nat.ltb r (length (ss_cursors s1))); auto.
      - destruct (Nat.ltb _ _); auto. destruct (Nat.ltb r (length (ss_cursors s1))); auto. }
    assert (Hgo : forall s1, ss_sources s1 = ss_sources s ->
              match match scan_mailbox r c t s0 s1 mb with
                    | RComplete v mb' => SComplete v mb'
                    | RCalled s' => SCalled s'
                    | RContinue s' => process_sources s0 rr start now aw rest (S r) s' mb
                    | RErr e s' => SError e s'
                    | RPanic n => SPanic n
                    end with
              | SCalled s' | SPark s' | SError _ s' => ss_sources s' = ss_sources s
              | _ => True
              end).
    { intros s1 Hs1. specialize (Hscan s1).
      destruct (scan_mailbox r c t s0 s1 mb) as [v mb'|s'|s'|e s'|n]; auto; try congruence.
      specialize (IH (S r) s' mb).
      destruct (process_sources s0 rr start now aw rest (S r) s' mb); auto; congruence. }
    destruct (ss_receiving s0) as [[idx m]|]; [|apply Hgo; auto].
    destruct (Nat.eqb idx r); [|apply Hgo; auto].
    destruct rr as [[n|]|]; auto.
    destruct (Nat.ltb r (length (ss_cursors s))); auto.
    apply Hgo. reflexivity.
  - destruct (timeout_ready d start now); auto. apply IH.
Qed.


Section F45Fixed.
Variable verdict_of : nat -> msg -> verdict.
Variable written : list source.

(* while the select is running only its own targets are awaited; once it is over, nothing is *)
Definition keys_ok (st : proc) : Prop :=
  (forall s, p_sel st = Some s -> ss_sources s = written) /\
  forall p, aw_has p (p_awaiting st) = true ->
            p_value st = None /\ In p (pids_of written) /\ p_sel st <> None.

Lemma notify_result_keys p v st : keys_ok st -> keys_ok (notify_result true p v st).
Proof.
  intros (Hs & Hk). unfold notify_result. cbn [andb].
  assert (G : keys_ok (if negb (aw_has p (p_awaiting st)) then st
                       else set_awaiting (report [p] st) (aw_insert p (Some v) (p_awaiting st)))).
  { destruct (aw_has p (p_awaiting st)) eqn:E; cbn [negb]; [|split; auto].
    split; [exact Hs|]. cbn. intros q Hq. rewrite aw_has_insert in Hq.
    apply orb_true_iff in Hq. destruct Hq as [Hq|Hq]; auto. apply Nat.eqb_eq in Hq. subst q. auto. }
  unfold wake. destruct (p_selecting _); auto.
Qed.

Lemma step_keys now st st' : keys_ok st -> step true verdict_of written now st = Val st' -> keys_ok st'.
Proof.
  intros (Hs & Hk) Hstep.
  destruct (check_expired_fields now st) as (Fmb & Faw & Fsel & Fval & Ferr).
  assert (Hce : keys_ok (check_expired now st)).
  { unfold keys_ok. rewrite Fsel, Faw, Fval. auto. }
  unfold step in Hstep.
  destruct (negb (p_queued (check_expired now st))).
  { inversion Hstep; subst. exact Hce. }
  destruct (p_error (check_expired now st)).
  { inversion Hstep; subst. exact Hce. }
  destruct (p_value (check_expired now st)) eqn:Ev.
  { inversion Hstep; subst. exact Hce. }
  destruct Hce as (Hs1 & Hk1).
  destruct (p_sel (check_expired now st)) as [s|] eqn:Hsel.
  - pose proof (Hs1 s eq_refl) as Hsrc.
    destruct (match ss_receiving s with Some (r, m) => Some (verdict_of r m) | None => None end) as [[n| |e]|].
    3:{ inversion Hstep; subst. unfold keys_ok; cbn. rewrite Hsel. split; [exact Hs1|exact Hk1]. }
    all: destruct (p_unreported (check_expired now st)) as [|u us];
      [|inversion Hstep; subst; unfold keys_ok; cbn; rewrite Hsel; split; [exact Hs1|exact Hk1]].
    all: match type of Hstep with context [process_sources ?a ?b ?c ?d ?e ?f ?g ?h ?i] =>
           pose proof (process_sources_ok_sources a b c d e f g h i) as Hsr;
           destruct (process_sources a b c d e f g h i) end;
         inversion Hstep; subst; unfold keys_ok; cbn.
    all: try (split; [intros s2 H2; inversion H2; subst; cbn in Hsr; congruence|
                      intros p Hp; destruct (Hk1 p Hp) as (A & B & C); repeat split; auto; discriminate]).
    all: try (split; [intros s2 H2; discriminate H2|]; intros p Hp; exfalso;
              apply aw_has_fold_remove in Hp; destruct Hp as (Hn & Hp);
              apply Hn; rewrite Hsrc; apply (Hk1 p Hp)).
  - inversion Hstep; subst. unfold initialize_select.
    destruct (pids_of written) as [|q qs] eqn:Ep; unfold keys_ok; cbn.
    + split; [intros s2 H2; inversion H2; reflexivity|]. intros p Hp.
      destruct (Hk1 p Hp) as (A & B & C). rewrite ?Ep. repeat split; auto; discriminate.
    + split; [intros s2 H2; inversion H2; reflexivity|]. intros p Hp.
      apply (aw_has_fold_insert p (q :: qs)) in Hp. rewrite ?Ep. destruct Hp as [Hp|Hp].
      * repeat split; auto; discriminate.
      * destruct (Hk1 p Hp) as (A & B & C). rewrite ?Ep in B. repeat split; auto; discriminate.
Qed.

Lemma apply_event_keys ev st st' :
  keys_ok st -> apply_event true verdict_of written ev st = Val st' -> keys_ok st'.
Proof.
  intros HK H. destruct ev as [now|m|p v|p| |p r|tnow|rps]; cbn [apply_event andb] in H.
  - eapply step_keys; eauto.
  - inversion H; subst. destruct HK as (A & B). unfold wake. destruct (p_selecting _); split; auto.
  - inversion H; subst. apply notify_result_keys; auto.
  - inversion H; subst. destruct HK as (A & B).
    destruct (negb (aw_has p (p_awaiting st))); [unfold wake; destruct (p_selecting _)|]; split; auto.
  - inversion H; subst. destruct HK as (A & B). unfold wake. destruct (p_selecting _); split; auto.
  - destruct (aw_has p (p_awaiting st)); [destruct r|]; inversion H; subst; auto.
    all: try (apply notify_result_keys; auto).
    all: try (destruct HK as (A & B); split; auto).
  - inversion H; subst. destruct (check_expired_fields tnow st) as (_ & Faw & Fsel & Fval & _).
    unfold keys_ok. rewrite Fsel, Faw, Fval. exact HK.
  - inversion H; subst. exact HK.
Qed.

Lemma run_keys : forall evs st st',
  keys_ok st -> run true verdict_of written evs st = Val st' -> keys_ok st'.
Proof.
  induction evs as [|ev evs IH]; intros st st' HK H; cbn [run] in H.
  - inversion H; subst; auto.
  - destruct (apply_event true verdict_of written ev st) as [st1| |] eqn:E; cbn [obind] in H; try discriminate.
    eapply (IH st1 st'); auto. eapply apply_event_keys; eauto.
Qed.

End F45Fixed.

(* with the repair, a process whose select has completed survives the later failure of any
   process: nothing is awaited any more *)
Theorem completed_select_survives_repaired : completed_select_survives true.
Proof.
  intros verdict written evs mb st p st' Hrun Hv He Hev.
  assert (HK : keys_ok written st).
  { eapply run_keys; eauto. split; [intros s H; discriminate H|]. intros q Hq. discriminate Hq. }
  destruct HK as (_ & HK).
  cbn [apply_event andb] in Hev.
  destruct (aw_has p (p_awaiting st)) eqn:E.
  - destruct (HK p E) as (Hn & _). contradiction.
  - cbn [negb] in Hev. inversion Hev; subst. unfold wake. destruct (p_selecting st); exact He.
Qed.

(* the clamp is invisible for every duration that fits an i64 *)
Lemma eff_timeout_in_range d : in_i64 d = true -> eff_timeout d = Z.max d 0.
Proof. unfold eff_timeout, to_i64_or_max. intros ->. reflexivity. Qed.

(* ---------------------------------------------------------------- await_honest (b), with the code
   as it is since 09625d4 (fix45 = true): what a process awaits *)

(* awaiting_keys_subset_of_current_sources (invariant over all histories of a process that started
   with no awaited key): every key of `awaiting` is a process source of the CURRENT select — the
   select exists, it has not completed, its source list is the written one *)
Theorem awaiting_keys_subset_of_current_sources verdict written evs mb st :
  run true verdict written evs (initial mb []) = Val st ->
  forall p, aw_has p (p_awaiting st) = true ->
    p_value st = None /\ In (SrcProc p) written /\
    exists s, p_sel st = Some s /\ ss_sources s = written.
Proof.
  intros Hrun p Hp.
  assert (HK : keys_ok written st).
  { eapply run_keys; eauto. split; [intros s H; discriminate H|]. intros q Hq. discriminate Hq. }
  destruct HK as (Hs & HK). destruct (HK p Hp) as (A & B & C).
  split; auto. split.
  - clear -B. induction written as [|[q|c t|d|e] rest IH]; cbn in B |- *; auto.
    destruct B as [->|B]; auto.
  - destruct (p_sel st) as [s|] eqn:E; [|contradiction]. exists s. auto.
Qed.

(* complete_select_clears_process_sources: the entry that completes the select removes every
   process source of that select from `awaiting` (complete_select, executor.rs ~2671-2681) — from
   ANY initial awaiting map *)
Theorem complete_select_clears_process_sources verdict written evs mb aw0 st now st' v :
  run true verdict written evs (initial mb aw0) = Val st ->
  step true verdict written now st = Val st' -> p_value st = None -> p_value st' = Some v ->
  forall p, In (SrcProc p) written -> aw_has p (p_awaiting st') = false.
Proof.
  intros Hrun Hstep Hv0 Hv1 p Hin.
  destruct (run_total true verdict written evs (initial mb aw0) (Inv_initial verdict written mb aw0)) as (st1 & Hrun' & HI).
  rewrite Hrun in Hrun'. inversion Hrun'; subst st1.
  rewrite (completing_step_awaiting true verdict written now st st' v HI Hstep Hv0 Hv1).
  destruct (aw_has p (fold_left (fun aw q => aw_remove q aw) (pids_of written) (p_awaiting st))) eqn:E; auto.
  apply aw_has_fold_remove in E. destruct E as (Hn & _). exfalso. apply Hn.
  clear -Hin. induction written as [|[q|c t|d|e] rest IH]; cbn in Hin |- *; try (destruct Hin as [Hd|Hin]; [discriminate|auto]); try contradiction.
  destruct Hin as [Hd|Hin]; [inversion Hd; left; auto|right; auto].
Qed.

(* ... so that a process that started with no awaited key awaits nothing once its select is over:
   the next select starts from an empty awaiting map again (a process blocks in one select at a
   time) *)
Theorem completed_select_awaits_nothing verdict written evs mb st :
  run true verdict written evs (initial mb []) = Val st ->
  p_value st <> None -> forall p, aw_has p (p_awaiting st) = false.
Proof.
  intros Hrun Hv p. destruct (aw_has p (p_awaiting st)) eqn:E; auto.
  destruct (awaiting_keys_subset_of_current_sources _ _ _ _ _ Hrun p E) as (A & _). contradiction.
Qed.

(* await_honest (b): when a slice ends with Action::Await on targets ts, every key that remains in
   `awaiting` is one of ts *)
Theorem await_slice_leaves_only_its_targets verdict written evs mb st now st' ts :
  run true verdict written evs (initial mb []) = Val st ->
  step_action written now st = Some ts -> step true verdict written now st = Val st' ->
  forall p, aw_has p (p_awaiting st') = true -> In p ts.
Proof.
  intros Hrun Ha Hstep p Hp.
  destruct (await_slice_has_not_started true verdict written now st st' ts Ha Hstep) as (-> & _).
  assert (HK : keys_ok written st').
  { eapply step_keys; eauto. eapply run_keys; eauto.
    split; [intros s H; discriminate H|]. intros q Hq. discriminate Hq. }
  destruct HK as (_ & HK). apply (HK p Hp).
Qed.

(* ---------------------------------------------------------------- non-vacuity of the premise theorems *)
(* ex2 (`! [#'int, 5]`, mailbox [a 'bin message]): the second entry at clock 10 parks *)
Definition ex2_pre : proc :=
  Eval vm_compute in
    match run true no_verdict ex2_written [EStep 10%Z] (initial [(7, 1)] []) with Val st => st | _ => initial [] [] end.
Definition ex2_parked : proc :=
  Eval vm_compute in match step true no_verdict ex2_written 10%Z ex2_pre with Val st => st | _ => initial [] [] end.

Example ex_parks_after_full_scan :
  run true no_verdict ex2_written [EStep 10%Z] (initial [(7, 1)] []) = Val ex2_pre /\
  (exists s, active 10%Z ex2_pre s) /\
  step true no_verdict ex2_written 10%Z ex2_pre = Val ex2_parked /\
  p_queued ex2_parked = false /\ p_selecting ex2_parked = true /\ p_error ex2_parked = None /\
  (exists s', p_sel ex2_parked = Some s' /\ ss_cursors s' = [1] /\ ss_start s' = Some 10%Z /\
              length (p_mailbox ex2_parked) = 1 /\ expired s' 10%Z = false /\ expired s' 15%Z = true).
Proof.
  split; [vm_compute; reflexivity|]. split; [eexists; repeat split|].
  split; [vm_compute; reflexivity|]. repeat split. eexists. repeat split.
Qed.

(* `! [p0, 0]`: the first entry returns Action::Await [0], parks with the start time unset and
   awaits exactly p0; the select completes by its timeout and forgets p0 *)
Definition f45_init : proc :=
  Eval vm_compute in match step true no_verdict f45_written 0%Z (initial [] []) with Val st => st | _ => initial [] [] end.

Example ex_await_slice :
  step_action f45_written 0%Z (initial [] []) = Some [0] /\
  step true no_verdict f45_written 0%Z (initial [] []) = Val f45_init /\
  p_awaiting f45_init = [(0, None)] /\ p_selecting f45_init = true /\
  (exists s, p_sel f45_init = Some s /\ ss_start s = None) /\
  run true no_verdict f45_written [EReport [0]; EActive; EStep 0%Z] f45_init = Val f45_state_fixed /\
  p_value f45_state_fixed = Some VNil /\ p_awaiting f45_state_fixed = [].
Proof.
  split; [reflexivity|]. split; [vm_compute; reflexivity|]. repeat split.
  all: try (eexists; split; reflexivity).
  all: try (vm_compute; reflexivity).
Qed.

(* a process completed in place by a failure: the next step executes no entry *)
Example ex_dead_process :
  exists st st',
    run true no_verdict f45_written [EStep 0%Z; EFail 0; EActive] (initial [] []) = Val st /\
    p_error st = Some (PAwaited 0) /\ p_queued st = true /\
    step true no_verdict f45_written 1%Z st = Val st' /\ step_action f45_written 1%Z st = None /\
    p_queued st' = false /\ p_sel st' = p_sel st.
Proof.
  eexists. eexists. split; [vm_compute; reflexivity|]. split; [reflexivity|]. split; [reflexivity|].
  split; [vm_compute; reflexivity|]. repeat split.
Qed.

(* The premise holds of the slice that PARKS.  A slice that ends runnable may well end with a
   timeout that is already due (it fires at the next entry): `! [0]`, quantum 1 — the initialising
   entry sets the start time to the current clock and the slice ends before the first pass.  An
   unconditional reading of time_honest ("no slice ends with a due timeout") is false of the machine
   and of the real executor alike. *)
Example ex_runnable_slice_may_end_with_due_timeout :
  exists st', step true no_verdict [SrcTimeout 0%Z] 7%Z (initial [] []) = Val st' /\
              p_queued st' = true /\ p_selecting st' = false /\
              exists s', p_sel st' = Some s' /\ ss_start s' = Some 7%Z /\ expired s' 7%Z = true.
Proof. eexists. split; [vm_compute; reflexivity|]. repeat split. eexists. repeat split. Qed.

(* F72, in the model: `! [p1, p3]`; p3 completes on the awaiter's worker while the await is in
   flight (ELocal: direct notification, wakes the awaiter); p1 had completed long ago but its result
   only comes with the snapshot.  The woken select parks again (p1 unreported); after the snapshot
   (report of both, result of p1) it completes with p1's 11, not p3's 33. *)
Definition f72_written : list source := [SrcProc 1; SrcProc 3].
Definition f72_woken : proc :=
  Eval vm_compute in
    match run true no_verdict f72_written [EStep 0%Z; ELocal 3 (Some (VVal 33))] (initial [] []) with
    | Val st => st | _ => initial [] [] end.
Definition f72_final : proc :=
  Eval vm_compute in
    match run true no_verdict f72_written [EStep 1%Z; EReport [1; 3]; EResult 1 (VVal 11); EStep 2%Z] f72_woken with
    | Val st => st | _ => initial [] [] end.

Example ex_f72_reparks_then_first_source_wins :
  run true no_verdict f72_written [EStep 0%Z; ELocal 3 (Some (VVal 33))] (initial [] []) = Val f72_woken /\
  p_queued f72_woken = true /\ p_unreported f72_woken = [1] /\
  aw_get 3 (p_awaiting f72_woken) = Some (Some (VVal 33)) /\ aw_get 1 (p_awaiting f72_woken) = Some None /\
  (exists s, active 1%Z f72_woken s) /\
  step true no_verdict f72_written 1%Z f72_woken = Val (set_flags f72_woken false true) /\
  run true no_verdict f72_written [EStep 1%Z; EReport [1; 3]; EResult 1 (VVal 11); EStep 2%Z] f72_woken = Val f72_final /\
  p_value f72_final = Some (VVal 11) /\ p_awaiting f72_final = [] /\ p_unreported f72_final = [].
Proof.
  split; [vm_compute; reflexivity|]. repeat split.
  all: try (eexists; repeat split; reflexivity).
  all: vm_compute; reflexivity.
Qed.
