(* SelectRefine.v — the select machine (Select.v) refines its specification (SelectSpec.v).

   Invariant of a select in progress (Inv): for every receive source, every mailbox message
   before its cursor is type-incompatible or was rejected by the (pure) filter; the `receiving`
   slot, when set, names a filter source and the message its cursor points at.  Messages are only
   appended between entries, so the invariant survives every arrival; each entry re-establishes
   it.  From it: an entry that completes does so with select_spec on that entry's state; an entry
   that parks does so only when select_spec says Wait; an entry that calls a failing filter or
   meets an invalid source does so only when select_spec says Fail; no entry panics. *)
From Quiver Require Import Base.
From Quiver Require Import sel.Select sel.SelectSpec.
Local Open Scope nat_scope.

(* ---------------------------------------------------------------- list helpers *)
Lemma nth_set_nth_eq {A} (d : A) : forall n v (l : list A), n < length l -> nth n (set_nth n v l) d = v.
Proof.
  induction n as [|n IH]; intros v [|x l] Hlt; cbn in *; try lia; auto. apply IH. lia.
Qed.

Lemma nth_set_nth_neq {A} (d : A) : forall n m v (l : list A), n <> m -> nth m (set_nth n v l) d = nth m l d.
Proof.
  induction n as [|n IH]; intros [|m] v [|x l] Hne; cbn; try reflexivity; try congruence.
  apply IH. congruence.
Qed.

Lemma length_set_nth {A} : forall n (v : A) l, length (set_nth n v l) = length l.
Proof. induction n as [|n IH]; intros v [|x l]; cbn; auto. Qed.

Lemma cur_get_set_eq r v cs : r < length cs -> cur_get r (set_nth r v cs) = v.
Proof. apply nth_set_nth_eq. Qed.
Lemma cur_get_set_neq r r' v cs : r <> r' -> cur_get r' (set_nth r v cs) = cur_get r' cs.
Proof. apply nth_set_nth_neq. Qed.

Lemma nth_error_skipn {A} : forall c (l : list A) k, nth_error (skipn c l) k = nth_error l (c + k).
Proof.
  induction c as [|c IH]; intros [|x l] k; cbn; auto. destruct k; reflexivity.
Qed.

Lemma skipn_nil_iff {A} : forall c (l : list A), skipn c l = [] <-> length l <= c.
Proof.
  induction c as [|c IH]; intros [|x l]; cbn; split; intros H; try reflexivity; try lia; try discriminate.
  - apply IH in H. lia.
  - apply IH. lia.
Qed.

(* ---------------------------------------------------------------- the scan loop *)
Lemma scan_found classes : forall l i c idx m,
  scan classes l i c = Found idx m ->
  exists k, idx = i + k /\ nth_error l k = Some m /\ compat classes m = true /\
            forall j x, j < k -> nth_error l j = Some x -> compat classes x = false.
Proof.
  induction l as [|a l IH]; intros i c idx m H; cbn in H; [discriminate|].
  destruct (compat classes a) eqn:Ea.
  - inversion H; subst. exists 0. repeat split; auto. intros j x Hj. lia.
  - apply IH in H. destruct H as (k & -> & Hn & Hc & Hb).
    exists (S k). repeat split; auto; try lia.
    intros [|j] x Hj Hx; cbn in Hx; [inversion Hx; subst; auto|]. apply (Hb j); auto. lia.
Qed.

Lemma scan_notfound classes : forall l i c c',
  scan classes l i c = NotFound c' ->
  (forall x, In x l -> compat classes x = false) /\ c' = match l with [] => c | _ => i + length l end.
Proof.
  induction l as [|a l IH]; intros i c c' H; cbn in H.
  - inversion H; subst. split; auto. intros x [].
  - destruct (compat classes a) eqn:Ea; [discriminate|].
    apply IH in H. destruct H as (Hall & ->). split.
    + intros x [<-|Hin]; auto.
    + destruct l; cbn; lia.
Qed.

Section Refine.
Variable fix45 : bool.
Variable verdict_of : nat -> msg -> verdict.
Variable written : list source.

Notation accepts := (accepts verdict_of).
Notation pick_msg := (pick_msg verdict_of).
Notation select_spec_from := (select_spec_from verdict_of).

(* ---------------------------------------------------------------- pick_msg by position *)
Lemma pick_at r classes ty : forall mb idx m n,
  nth_error mb idx = Some m ->
  (forall j x, j < idx -> nth_error mb j = Some x -> accepts r classes ty x = VdNil) ->
  accepts r classes ty m = Truthy n ->
  pick_msg r classes ty mb = Picked m (remove_nth idx mb).
Proof.
  induction mb as [|a mb IH]; intros idx m n Hn Hb Ha; [destruct idx; discriminate|].
  destruct idx as [|idx]; cbn in Hn |- *.
  - inversion Hn; subst. rewrite Ha. reflexivity.
  - rewrite (Hb 0 a) by (auto; lia). erewrite IH; eauto.
    intros j x Hj Hx. apply (Hb (S j)); auto. lia.
Qed.

Lemma pick_err_at r classes ty : forall mb idx m e,
  nth_error mb idx = Some m ->
  (forall j x, j < idx -> nth_error mb j = Some x -> accepts r classes ty x = VdNil) ->
  accepts r classes ty m = VdErr e ->
  pick_msg r classes ty mb = PickErr e.
Proof.
  induction mb as [|a mb IH]; intros idx m e Hn Hb Ha; [destruct idx; discriminate|].
  destruct idx as [|idx]; cbn in Hn |- *.
  - inversion Hn; subst. rewrite Ha. reflexivity.
  - rewrite (Hb 0 a) by (auto; lia). erewrite IH; eauto.
    intros j x Hj Hx. apply (Hb (S j)); auto. lia.
Qed.

Lemma pick_none r classes ty : forall mb,
  (forall j x, nth_error mb j = Some x -> accepts r classes ty x = VdNil) ->
  pick_msg r classes ty mb = NoPick.
Proof.
  induction mb as [|a mb IH]; intros Hb; cbn; auto.
  rewrite (Hb 0 a) by auto. rewrite IH; auto. intros j x Hx. apply (Hb (S j)); auto.
Qed.

Lemma accepts_incompat r classes ty m : compat classes m = false -> accepts r classes ty m = VdNil.
Proof. unfold SelectSpec.accepts. intros ->. reflexivity. Qed.

(* ---------------------------------------------------------------- the invariant *)
Fixpoint nth_recv (srcs : list source) (r : nat) : option (list nat * bool) :=
  match srcs with
  | [] => None
  | SrcRecv c t :: rest => match r with O => Some (c, t) | S r' => nth_recv rest r' end
  | _ :: rest => nth_recv rest r
  end.

(* cursor_skips_only_rejected: everything before a cursor is incompatible or rejected *)
Definition skipped_before (cs : list nat) (mb : list msg) : Prop :=
  forall r c t, nth_recv written r = Some (c, t) ->
  forall j m, j < cur_get r cs -> nth_error mb j = Some m -> accepts r c t m = VdNil.

(* cursors never run past the end of the mailbox *)
Definition cursors_le (cs : list nat) (mb : list msg) : Prop := forall r, cur_get r cs <= length mb.

Definition receiving_inv (cs : list nat) (mb : list msg) (rcv : option (nat * msg)) : Prop :=
  match rcv with
  | None => True
  | Some (r0, m0) => exists c, nth_recv written r0 = Some (c, false) /\ compat c m0 = true /\
                               nth_error mb (cur_get r0 cs) = Some m0
  end.

Definition sel_inv (s : sel_state) (mb : list msg) : Prop :=
  ss_sources s = written /\
  length (ss_cursors s) = count_recv written /\
  skipped_before (ss_cursors s) mb /\
  receiving_inv (ss_cursors s) mb (ss_receiving s) /\
  cursors_le (ss_cursors s) mb.

Definition Inv (st : proc) : Prop :=
  match p_sel st with
  | None => True
  | Some s => sel_inv s (p_mailbox st)
  end.

Lemma nth_recv_lt : forall srcs r x, nth_recv srcs r = Some x -> r < count_recv srcs.
Proof.
  unfold count_recv. induction srcs as [|[p|c t|d|e] rest IH]; intros r x H; cbn in *; try discriminate;
    try (apply IH in H; exact H).
  destruct r; [lia|]. apply IH in H. lia.
Qed.

(* appending a message keeps the invariant (positions before any cursor are unchanged) *)
Lemma nth_error_app_some {A} (l : list A) x j m : nth_error l j = Some m -> nth_error (l ++ [x]) j = Some m.
Proof. intros H. rewrite nth_error_app1; auto. apply nth_error_Some. congruence. Qed.

(* verdict as handle_select_continuation hands it over *)
Definition rr_of (v : verdict) : option (option nat) :=
  match v with Truthy n => Some (Some n) | VdNil => Some None | VdErr _ => None end.

(* ---------------------------------------------------------------- one receive source *)
Section OneEntry.
Variable s0 : sel_state.                      (* the clone taken at the top of the pass *)
Variable rr : option (option nat).
Variable mb : list msg.

Hypothesis Hrr : match ss_receiving s0 with
                 | Some (r0, m0) => (forall e, verdict_of r0 m0 <> VdErr e) /\ rr = rr_of (verdict_of r0 m0)
                 | None => rr = None
                 end.

(* what we know about the live state `s` when the pass reaches receive index r *)
Record live_ok (r : nat) (s : sel_state) : Prop := {
  lo_len : length (ss_cursors s) = count_recv written;
  lo_agree : forall r', r <= r' -> cur_get r' (ss_cursors s) = cur_get r' (ss_cursors s0);
  lo_skipped : skipped_before (ss_cursors s) mb;
  lo_rinv : receiving_inv (ss_cursors s) mb (ss_receiving s);
  lo_le : cursors_le (ss_cursors s) mb;
  lo_rcv : (ss_receiving s = ss_receiving s0 /\ forall r0 m0, ss_receiving s0 = Some (r0, m0) -> r <= r0) \/
           (ss_receiving s = None /\ forall r0 m0, ss_receiving s0 = Some (r0, m0) -> r0 < r);
}.

(* what a state handed back by the pass satisfies *)
Definition good (s s' : sel_state) : Prop :=
  ss_sources s' = ss_sources s /\ ss_start s' = ss_start s /\
  length (ss_cursors s') = count_recv written /\
  skipped_before (ss_cursors s') mb /\
  receiving_inv (ss_cursors s') mb (ss_receiving s') /\
  cursors_le (ss_cursors s') mb.

Lemma cursors_le_set cs r v : cursors_le cs mb -> v <= length mb -> cursors_le (set_nth r v cs) mb.
Proof.
  intros Hle Hv r'. destruct (Nat.eq_dec r r') as [<-|Hne].
  - destruct (Nat.lt_ge_cases r (length cs)) as [Hl|Hg].
    + rewrite cur_get_set_eq; auto.
    + unfold cur_get. rewrite nth_overflow; [lia|]. rewrite length_set_nth. exact Hg.
  - rewrite cur_get_set_neq; auto.
Qed.

Lemma scan_mailbox_ok r c t s :
  nth_recv written r = Some (c, t) ->
  length (ss_cursors s) = count_recv written ->
  skipped_before (ss_cursors s) mb ->
  receiving_inv (ss_cursors s) mb (ss_receiving s) ->
  cursors_le (ss_cursors s) mb ->
  ss_receiving s = None \/ (exists r0 m0, ss_receiving s = Some (r0, m0) /\ r0 <> r) ->
  match scan_mailbox r c t s0 s mb with
  | RComplete v mb' => exists m, v = VMsg m /\ pick_msg r c t mb = Picked m mb'
  | RCalled s' => good s s' /\
                  exists m, ss_receiving s' = Some (r, m) /\
                            forall e, verdict_of r m = VdErr e -> pick_msg r c t mb = PickErr e
  | RContinue s' => pick_msg r c t mb = NoPick /\ good s s' /\
                    (forall r', r <> r' -> cur_get r' (ss_cursors s') = cur_get r' (ss_cursors s)) /\
                    ss_receiving s' = ss_receiving s
  | RErr _ _ => False
  | RPanic _ => False
  end.
Proof.
  intros Hsrc Hlen Hsk Hrinv Hcle Hrcv.
  pose proof (nth_recv_lt _ _ _ Hsrc) as Hrlt.
  unfold scan_mailbox.
  set (cur := cur_get r (ss_cursors s)).
  assert (Hbefore : forall j x, j < cur -> nth_error mb j = Some x -> accepts r c t x = VdNil).
  { intros j x Hj Hx. eapply Hsk; eauto. }
  destruct (scan c (skipn cur mb) cur cur) as [idx m|c'] eqn:Escan.
  - apply scan_found in Escan. destruct Escan as (k & -> & Hn & Hc & Hb).
    rewrite nth_error_skipn in Hn.
    assert (Hbefore' : forall j x, j < cur + k -> nth_error mb j = Some x -> accepts r c t x = VdNil).
    { intros j x Hj Hx. destruct (Nat.lt_ge_cases j cur) as [Hl|Hg]; [eauto|].
      apply accepts_incompat. apply (Hb (j - cur)); [lia|]. rewrite nth_error_skipn.
      replace (cur + (j - cur)) with j by lia. exact Hx. }
    destruct t.
    + (* body-less receiver: take the message *)
      exists m. split; [reflexivity|].
      assert (Hlt : cur + k < length mb) by (apply nth_error_Some; congruence).
      unfold take_msg. apply Nat.ltb_lt in Hlt. rewrite Hlt.
      eapply pick_at with (n := 0); eauto.
      unfold SelectSpec.accepts. rewrite Hc. reflexivity.
    + (* filter: call it *)
      assert (Hl : Nat.ltb r (length (ss_cursors s)) = true) by (apply Nat.ltb_lt; lia).
      rewrite Hl. split.
      * unfold good, with_cursors, with_receiving, receiving_inv; cbn [ss_sources ss_cursors ss_start ss_receiving]. repeat split; auto.
        -- rewrite length_set_nth. exact Hlen.
        -- intros r1 c1 t1 Hsrc1 j x Hj Hx.
           destruct (Nat.eq_dec r r1) as [<-|Hne].
           ++ rewrite cur_get_set_eq in Hj by lia. rewrite Hsrc in Hsrc1. inversion Hsrc1; subst. eauto.
           ++ rewrite cur_get_set_neq in Hj by auto. eapply Hsk; eauto.
        -- exists c. rewrite cur_get_set_eq by lia. auto.
        -- apply cursors_le_set; auto.
           assert (cur + k < length mb) by (apply nth_error_Some; congruence). lia.
      * exists m. split; [reflexivity|]. intros e He.
        eapply pick_err_at; eauto. unfold SelectSpec.accepts. rewrite Hc. exact He.
  - apply scan_notfound in Escan. destruct Escan as (Hall & Hc').
    assert (Hnone : pick_msg r c t mb = NoPick).
    { apply pick_none. intros j x Hx. destruct (Nat.lt_ge_cases j cur) as [Hl|Hg]; [eauto|].
      apply accepts_incompat. apply Hall. apply nth_error_In with (n := j - cur).
      rewrite nth_error_skipn. replace (cur + (j - cur)) with j by lia. exact Hx. }
    assert (Hnew : forall j x, j < c' -> nth_error mb j = Some x -> accepts r c t x = VdNil).
    { intros j x Hj Hx. destruct (Nat.lt_ge_cases j cur) as [Hl|Hg]; [eauto|].
      apply accepts_incompat. apply Hall. apply nth_error_In with (n := j - cur).
      rewrite nth_error_skipn. replace (cur + (j - cur)) with j by lia. exact Hx. }
    assert (Hgood_set : good s (with_cursors s (set_nth r c' (ss_cursors s)))).
    { unfold good, with_cursors; cbn [ss_sources ss_cursors ss_start ss_receiving]. repeat split; auto.
      - rewrite length_set_nth. exact Hlen.
      - intros r1 c1 t1 Hsrc1 j x Hj Hx.
        destruct (Nat.eq_dec r r1) as [<-|Hne].
        + rewrite cur_get_set_eq in Hj by lia. rewrite Hsrc in Hsrc1. inversion Hsrc1; subst. eauto.
        + rewrite cur_get_set_neq in Hj by auto. eapply Hsk; eauto.
      - destruct Hrcv as [Hn|(r0 & m0 & Hs & Hne)].
        + rewrite Hn. exact I.
        + rewrite Hs in Hrinv |- *. unfold receiving_inv in Hrinv |- *. destruct Hrinv as (c0 & H1 & H2 & H3).
          exists c0. rewrite cur_get_set_neq by auto. auto.
      - apply cursors_le_set; auto. rewrite Hc'.
        destruct (skipn cur mb) as [|a l] eqn:Esk; [apply Hcle|].
        assert (Hlen_sk : length (skipn cur mb) = length mb - cur) by apply skipn_length.
        rewrite Esk in Hlen_sk.
        assert (length mb > cur).
        { destruct (Nat.lt_ge_cases cur (length mb)); auto.
          assert (skipn cur mb = []) by (apply skipn_nil_iff; lia). congruence. }
        cbn [length] in Hlen_sk |- *. lia. }
    assert (Hgood_id : good s s).
    { unfold good. repeat split; auto. }
    destruct (Nat.ltb (cur_get r (ss_cursors s0)) c') eqn:Elt.
    + assert (Hl : Nat.ltb r (length (ss_cursors s)) = true) by (apply Nat.ltb_lt; lia).
      rewrite Hl. repeat split; auto; try apply Hgood_set.
      intros r' Hne. unfold with_cursors; cbn [ss_cursors]. apply cur_get_set_neq. exact Hne.
    + repeat split; auto; try apply Hgood_id.
Qed.

Lemma good_trans s s1 s2 : good s s1 -> good s1 s2 -> good s s2.
Proof.
  unfold good. intros (A1 & A2 & _) (B1 & B2 & B3 & B4 & B5 & B6). repeat split; auto; congruence.
Qed.

Lemma live_ok_good r s : live_ok r s -> good s s.
Proof. intros [H1 H2 H3 H4 H5 H6]. unfold good. repeat split; auto. Qed.

Lemma handle_select_receive_ok r c t s :
  nth_recv written r = Some (c, t) ->
  live_ok r s ->
  match handle_select_receive r c t rr s0 s mb with
  | RComplete v mb' => exists m, v = VMsg m /\ pick_msg r c t mb = Picked m mb'
  | RCalled s' => good s s' /\
                  exists m, ss_receiving s' = Some (r, m) /\
                            forall e, verdict_of r m = VdErr e -> pick_msg r c t mb = PickErr e
  | RContinue s' => pick_msg r c t mb = NoPick /\ good s s' /\ live_ok (S r) s'
  | RErr _ _ => False
  | RPanic _ => False
  end.
Proof.
  intros Hsrc Hlive.
  pose proof (nth_recv_lt _ _ _ Hsrc) as Hrlt.
  destruct Hlive as [Hlen Hagree Hsk Hrinv Hcle Hlr].
  unfold handle_select_receive.
  (* the plain path: scan from the live state *)
  assert (Hplain : (ss_receiving s = None \/ exists r0 m0, ss_receiving s = Some (r0, m0) /\ r0 <> r) ->
                   (forall r0 m0, ss_receiving s0 = Some (r0, m0) -> r0 <> r) ->
                   match scan_mailbox r c t s0 s mb with
                   | RComplete v mb' => exists m, v = VMsg m /\ pick_msg r c t mb = Picked m mb'
                   | RCalled s' => good s s' /\
                                   exists m, ss_receiving s' = Some (r, m) /\
                                             forall e, verdict_of r m = VdErr e -> pick_msg r c t mb = PickErr e
                   | RContinue s' => pick_msg r c t mb = NoPick /\ good s s' /\ live_ok (S r) s'
                   | RErr _ _ => False
                   | RPanic _ => False
                   end).
  { intros Hrcv Hne.
    pose proof (scan_mailbox_ok r c t s Hsrc Hlen Hsk Hrinv Hcle Hrcv) as H.
    destruct (scan_mailbox r c t s0 s mb) as [v mb'|s'|s'|e s'|n]; auto.
    destruct H as (Hp & Hg & Hcur & Hr). split; [exact Hp|]. split; [exact Hg|].
    destruct Hg as (G1 & G2 & G3 & G4 & G5 & G6).
    constructor; auto.
    - intros r' Hle. rewrite Hcur by lia. apply Hagree. lia.
    - rewrite Hr. destruct Hlr as [(He & Hle)|(He & Hlt)].
      + left. split; auto. intros r0 m0 H0. specialize (Hle _ _ H0). specialize (Hne _ _ H0). lia.
      + right. split; auto. intros r0 m0 H0. specialize (Hlt _ _ H0). lia. }
  destruct (ss_receiving s0) as [[idx m0]|] eqn:Ercv0.
  - destruct (Nat.eqb idx r) eqn:Eidx.
    + apply Nat.eqb_eq in Eidx. subst idx.
      destruct Hrr as (Hnoerr & Hrreq).
      (* the live slot still holds the message (the right disjunct would need r < r) *)
      destruct Hlr as [(He & _)|(_ & Hlt)]; [|specialize (Hlt _ _ eq_refl); lia].
      rewrite He in Hrinv. cbn in Hrinv. destruct Hrinv as (c0 & Hs0 & Hcompat & Hnth).
      rewrite Hsrc in Hs0. inversion Hs0; subst c0 t. clear Hs0.
      assert (Hacc : accepts r c false m0 = verdict_of r m0).
      { unfold SelectSpec.accepts. rewrite Hcompat. reflexivity. }
      destruct (verdict_of r m0) as [n| |e] eqn:Evd; [| |exfalso; eapply Hnoerr; eauto].
      * (* accepted *)
        rewrite Hrreq. cbn [rr_of].
        exists m0. split; auto.
        assert (Hlt : cur_get r (ss_cursors s) < length mb) by (apply nth_error_Some; congruence).
        unfold take_msg. apply Nat.ltb_lt in Hlt. rewrite Hlt.
        eapply pick_at; eauto.
      * (* rejected: cursor + 1, slot cleared, scan on *)
        rewrite Hrreq. cbn [rr_of].
        assert (Hl : Nat.ltb r (length (ss_cursors s)) = true) by (apply Nat.ltb_lt; lia).
        rewrite Hl.
        set (s2 := with_receiving (with_cursors s (set_nth r (S (cur_get r (ss_cursors s))) (ss_cursors s))) None).
        assert (Hlen2 : length (ss_cursors s2) = count_recv written).
        { unfold s2, with_receiving, with_cursors; cbn [ss_cursors]. rewrite length_set_nth. exact Hlen. }
        assert (Hsk2 : skipped_before (ss_cursors s2) mb).
        { unfold s2, with_receiving, with_cursors; cbn [ss_cursors].
          intros r1 c1 t1 Hsrc1 j x Hj Hx.
          destruct (Nat.eq_dec r r1) as [<-|Hne].
          - rewrite cur_get_set_eq in Hj by lia. rewrite Hsrc in Hsrc1. inversion Hsrc1; subst c1 t1.
            destruct (Nat.eq_dec j (cur_get r (ss_cursors s))) as [->|Hnej].
            + rewrite Hnth in Hx. inversion Hx; subst x. rewrite Hacc. reflexivity.
            + eapply Hsk; eauto. lia.
          - rewrite cur_get_set_neq in Hj by auto. eapply Hsk; eauto. }
        assert (Hri2 : receiving_inv (ss_cursors s2) mb (ss_receiving s2)) by exact I.
        assert (Hcle2 : cursors_le (ss_cursors s2) mb).
        { unfold s2, with_receiving, with_cursors; cbn [ss_cursors]. apply cursors_le_set; auto.
          assert (cur_get r (ss_cursors s) < length mb) by (apply nth_error_Some; congruence). lia. }
        pose proof (scan_mailbox_ok r c false s2 Hsrc Hlen2 Hsk2 Hri2 Hcle2 (or_introl eq_refl)) as H.
        destruct (scan_mailbox r c false s0 s2 mb) as [v mb'|s'|s'|e s'|n]; auto.
        destruct H as (Hp & Hg & Hcur & Hr). split; [exact Hp|]. split.
           ++ exact Hg.
           ++ destruct Hg as (G1 & G2 & G3 & G4 & G5 & G6). constructor; auto.
              ** intros r' Hle. rewrite Hcur by lia.
                 unfold s2, with_receiving, with_cursors; cbn [ss_cursors].
                 rewrite cur_get_set_neq by lia. apply Hagree. lia.
              ** right. split; [rewrite Hr; reflexivity|]. intros r0 m1 H0. rewrite Ercv0 in H0. inversion H0; subst. lia.
    + apply Nat.eqb_neq in Eidx.
      apply Hplain.
      * destruct Hlr as [(He & _)|(He & _)]; [right; exists idx, m0; rewrite He; auto | left; auto].
      * intros r0 m1 H0. inversion H0; subst. exact Eidx.
  - apply Hplain.
    + destruct Hlr as [(He & _)|(He & _)]; left; congruence.
    + intros r0 m1 H0. discriminate H0.
Qed.

(* ---------------------------------------------------------------- one pass over the sources *)
Lemma process_sources_ok start now aw : forall suf r s,
  (forall k, nth_recv written (r + k) = nth_recv suf k) ->
  live_ok r s ->
  match process_sources s0 rr start now aw suf r s mb with
  | SComplete v mb' => select_spec_from suf r mb aw start now = Complete v mb'
  | SCalled s' => good s s' /\
                  exists r1 m, ss_receiving s' = Some (r1, m) /\
                               forall e, verdict_of r1 m = VdErr e ->
                                         select_spec_from suf r mb aw start now = Fail e
  | SPark s' => select_spec_from suf r mb aw start now = Wait /\ good s s'
  | SError e s' => select_spec_from suf r mb aw start now = Fail e
  | SPanic _ => False
  end.
Proof.
  induction suf as [|src rest IH]; intros r s Hsuf Hlive.
  - cbn. split; auto. eapply live_ok_good; eauto.
  - destruct src as [p|c t|d|e].
    + (* awaited process *)
      cbn [process_sources select_spec_from SelectSpec.select_spec_from].
      destruct (aw_get p aw) as [[v|]|]; auto; apply IH; auto.
    + (* receive *)
      cbn [process_sources select_spec_from SelectSpec.select_spec_from].
      assert (Hsrc : nth_recv written r = Some (c, t)).
      { specialize (Hsuf 0). rewrite Nat.add_0_r in Hsuf. exact Hsuf. }
      pose proof (handle_select_receive_ok r c t s Hsrc Hlive) as H.
      destruct (handle_select_receive r c t rr s0 s mb) as [v mb'|s'|s'|e s'|n]; try contradiction.
      * destruct H as (m & -> & Hp). rewrite Hp. reflexivity.
      * destruct H as (Hg & m & Hr & He). split; auto. exists r, m. split; auto.
        intros e Hv. rewrite (He e Hv). reflexivity.
      * destruct H as (Hp & Hg & Hlive'). rewrite Hp.
        assert (Hsuf' : forall k, nth_recv written (S r + k) = nth_recv rest k).
        { intros k. specialize (Hsuf (S k)). rewrite Nat.add_succ_r in Hsuf. exact Hsuf. }
        pose proof (IH (S r) s' Hsuf' Hlive') as H2.
        destruct (process_sources s0 rr start now aw rest (S r) s' mb) as [v mb'|s2|s2|e s2|n]; auto.
        -- destruct H2 as (Hg2 & Hrest). split; auto. eapply good_trans; eauto.
        -- destruct H2 as (Hw & Hg2). split; auto. eapply good_trans; eauto.
    + (* timeout *)
      cbn [process_sources select_spec_from SelectSpec.select_spec_from].
      destruct (timeout_ready d start now); auto. apply IH; auto.
    + (* not a source *)
      cbn [process_sources select_spec_from SelectSpec.select_spec_from]. reflexivity.
Qed.

End OneEntry.
End Refine.
