(* AwaitProofs.v — the repaired (merge = true) await protocol of SelectSpec.v delivers, for every
   target, the latest answer any worker gave (F8 repair, general theorem).

   Proof outline.
   Phase 1 (the pending record exists): invariant `Inv cur rs` — the stored responses `rs` have
   distinct worker keys, every stored answer has distinct target keys that all belong to that
   worker, and for every target p the stored answer of `owner p` maps p to `cur p`, the latest
   answer the processed prefix gave for p.  When the expected set becomes empty the single
   UpdateAwaitResults carries `flat_map snd rs`, whose reading at p is again `cur p` (ownership makes
   the per-worker key sets disjoint).
   Phase 2 (pending = None): each event is forwarded, and `delivered` folds them exactly as `latest`
   does. *)
From Quiver Require Import Base.
From Quiver Require Import sel.Select sel.SelectSpec sel.SelectProofs.

(* ------------------------------------------------------------------------------------------ *)
(* association lists: answers *)

Lemma ans_get_In : forall p a v, ans_get p a = Some v -> In (p, v) a.
Proof.
  induction a as [|[q u] r IH]; simpl; intros v H; [discriminate|].
  destruct (Nat.eqb p q) eqn:E.
  - apply Nat.eqb_eq in E. subst q. injection H as ->. left; reflexivity.
  - right; auto.
Qed.

Lemma ans_get_None_notin : forall p a, ans_get p a = None -> forall v, ~ In (p, v) a.
Proof.
  induction a as [|[q u] r IH]; simpl; intros H v Hin; [assumption|].
  destruct (Nat.eqb p q) eqn:E; [discriminate|].
  destruct Hin as [Heq|Hin].
  - injection Heq as Hq _. subst q. rewrite Nat.eqb_refl in E. discriminate.
  - exact (IH H v Hin).
Qed.

Lemma ans_get_NoDup_In : forall p v a, NoDup (map fst a) -> In (p, v) a -> ans_get p a = Some v.
Proof.
  induction a as [|[q u] r IH]; simpl; intros Hnd Hin; [contradiction|].
  inversion Hnd as [|x l Hnotin Hnd']; subst.
  destruct Hin as [Heq|Hin].
  - injection Heq as Hq Hu. subst q u. rewrite Nat.eqb_refl. reflexivity.
  - destruct (Nat.eqb p q) eqn:E.
    + apply Nat.eqb_eq in E. subst q. exfalso. apply Hnotin. apply in_map_iff.
      exists (p, v). split; auto.
    + auto.
Qed.

Lemma ans_get_insert : forall p q v a,
  ans_get p (ans_insert q v a) = if Nat.eqb p q then Some v else ans_get p a.
Proof.
  induction a as [|[k u] r IH]; simpl.
  - reflexivity.
  - destruct (Nat.eqb q k) eqn:E; simpl.
    + apply Nat.eqb_eq in E; subst k. destruct (Nat.eqb p q); reflexivity.
    + rewrite IH. destruct (Nat.eqb p k) eqn:E2; [|reflexivity].
      apply Nat.eqb_eq in E2; subst k. destruct (Nat.eqb p q) eqn:E3; [|reflexivity].
      apply Nat.eqb_eq in E3; subst. rewrite Nat.eqb_refl in E; discriminate.
Qed.

Lemma ans_get_extend_notin : forall p new old,
  (forall v, ~ In (p, v) new) -> ans_get p (ans_extend old new) = ans_get p old.
Proof.
  unfold ans_extend. induction new as [|[q u] r IH]; simpl; intros old H; [reflexivity|].
  rewrite IH by (intros v Hv; exact (H v (or_intror Hv))).
  rewrite ans_get_insert. destruct (Nat.eqb p q) eqn:E; [|reflexivity].
  apply Nat.eqb_eq in E; subst q. exfalso. exact (H u (or_introl eq_refl)).
Qed.

Lemma ans_get_extend_in : forall p v new old,
  In (p, v) new -> (forall v', In (p, v') new -> v' = v) ->
  ans_get p (ans_extend old new) = Some v.
Proof.
  induction new as [|[q u] r IH]; intros old Hin Hfun; [contradiction|].
  change (ans_extend old ((q, u) :: r)) with (ans_extend (ans_insert q u old) r).
  destruct (ans_get p r) as [v'|] eqn:E.
  - apply ans_get_In in E. assert (v' = v) by (apply Hfun; right; exact E). subst v'.
    apply IH; [exact E|]. intros v'' H; apply Hfun; right; exact H.
  - rewrite ans_get_extend_notin by (apply ans_get_None_notin; exact E).
    destruct Hin as [Heq|Hin].
    + injection Heq as Hq Hu. subst q u. rewrite ans_get_insert, Nat.eqb_refl. reflexivity.
    + exfalso. exact (ans_get_None_notin _ _ E _ Hin).
Qed.

(* HashMap::extend read at one key, when the new map has distinct keys *)
Lemma ans_get_extend : forall p old new, NoDup (map fst new) ->
  ans_get p (ans_extend old new) =
  match ans_get p new with Some v => Some v | None => ans_get p old end.
Proof.
  intros p old new Hnd. destruct (ans_get p new) as [v|] eqn:E.
  - apply ans_get_extend_in.
    + apply ans_get_In; exact E.
    + intros v' H. apply (ans_get_NoDup_In _ _ _ Hnd) in H. congruence.
  - apply ans_get_extend_notin. apply ans_get_None_notin; exact E.
Qed.

Lemma In_ans_insert : forall p v q u a,
  In (p, v) (ans_insert q u a) -> (p, v) = (q, u) \/ In (p, v) a.
Proof.
  induction a as [|[k x] r IH]; simpl; intros H.
  - destruct H as [H|[]]; left; symmetry; exact H.
  - destruct (Nat.eqb q k) eqn:E.
    + apply Nat.eqb_eq in E; subst k.
      destruct H as [H|H]; [left; symmetry; exact H | right; right; exact H].
    + destruct H as [H|H]; [right; left; exact H|]. destruct (IH H); auto.
Qed.

Lemma keys_ans_insert : forall k q u a,
  In k (map fst (ans_insert q u a)) -> k = q \/ In k (map fst a).
Proof.
  induction a as [|[k' x] r IH]; simpl; intros H.
  - destruct H as [H|[]]; left; symmetry; exact H.
  - destruct (Nat.eqb q k') eqn:E; simpl in H.
    + apply Nat.eqb_eq in E; subst k'. destruct H; auto.
    + destruct H as [H|H]; auto. destruct (IH H); auto.
Qed.

Lemma NoDup_ans_insert : forall q u a, NoDup (map fst a) -> NoDup (map fst (ans_insert q u a)).
Proof.
  induction a as [|[k x] r IH]; simpl; intros H.
  - constructor; [intros []|constructor].
  - inversion H as [|? ? Hn Hd]; subst. destruct (Nat.eqb q k) eqn:E; simpl.
    + constructor; assumption.
    + constructor; [|auto]. intros Hin. apply keys_ans_insert in Hin.
      destruct Hin as [Hk|Hin]; [|contradiction].
      subst k. rewrite Nat.eqb_refl in E; discriminate.
Qed.

Lemma NoDup_ans_extend : forall new old,
  NoDup (map fst old) -> NoDup (map fst (ans_extend old new)).
Proof.
  unfold ans_extend; induction new as [|[q u] r IH]; simpl; intros old H; [exact H|].
  apply IH. apply NoDup_ans_insert; exact H.
Qed.

Lemma In_ans_extend : forall p v new old,
  In (p, v) (ans_extend old new) -> In (p, v) old \/ In (p, v) new.
Proof.
  unfold ans_extend; induction new as [|[q u] r IH]; simpl; intros old H; [left; exact H|].
  apply IH in H. destruct H as [H|H]; [|right; right; exact H].
  apply In_ans_insert in H.
  destruct H as [H|H]; [right; left; symmetry; exact H | left; exact H].
Qed.

(* ------------------------------------------------------------------------------------------ *)
(* association lists: responses *)

Lemma resp_get_In : forall w rs a, resp_get w rs = Some a -> In (w, a) rs.
Proof.
  induction rs as [|[x b] r IH]; simpl; intros a H; [discriminate|].
  destruct (Nat.eqb w x) eqn:E.
  - apply Nat.eqb_eq in E. subst x. injection H as ->. left; reflexivity.
  - right; auto.
Qed.

Lemma resp_get_NoDup_In : forall w a rs,
  NoDup (map fst rs) -> In (w, a) rs -> resp_get w rs = Some a.
Proof.
  induction rs as [|[x b] r IH]; simpl; intros Hnd Hin; [contradiction|].
  inversion Hnd as [|y l Hnotin Hnd']; subst.
  destruct Hin as [Heq|Hin].
  - injection Heq as Hx Hb. subst x b. rewrite Nat.eqb_refl. reflexivity.
  - destruct (Nat.eqb w x) eqn:E.
    + apply Nat.eqb_eq in E. subst x. exfalso. apply Hnotin. apply in_map_iff.
      exists (w, a). split; auto.
    + auto.
Qed.

Lemma resp_get_set : forall w' w s rs,
  resp_get w' (resp_set w s rs) = if Nat.eqb w' w then Some s else resp_get w' rs.
Proof.
  induction rs as [|[k u] r IH]; simpl.
  - reflexivity.
  - destruct (Nat.eqb w k) eqn:E; simpl.
    + apply Nat.eqb_eq in E; subst k. destruct (Nat.eqb w' w); reflexivity.
    + rewrite IH. destruct (Nat.eqb w' k) eqn:E2; [|reflexivity].
      apply Nat.eqb_eq in E2; subst k. destruct (Nat.eqb w' w) eqn:E3; [|reflexivity].
      apply Nat.eqb_eq in E3; subst. rewrite Nat.eqb_refl in E; discriminate.
Qed.

Lemma In_resp_set : forall w' a' w s rs,
  In (w', a') (resp_set w s rs) -> (w', a') = (w, s) \/ In (w', a') rs.
Proof.
  induction rs as [|[k x] r IH]; simpl; intros H.
  - destruct H as [H|[]]; left; symmetry; exact H.
  - destruct (Nat.eqb w k) eqn:E.
    + apply Nat.eqb_eq in E; subst k.
      destruct H as [H|H]; [left; symmetry; exact H | right; right; exact H].
    + destruct H as [H|H]; [right; left; exact H|]. destruct (IH H); auto.
Qed.

Lemma keys_resp_set : forall k w s rs,
  In k (map fst (resp_set w s rs)) -> k = w \/ In k (map fst rs).
Proof.
  induction rs as [|[k' x] r IH]; simpl; intros H.
  - destruct H as [H|[]]; left; symmetry; exact H.
  - destruct (Nat.eqb w k') eqn:E; simpl in H.
    + apply Nat.eqb_eq in E; subst k'. destruct H; auto.
    + destruct H as [H|H]; auto. destruct (IH H); auto.
Qed.

Lemma NoDup_resp_set : forall w s rs, NoDup (map fst rs) -> NoDup (map fst (resp_set w s rs)).
Proof.
  induction rs as [|[k x] r IH]; simpl; intros H.
  - constructor; [intros []|constructor].
  - inversion H as [|? ? Hn Hd]; subst. destruct (Nat.eqb w k) eqn:E; simpl.
    + constructor; assumption.
    + constructor; [|auto]. intros Hin. apply keys_resp_set in Hin.
      destruct Hin as [Hk|Hin]; [|contradiction].
      subst k. rewrite Nat.eqb_refl in E; discriminate.
Qed.

(* ------------------------------------------------------------------------------------------ *)
(* the run *)

Lemma env_run_cons_snd : forall m w a rest pa,
  snd (env_run m ((w, a) :: rest) pa) =
  snd (handle_process_results m w a pa) ++
  snd (env_run m rest (fst (handle_process_results m w a pa))).
Proof.
  intros. cbn [env_run]. destruct (handle_process_results m w a pa) as [pa1 o1].
  cbn [fst snd]. destruct (env_run m rest pa1); reflexivity.
Qed.

Definition fwd (e : wid * answer) : env_out := UpdateAwaitResults (snd e).

(* phase 2: every event is forwarded as is *)
Lemma env_run_None : forall m evs, env_run m evs None = (None, map fwd evs).
Proof.
  induction evs as [|[w a] rest IH]; [reflexivity|].
  cbn [env_run]. cbn [handle_process_results]. rewrite IH. reflexivity.
Qed.

Definition dfold (acc : answer) (outs : list env_out) : answer :=
  fold_left (fun acc o => match o with UpdateAwaitResults r => ans_extend acc r end) outs acc.

Lemma delivered_dfold : forall outs, delivered outs = dfold [] outs.
Proof. reflexivity. Qed.

Lemma dfold_fwd : forall p evs acc,
  (forall w a, In (w, a) evs -> NoDup (map fst a)) ->
  ans_get p (dfold acc (map fwd evs)) = latest p evs (ans_get p acc).
Proof.
  induction evs as [|[w a] rest IH]; intros acc H; [reflexivity|].
  change (dfold acc (map fwd ((w, a) :: rest))) with (dfold (ans_extend acc a) (map fwd rest)).
  rewrite IH by (intros w' a' Hin; exact (H w' a' (or_intror Hin))).
  rewrite ans_get_extend by (exact (H w a (or_introl eq_refl))).
  reflexivity.
Qed.

Section Await.
Variable owner : pid -> wid.

(* an answer with distinct keys, all owned by worker w *)
Definition owned (w : wid) (a : answer) : Prop :=
  NoDup (map fst a) /\ forall p v, In (p, v) a -> owner p = w.

(* phase-1 invariant; `cur p` is the latest answer the processed prefix gave for p *)
Definition Inv (cur : pid -> option (option nat)) (rs : list (wid * answer)) : Prop :=
  NoDup (map fst rs) /\
  (forall w a, In (w, a) rs -> owned w a) /\
  (forall p, cur p = match resp_get (owner p) rs with Some a => ans_get p a | None => None end).

Definition upd (cur : pid -> option (option nat)) (a : answer) (p : pid) : option (option nat) :=
  match ans_get p a with Some v => Some v | None => cur p end.

Definition stored_of (w : wid) (a : answer) (rs : list (wid * answer)) : answer :=
  match resp_get w rs with Some old => ans_extend old a | None => a end.

Lemma Inv_step : forall cur rs w a,
  Inv cur rs -> owned w a -> Inv (upd cur a) (resp_set w (stored_of w a rs) rs).
Proof.
  intros cur rs w a (Hnd & Hown & Hcur) [Hnda Howna].
  assert (Hs : owned w (stored_of w a rs)).
  { unfold stored_of. destruct (resp_get w rs) as [old|] eqn:E; [|split; assumption].
    apply resp_get_In in E. destruct (Hown _ _ E) as [Hndo Howno].
    split; [apply NoDup_ans_extend; exact Hndo|].
    intros p v H. apply In_ans_extend in H. destruct H; eauto. }
  split; [apply NoDup_resp_set; exact Hnd|]. split.
  - intros w' a' H. apply In_resp_set in H. destruct H as [H|H]; [|eauto].
    injection H as Hw Ha. subst w' a'. exact Hs.
  - intros p. rewrite resp_get_set. unfold upd. destruct (Nat.eqb (owner p) w) eqn:E.
    + apply Nat.eqb_eq in E. unfold stored_of. rewrite Hcur, E.
      destruct (resp_get w rs) as [old|].
      * rewrite ans_get_extend by exact Hnda. reflexivity.
      * destruct (ans_get p a); reflexivity.
    + destruct (ans_get p a) as [v|] eqn:E2; [|apply Hcur].
      apply ans_get_In in E2. apply Howna in E2. rewrite E2, Nat.eqb_refl in E. discriminate.
Qed.

(* what the single UpdateAwaitResults of phase 1 carries *)
Lemma Inv_flat : forall cur rs p,
  Inv cur rs -> ans_get p (ans_extend [] (flat_map snd rs)) = cur p.
Proof.
  intros cur rs p (Hnd & Hown & Hcur).
  assert (Hchar : forall v, In (p, v) (flat_map snd rs) ->
            exists a0, resp_get (owner p) rs = Some a0 /\ ans_get p a0 = Some v).
  { intros v H. apply in_flat_map in H. destruct H as [[w a0] [Hin Hpa]]. simpl in Hpa.
    destruct (Hown _ _ Hin) as [Hnda Howna]. pose proof (Howna _ _ Hpa) as Ho. subst w.
    exists a0. split; [apply resp_get_NoDup_In; assumption | apply ans_get_NoDup_In; assumption]. }
  rewrite Hcur. destruct (resp_get (owner p) rs) as [a0|] eqn:E.
  - destruct (ans_get p a0) as [v|] eqn:E2.
    + apply ans_get_extend_in.
      * apply in_flat_map. exists (owner p, a0). split; [apply resp_get_In; exact E|].
        simpl. apply ans_get_In; exact E2.
      * intros v' H. destruct (Hchar _ H) as [a1 [H1 H2]]. congruence.
    + rewrite ans_get_extend_notin; [reflexivity|].
      intros v H. destruct (Hchar _ H) as [a1 [H1 H2]]. congruence.
  - rewrite ans_get_extend_notin; [reflexivity|].
    intros v H. destruct (Hchar _ H) as [a1 [H1 H2]]. congruence.
Qed.

Lemma handle_true_some : forall w a ex rs,
  handle_process_results true w a (Some {| pa_expected := ex; pa_responses := rs |}) =
  match filter (fun x => negb (Nat.eqb x w)) ex with
  | [] => (None, [UpdateAwaitResults (flat_map snd (resp_set w (stored_of w a rs) rs))])
  | y :: l => (Some {| pa_expected := y :: l;
                       pa_responses := resp_set w (stored_of w a rs) rs |}, [])
  end.
Proof.
  intros. unfold handle_process_results, stored_of. cbn [pa_expected pa_responses].
  destruct (filter (fun x => negb (Nat.eqb x w)) ex); reflexivity.
Qed.

(* generalized statement: run from a pending record satisfying the invariant *)
Lemma phase1 : forall evs cur ex rs,
  Inv cur rs -> ex <> [] ->
  (forall w a, In (w, a) evs -> owned w a) ->
  (forall w, In w ex -> exists a, In (w, a) evs) ->
  forall p,
    ans_get p (delivered (snd (env_run true evs
                 (Some {| pa_expected := ex; pa_responses := rs |})))) =
    latest p evs (cur p).
Proof.
  induction evs as [|[w a] rest IH]; intros cur ex rs HI Hne Hev Hex p.
  - destruct ex as [|x ex']; [congruence|].
    destruct (Hex x (or_introl eq_refl)) as [a0 []].
  - assert (HI' : Inv (upd cur a) (resp_set w (stored_of w a rs) rs)).
    { apply Inv_step; [exact HI|]. apply Hev. left; reflexivity. }
    rewrite env_run_cons_snd, handle_true_some.
    change (latest p ((w, a) :: rest) (cur p)) with (latest p rest (upd cur a p)).
    destruct (filter (fun x => negb (Nat.eqb x w)) ex) as [|y l] eqn:EF; cbn [fst snd].
    + rewrite env_run_None. cbn [snd].
      change (delivered ([UpdateAwaitResults (flat_map snd (resp_set w (stored_of w a rs) rs))]
                           ++ map fwd rest))
        with (dfold (ans_extend [] (flat_map snd (resp_set w (stored_of w a rs) rs)))
                    (map fwd rest)).
      rewrite dfold_fwd.
      * rewrite (Inv_flat _ _ p HI'). reflexivity.
      * intros w' a' Hin. exact (proj1 (Hev w' a' (or_intror Hin))).
    + cbn [app]. apply IH.
      * exact HI'.
      * discriminate.
      * intros w' a' Hin. exact (Hev w' a' (or_intror Hin)).
      * intros w' Hin. rewrite <- EF in Hin. apply filter_In in Hin. destruct Hin as [Hin Hneq].
        destruct (Hex w' Hin) as [a' [Heq|Ha']]; [|exists a'; exact Ha'].
        injection Heq as Hw _. subst w'. rewrite Nat.eqb_refl in Hneq. discriminate.
Qed.

End Await.

(* ------------------------------------------------------------------------------------------ *)
(* the theorem *)

(* well-formedness of a history of ProcessResults events for one initial await:
   every target is owned by exactly one worker (`owner`), an event of worker w only talks about
   targets w owns, the keys inside one event are distinct (it is a HashMap), only expected workers
   ever answer, and every expected worker answers at least once *)
Definition wf_history (owner : pid -> wid) (expected : list wid) (evs : list (wid * answer)) : Prop :=
  NoDup expected /\
  (forall w a, In (w, a) evs -> In w expected /\ NoDup (map fst a) /\ forall p v, In (p, v) a -> owner p = w) /\
  (forall w, In w expected -> exists a, In (w, a) evs).

Theorem await_protocol_delivers_all :
  forall owner expected evs targets,
    wf_history owner expected evs ->
    delivers_all true expected evs targets.
Proof.
  intros owner expected evs targets (Hnd & Hev & Hall). unfold delivers_all. cbv zeta.
  intros p _.
  assert (E : ans_get p (delivered (snd (env_run true evs
                (Some {| pa_expected := expected; pa_responses := [] |})))) =
              latest p evs None).
  { destruct evs as [|[w a] rest]; [reflexivity|].
    apply (phase1 owner ((w, a) :: rest) (fun _ => None) expected []).
    - split; [constructor|]. split; [intros ? ? []|]. intros q. reflexivity.
    - intros ->. destruct (Hev w a (or_introl eq_refl)) as [[] _].
    - intros w' a' Hin. destruct (Hev w' a' Hin) as (_ & H1 & H2). split; assumption.
    - exact Hall. }
  destruct (latest p evs None) as [v|] eqn:EL; [|exact I].
  rewrite E. reflexivity.
Qed.

(* non-vacuity: 2 workers, 3 targets; worker 1 (owning targets 1 and 3) answers twice before
   worker 0 (owning target 2) answers once *)
Definition ex_owner (p : pid) : wid := if Nat.eqb p 2 then 0%nat else 1%nat.
Definition ex_events : list (wid * answer) :=
  [ (1%nat, [(1%nat, Some 11%nat); (3%nat, None)]);
    (1%nat, [(3%nat, Some 33%nat)]);
    (0%nat, [(2%nat, None)]) ].

Example wf_history_inhabited : wf_history ex_owner [0%nat; 1%nat] ex_events.
Proof.
  split; [|split].
  - constructor; [intros [H|[]]; discriminate|]. constructor; [intros []|constructor].
  - intros w a [H|[H|[H|[]]]]; injection H as Hw Ha; subst w a; cbn [In map fst].
    + split; [auto|]. split.
      * constructor; [intros [H|[]]; discriminate|]. constructor; [intros []|constructor].
      * intros p v [H|[H|[]]]; injection H as Hp _; subst p; reflexivity.
    + split; [auto|]. split.
      * constructor; [intros []|constructor].
      * intros p v [H|[]]; injection H as Hp _; subst p; reflexivity.
    + split; [auto|]. split.
      * constructor; [intros []|constructor].
      * intros p v [H|[]]; injection H as Hp _; subst p; reflexivity.
  - intros w [H|[H|[]]]; subst w.
    + exists [(2%nat, None)]. right; right; left; reflexivity.
    + exists [(3%nat, Some 33%nat)]. right; left; reflexivity.
Qed.

(* the theorem applied to it; target 3's final answer Some 33 does reach the awaiter *)
Example await_example_delivered :
  delivers_all true [0%nat; 1%nat] ex_events [1%nat; 3%nat; 2%nat] /\
  latest 3%nat ex_events None = Some (Some 33%nat).
Proof.
  split; [exact (await_protocol_delivers_all _ _ _ _ wf_history_inhabited) | reflexivity].
Qed.

Print Assumptions await_protocol_delivers_all.
