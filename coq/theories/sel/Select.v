(* Select.v — the select machine of quiver-core/src/executor.rs (handle_select and friends,
   executor.rs:2130-2706) for ONE process, as a re-entrant state machine.

   What is modelled exactly: the order in which sources are looked at on every entry, the
   two-phase filter protocol (call_receive_function returns from handle_select; the verdict is
   popped by handle_select_continuation at the next entry; handle_receive_result), the cursors
   (including the comparison against the *cloned* select state in scan_mailbox_for_message), the
   `receiving` slot (overwritten by a later call), when a message leaves the mailbox, the lazy
   `start_time` when there are awaited pids, the timeout arithmetic (u64 saturating_sub,
   `to_i64().unwrap_or(i64::MAX).max(0) as u64`), the scheduling flags of the process
   (`queue` / `selecting` membership, mark_selecting, check_expired_timeouts, the re-queue of
   notify_message / notify_result / mark_active) and next_timeout_ms.

   What is abstracted: a message is an opaque id with a "type class" (the ConcreteType that
   check_message_compatible looks up, executor.rs:1655); a receive source is the set of classes its
   parameter type admits plus "has no body" (is_type_only); the filter body is an oracle
   `verdict_of : receive index -> message -> verdict` consulted through the same two entries as the
   code; the operand stack is reduced to "the value complete_select pushed" (`p_value`); the heap /
   refcounts are C06's; the frame/instruction check of handle_select_continuation (nested selects)
   is not modelled (one select per run).

   `fix45 = false` is the code as it stands (finding F45: `awaiting` is never cleared and the
   failure of an awaited process kills unconditionally); `fix45 = true` is the proposed repair
   (/verif/hooks/fix_F45.patch). *)
From Quiver Require Import Base.

Definition pid := nat.
(* message = (opaque id, type class) *)
Definition msg := (nat * nat)%type.

Inductive value := VMsg (m : msg) | VNil | VVal (n : nat).

(* process error: an executor error class, or the (cloned) error of awaited process p *)
Inductive perr := PErr (e : err) | PAwaited (p : pid).

(* what a filter call ends in: a non-nil value (payload n), nil, or a runtime error *)
Inductive verdict := Truthy (n : nat) | VdNil | VdErr (e : err).

(* classification of a source VALUE, process_select_sources executor.rs:2279-2330:
   Integer -> timeout, Process -> await, Function/Builtin -> receive,
   Resource -> Err TypeMismatch, anything else -> Err InvalidArgument *)
Inductive source :=
| SrcProc (p : pid)
| SrcRecv (classes : list nat) (type_only : bool)
| SrcTimeout (d : Z)
| SrcBad (e : err).

Definition is_recv (s : source) : bool := match s with SrcRecv _ _ => true | _ => false end.
Definition count_recv (l : list source) : nat := length (filter is_recv l).
Fixpoint pids_of (l : list source) : list pid :=
  match l with
  | [] => []
  | SrcProc p :: r => p :: pids_of r
  | _ :: r => pids_of r
  end.

(* check_message_compatible, executor.rs:1655: membership of the concrete type in the set *)
Definition compat (classes : list nat) (m : msg) : bool := existsb (Nat.eqb (snd m)) classes.

(* process.rs:118 SelectState (frame/instruction omitted) *)
Record sel_state := {
  ss_sources : list source;
  ss_cursors : list nat;
  ss_start : option Z;
  ss_receiving : option (nat * msg);
}.

(* the part of process.rs:133 Process + the executor's queue/selecting membership the select sees *)
Record proc := {
  p_mailbox : list msg;
  p_awaiting : list (pid * option value);   (* HashMap: insertion replaces *)
  p_sel : option sel_state;
  p_queued : bool;
  p_selecting : bool;
  p_value : option value;                    (* pushed by complete_select *)
  p_error : option perr;                     (* result = Some(Err _), frames cleared *)
  p_unreported : list pid;                   (* unreported_awaits (process.rs:143, since 8388832): awaited
                                                targets whose state has not been reported yet *)
}.

(* ---- HashMap<ProcessId, Option<Value>> ---- *)
Fixpoint aw_get (p : pid) (aw : list (pid * option value)) : option (option value) :=
  match aw with
  | [] => None
  | (q, v) :: r => if Nat.eqb p q then Some v else aw_get p r
  end.
Fixpoint aw_insert (p : pid) (v : option value) (aw : list (pid * option value)) :=
  match aw with
  | [] => [(p, v)]
  | (q, w) :: r => if Nat.eqb p q then (q, v) :: r else (q, w) :: aw_insert p v r
  end.
Fixpoint aw_remove (p : pid) (aw : list (pid * option value)) :=
  match aw with
  | [] => []
  | (q, w) :: r => if Nat.eqb p q then aw_remove p r else (q, w) :: aw_remove p r
  end.
Definition aw_has (p : pid) (aw : list (pid * option value)) : bool :=
  match aw_get p aw with Some _ => true | None => false end.

(* ---- Vec / VecDeque helpers ---- *)
Fixpoint remove_nth {A} (n : nat) (l : list A) : list A :=
  match n, l with
  | _, [] => []
  | O, _ :: r => r
  | S k, x :: r => x :: remove_nth k r
  end.
Fixpoint set_nth {A} (n : nat) (v : A) (l : list A) : list A :=
  match n, l with
  | _, [] => []
  | O, _ :: r => v :: r
  | S k, x :: r => x :: set_nth k v r
  end.
(* cursors.get(i).copied().unwrap_or(0) *)
Definition cur_get (r : nat) (cs : list nat) : nat := nth r cs O.

(* ---- timeouts ---- *)
Definition i64_max : Z := two63 - 1.
Definition u64_max : Z := two64 - 1.
(* timeout_ms.to_i64().unwrap_or(i64::MAX), executor.rs:2283 *)
Definition to_i64_or_max (d : Z) : Z := if in_i64 d then d else i64_max.
(* timeout_ms.max(0) as u64 *)
Definition eff_timeout (d : Z) : Z := Z.max (to_i64_or_max d) 0.
(* current_time_ms.saturating_sub(start_time) on u64 *)
Definition elapsed (now start : Z) : Z := Z.max (now - start) 0.
(* handle_select_timeout, executor.rs:2339: elapsed >= timeout *)
Definition timeout_ready (d start now : Z) : bool := eff_timeout d <=? elapsed now start.

(* ---- scan_mailbox_for_message's loop, executor.rs:2483-2531:
   `for (msg_idx, message) in mailbox.iter().enumerate().skip(cursor)`;
   an incompatible message moves `cursor` to msg_idx + 1 ---- *)
Inductive scan_res := Found (idx : nat) (m : msg) | NotFound (cursor : nat).
Fixpoint scan (classes : list nat) (l : list msg) (idx cursor : nat) : scan_res :=
  match l with
  | [] => NotFound cursor
  | m :: r => if compat classes m then Found idx m else scan classes r (S idx) (S idx)
  end.

(* result of looking at one receive source *)
Inductive rres :=
| RComplete (v : value) (mb : list msg)
| RCalled (s : sel_state)
| RContinue (s : sel_state)
| RErr (e : err) (s : sel_state)
| RPanic (site : nat).

(* result of one pass over the sources *)
Inductive sres :=
| SComplete (v : value) (mb : list msg)
| SCalled (s : sel_state)
| SPark (s : sel_state)
| SError (e : err) (s : sel_state)
| SPanic (site : nat).

Definition with_cursors (s : sel_state) (cs : list nat) : sel_state :=
  {| ss_sources := ss_sources s; ss_cursors := cs; ss_start := ss_start s; ss_receiving := ss_receiving s |}.
Definition with_receiving (s : sel_state) (r : option (nat * msg)) : sel_state :=
  {| ss_sources := ss_sources s; ss_cursors := ss_cursors s; ss_start := ss_start s; ss_receiving := r |}.
Definition with_start (s : sel_state) (t : option Z) : sel_state :=
  {| ss_sources := ss_sources s; ss_cursors := ss_cursors s; ss_start := t; ss_receiving := ss_receiving s |}.

(* `if msg_idx < mailbox.len() { mailbox.remove(msg_idx) }` *)
Definition take_msg (idx : nat) (mb : list msg) : list msg :=
  if Nat.ltb idx (length mb) then remove_nth idx mb else mb.

(* scan_mailbox_for_message, executor.rs:2465-2546.  `s0` is the clone of the select state taken
   at the top of process_select_sources; `s` is the live state.  call_receive_function
   (executor.rs:2549): `receiving = Some((receive_idx, message)); cursors[receive_idx] = msg_idx`
   (indexing panics when out of range), then the filter frame is pushed and handle_select returns. *)
Definition scan_mailbox (r : nat) (classes : list nat) (type_only : bool)
           (s0 s : sel_state) (mb : list msg) : rres :=
  let cursor := cur_get r (ss_cursors s) in
  match scan classes (skipn cursor mb) cursor cursor with
  | Found idx m =>
      if type_only then RComplete (VMsg m) (take_msg idx mb)
      else if Nat.ltb r (length (ss_cursors s))
           then RCalled (with_cursors (with_receiving s (Some (r, m))) (set_nth r idx (ss_cursors s)))
           else RPanic 2568
  | NotFound c =>
      if Nat.ltb (cur_get r (ss_cursors s0)) c
      then RContinue (if Nat.ltb r (length (ss_cursors s)) then with_cursors s (set_nth r c (ss_cursors s)) else s)
      else RContinue s
  end.

(* handle_select_receive + handle_receive_result, executor.rs:2374-2462.
   rr = the verdict popped by handle_select_continuation: None = nothing popped,
   Some (Some n) = a non-nil value, Some None = nil. *)
Definition handle_select_receive (r : nat) (classes : list nat) (type_only : bool)
           (rr : option (option nat)) (s0 s : sel_state) (mb : list msg) : rres :=
  match ss_receiving s0 with
  | Some (idx, m) =>
      if Nat.eqb idx r then
        match rr with
        | None => RErr InvalidArgument s        (* "Receive result should be present" *)
        | Some (Some _) =>
            (* accept: remove mailbox[cursors[receive_idx]] and complete with the held message *)
            RComplete (VMsg m) (take_msg (cur_get r (ss_cursors s)) mb)
        | Some None =>
            (* nil: cursors[receive_idx] += 1 (index panic), receiving.take(); then scan *)
            if Nat.ltb r (length (ss_cursors s))
            then scan_mailbox r classes type_only s0
                   (with_receiving (with_cursors s (set_nth r (S (cur_get r (ss_cursors s))) (ss_cursors s))) None) mb
            else RPanic 2451
        end
      else scan_mailbox r classes type_only s0 s mb
  | None => scan_mailbox r classes type_only s0 s mb
  end.

(* process_select_sources, executor.rs:2267-2336.  i-th source; r = number of receive sources
   before it (the code recomputes it as a count over sources[..src_idx]). *)
Fixpoint process_sources (s0 : sel_state) (rr : option (option nat)) (start now : Z)
         (aw : list (pid * option value)) (srcs : list source) (r : nat)
         (s : sel_state) (mb : list msg) : sres :=
  match srcs with
  | [] => SPark s                                  (* mark_selecting *)
  | SrcTimeout d :: rest =>
      if timeout_ready d start now then SComplete VNil mb
      else process_sources s0 rr start now aw rest r s mb
  | SrcProc p :: rest =>
      match aw_get p aw with
      | Some (Some v) => SComplete v mb
      | _ => process_sources s0 rr start now aw rest r s mb
      end
  | SrcRecv classes ty :: rest =>
      match handle_select_receive r classes ty rr s0 s mb with
      | RComplete v mb' => SComplete v mb'
      | RCalled s' => SCalled s'
      | RContinue s' => process_sources s0 rr start now aw rest (S r) s' mb
      | RErr e s' => SError e s'
      | RPanic n => SPanic n
      end
  | SrcBad e :: _ => SError e s
  end.

Section Machine.
(* the proposed repair of F45 on/off *)
Variable fix45 : bool.
(* the filter oracle: receive index -> message -> verdict (pure) *)
Variable verdict_of : nat -> msg -> verdict.
(* the written source list (the value the Select instruction pops) *)
Variable written : list source.

Definition set_flags (st : proc) (q sel : bool) : proc :=
  {| p_mailbox := p_mailbox st; p_awaiting := p_awaiting st; p_sel := p_sel st;
     p_queued := q; p_selecting := sel; p_value := p_value st; p_error := p_error st;
     p_unreported := p_unreported st |}.
Definition set_sel (st : proc) (s : option sel_state) : proc :=
  {| p_mailbox := p_mailbox st; p_awaiting := p_awaiting st; p_sel := s;
     p_queued := p_queued st; p_selecting := p_selecting st; p_value := p_value st; p_error := p_error st;
     p_unreported := p_unreported st |}.
Definition set_error (st : proc) (e : perr) : proc :=
  {| p_mailbox := p_mailbox st; p_awaiting := p_awaiting st; p_sel := p_sel st;
     p_queued := p_queued st; p_selecting := p_selecting st; p_value := p_value st; p_error := Some e;
     p_unreported := p_unreported st |}.
Definition set_awaiting (st : proc) (aw : list (pid * option value)) : proc :=
  {| p_mailbox := p_mailbox st; p_awaiting := aw; p_sel := p_sel st;
     p_queued := p_queued st; p_selecting := p_selecting st; p_value := p_value st; p_error := p_error st;
     p_unreported := p_unreported st |}.
Definition set_mailbox (st : proc) (mb : list msg) : proc :=
  {| p_mailbox := mb; p_awaiting := p_awaiting st; p_sel := p_sel st;
     p_queued := p_queued st; p_selecting := p_selecting st; p_value := p_value st; p_error := p_error st;
     p_unreported := p_unreported st |}.
Definition set_unreported (st : proc) (u : list pid) : proc :=
  {| p_mailbox := p_mailbox st; p_awaiting := p_awaiting st; p_sel := p_sel st;
     p_queued := p_queued st; p_selecting := p_selecting st; p_value := p_value st; p_error := p_error st;
     p_unreported := u |}.
(* notify_await_report, executor.rs:775: unreported_awaits.retain(|t| !targets.contains(t)) *)
Definition report (ps : list pid) (st : proc) : proc :=
  set_unreported st (filter (fun t => negb (existsb (Nat.eqb t) ps)) (p_unreported st)).


(* check_expired_timeouts, executor.rs:2676 (for this process) *)
Definition expired (s : sel_state) (now : Z) : bool :=
  match ss_start s with
  | Some t => existsb (fun src => match src with SrcTimeout d => timeout_ready d t now | _ => false end)
                      (ss_sources s)
  | None => false
  end.
Definition check_expired (now : Z) (st : proc) : proc :=
  if p_selecting st && match p_sel st with Some s => expired s now | None => false end
  then set_flags st true false
  else st.

(* the wake-up shared by notify_message / notify_result / mark_active:
   `if self.selecting.remove(&id) { self.queue.push_back(id) }` *)
Definition wake (st : proc) : proc :=
  if p_selecting st then set_flags st true false else st.

(* initialize_select, executor.rs:2166-2235 *)
Definition initialize_select (now : Z) (st : proc) : proc :=
  let pids := pids_of written in
  let s := {| ss_sources := written; ss_cursors := repeat O (count_recv written);
              ss_start := match pids with [] => Some now | _ => None end;
              ss_receiving := None |} in
  let st1 := set_sel st (Some s) in
  match pids with
  | [] => st1
  | _ => (* awaiting.insert(target, None) for every target; mark_selecting; Action::Await *)
      (* ...; unreported_awaits = pid_targets (since 8388832) *)
      set_flags (set_unreported
                   (set_awaiting st1 (fold_left (fun aw p => aw_insert p None aw) pids (p_awaiting st1)))
                   pids)
                false true
  end.

(* complete_select, executor.rs:2611-2644 (+ the repair: stop awaiting the select's targets) *)
Definition complete_select (st : proc) (srcs : list source) (v : value) (mb : list msg) : proc :=
  {| p_mailbox := mb;
     p_awaiting := if fix45 then fold_left (fun aw p => aw_remove p aw) (pids_of srcs) (p_awaiting st)
                   else p_awaiting st;
     p_sel := None; p_queued := p_queued st; p_selecting := p_selecting st;
     p_value := Some v; p_error := p_error st; p_unreported := p_unreported st |}.

(* One execution of the Select instruction by the process (handle_select, executor.rs:2582-2608),
   inside Executor::step (executor.rs:1093): check_expired_timeouts, pop the queue, run, and the
   bookkeeping after the slice (an error stores result=Err and clears the frames, so the process
   is finished and not re-queued; a parked process is not re-queued; otherwise it is).
   A filter that fails does so inside its own frame before the re-entry: it is accounted for at
   the step that would have re-entered. *)
Definition step (now : Z) (st0 : proc) : outcome proc :=
  let st := check_expired now st0 in
  if negb (p_queued st) then Val st                       (* not runnable: (false, None) *)
  else match p_error st with
  | Some _ => Val (set_flags st false (p_selecting st))   (* no frames: finished, leaves the queue *)
  | None =>
    match p_value st with
    | Some _ => Val st                                    (* beyond the select: not modelled *)
    | None =>
      match p_sel st with
      | None => Val (initialize_select now st)
      | Some s =>
          (* handle_select_continuation: pop the verdict iff `receiving` is set *)
          let popped := match ss_receiving s with
                        | Some (r, m) => Some (verdict_of r m)
                        | None => None
                        end in
          match popped with
          | Some (VdErr e) => Val (set_flags (set_error st (PErr e)) false (p_selecting st))
          | _ =>
            (* Phase 3 (since 8388832): until the await has reported every process source the
               woken select parks again without evaluating anything: mark_selecting; Ok(None) *)
            match p_unreported st with
            | _ :: _ => Val (set_flags st false true)
            | [] =>
            let rr := match popped with
                      | Some (Truthy n) => Some (Some n)
                      | Some VdNil => Some None
                      | _ => None
                      end in
            (* ensure_select_start_time *)
            let start := match ss_start s with Some t => t | None => now end in
            let s1 := with_start s (Some start) in
            match process_sources s1 rr start now (p_awaiting st) (ss_sources s1) O s1 (p_mailbox st) with
            | SComplete v mb => Val (complete_select st (ss_sources s1) v mb)
            | SCalled s' => Val (set_sel st (Some s'))
            | SPark s' => Val (set_flags (set_sel st (Some s')) false true)
            | SError e s' => Val (set_flags (set_error (set_sel st (Some s')) (PErr e)) false (p_selecting st))
            | SPanic n => Panic n
            end
            end
          end
      end
    end
  end.

(* The Action that Executor::step returns for this slice (its second component), as far as the
   select is concerned: only initialize_select with awaited pids returns one,
   `Action::Await { targets: pid_targets, caller }` (executor.rs:2228); the slice then ends parked. *)
Definition step_action (now : Z) (st0 : proc) : option (list pid) :=
  let st := check_expired now st0 in
  if negb (p_queued st) then None
  else match p_error st, p_value st, p_sel st with
       | None, None, None => match pids_of written with [] => None | ps => Some ps end
       | _, _, _ => None
       end.

(* arrivals between entries *)
Inductive event :=
| EStep (now : Z)                        (* an Executor::step that executes the Select instruction
                                            (or finds the process not runnable) *)
| EMsg (m : msg)                         (* notify_message, executor.rs:831 *)
| EResult (p : pid) (v : value)          (* notify_result, executor.rs:753 *)
| EFail (p : pid)                        (* worker.rs:577 notify_result Err arm (the repair only wakes
                                            an awaiter that no longer awaits p) *)
| EActive                                (* mark_active, executor.rs:871 *)
| ELocal (p : pid) (r : option value)    (* awaited process finishes on the same executor:
                                            Executor::step awaiters loop, executor.rs:1245-1280 *)
| ETick (now : Z)                        (* an Executor::step that runs ANOTHER process: only its
                                            check_expired_timeouts(now) concerns this one *)
| EReport (ps : list pid).               (* notify_await_report, executor.rs:775 (Worker::
                                            update_await_results reports every key of an answer) *)

(* notify_result, executor.rs:784: a result for a key that is no longer awaited only wakes; otherwise
   it reports the state of its process (notify_await_report), is stored, and wakes *)
Definition notify_result (p : pid) (v : value) (st : proc) : proc :=
  wake (if fix45 && negb (aw_has p (p_awaiting st)) then st
        else set_awaiting (report [p] st) (aw_insert p (Some v) (p_awaiting st))).

Definition apply_event (ev : event) (st : proc) : outcome proc :=
  match ev with
  | EStep now => step now st
  | EMsg m => Val (wake (set_mailbox st (p_mailbox st ++ [m])))
  | EResult p v => Val (notify_result p v st)
  | EFail p => Val (if fix45 && negb (aw_has p (p_awaiting st)) then wake st else set_error st (PAwaited p))
  | EActive => Val (wake st)
  | ELocal p r =>
      if aw_has p (p_awaiting st) then
        match r with
        | Some v => Val (notify_result p v st)
        | None => Val (set_error st (PAwaited p))
        end
      else Val st
  | ETick now => Val (check_expired now st)
  | EReport ps => Val (report ps st)
  end.

Fixpoint run (evs : list event) (st : proc) : outcome proc :=
  match evs with
  | [] => Val st
  | ev :: rest => st' <- apply_event ev st ;; run rest st'
  end.

(* next_timeout_ms, executor.rs:2656 (for this process): start.saturating_add(min timeout) *)
Fixpoint min_timeout (l : list source) : option Z :=
  match l with
  | [] => None
  | SrcTimeout d :: r =>
      match min_timeout r with Some t => Some (Z.min (eff_timeout d) t) | None => Some (eff_timeout d) end
  | _ :: r => min_timeout r
  end.
Definition next_timeout (st : proc) : option Z :=
  if p_selecting st then
    match p_sel st with
    | Some s => match ss_start s, min_timeout (ss_sources s) with
                | Some t, Some d => Some (Z.min (t + d) u64_max)
                | _, _ => None
                end
    | None => None
    end
  else None.

End Machine.

(* a process about to execute its select: runnable, nothing selected yet *)
Definition initial (mb : list msg) (aw : list (pid * option value)) : proc :=
  {| p_mailbox := mb; p_awaiting := aw; p_sel := None; p_queued := true; p_selecting := false;
     p_value := None; p_error := None; p_unreported := [] |}.
