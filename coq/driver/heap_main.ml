(* Driver for the extracted heap-accounting model (theories/heap/HeapVm.v).
   stdin: one trace per line, as printed by harness/src/bin/qv_heap.rs after the tab:
     (trace (prog ..) (workers K) <op> <dump> <op> <dump> ..)
   Every <op> is replayed on the model executor it names; the model's state is then rendered in
   the format of the real dump and compared as a string (refcounts, freed, free, pending_free,
   constant cache, bytes of every live slot, and the full value skeleton of every process).
   The model is run as the code is committed (fix_F9 and fix_F46 applied); if that disagrees, the
   pre-repair variants are tried so that a regression is named rather than just reported.
   stdout: (agree <ops> current|f9-f45-regressed|f46-regressed|f9-f45-f46-regressed) | (disagree (op k) <op> (model ..) (real ..)) | (empty) *)
open Heap_model

let rec nat_of_int n = if n <= 0 then O else S (nat_of_int (n - 1))
let rec int_of_nat = function O -> 0 | S n -> 1 + int_of_nat n
let rec pos_of_bits = function
  | [] -> failwith "pos_of_bits" | [true] -> XH
  | b :: t -> if b then XI (pos_of_bits t) else XO (pos_of_bits t)
let z_of_string (s : string) : z =
  let neg = String.length s > 0 && s.[0] = '-' in
  let s' = if neg then String.sub s 1 (String.length s - 1) else s in
  match Sexp.bits_of_decimal s' with
  | [] -> Z0
  | bits -> if neg then Zneg (pos_of_bits bits) else Zpos (pos_of_bits bits)
let rec bits_of_pos = function XH -> [true] | XO p -> false :: bits_of_pos p | XI p -> true :: bits_of_pos p
let string_of_z = function
  | Z0 -> "0"
  | Zpos p -> Sexp.decimal_of_bits (bits_of_pos p)
  | Zneg p -> "-" ^ Sexp.decimal_of_bits (bits_of_pos p)
let rec int_of_pos = function XH -> 1 | XO p -> 2 * int_of_pos p | XI p -> 2 * int_of_pos p + 1
let int_of_z = function Z0 -> 0 | Zpos p -> int_of_pos p | Zneg p -> - (int_of_pos p)
let rec pos_of_int n = if n = 1 then XH else if n land 1 = 0 then XO (pos_of_int (n lsr 1)) else XI (pos_of_int (n lsr 1))
let z_of_int n = if n = 0 then Z0 else if n > 0 then Zpos (pos_of_int n) else Zneg (pos_of_int (-n))

let unhex (s : string) : z list =
  let s = if String.length s > 0 && s.[0] = 'x' then String.sub s 1 (String.length s - 1) else s in
  List.init (String.length s / 2) (fun i -> z_of_int (int_of_string ("0x" ^ String.sub s (2 * i) 2)))
let hex (l : z list) : string = String.concat "" (List.map (fun b -> Printf.sprintf "%02x" (int_of_z b)) l)

let ios s = int_of_string (Sexp.atom s)
let nos s = nat_of_int (ios s)

(* refs are 64-bit: interned to small numbers, printed back through the table *)
let ref_tbl : (string, int) Hashtbl.t = Hashtbl.create 16
let ref_names : (int, string) Hashtbl.t = Hashtbl.create 16
let intern_ref s =
  match Hashtbl.find_opt ref_tbl s with
  | Some i -> i
  | None -> let i = Hashtbl.length ref_tbl in Hashtbl.add ref_tbl s i; Hashtbl.add ref_names i s; i

let rec value_of (s : Sexp.t) : value =
  match s with
  | Sexp.List [Sexp.Atom "i"; n] -> VInt (z_of_string (Sexp.atom n))
  | Sexp.List [Sexp.Atom "b"; i] -> VBin (nos i)
  | Sexp.List [Sexp.Atom "bc"; _] -> failwith "constant binary at run time"
  | Sexp.List [Sexp.Atom "r"; n] -> VRef (nat_of_int (intern_ref (Sexp.atom n)))
  | Sexp.List (Sexp.Atom "t" :: t :: fs) -> VTuple (nos t, List.map value_of fs)
  | Sexp.List (Sexp.Atom "f" :: f :: cs) -> VFun (nos f, List.map value_of cs)
  | Sexp.List [Sexp.Atom "bi"; b] -> VBuiltin (nos b)
  | Sexp.List [Sexp.Atom "p"; p; f] -> VProc (nos p, nos f)
  | Sexp.List [Sexp.Atom "res"; r; t] -> VRes (nos r, nos t)
  | _ -> failwith ("bad value " ^ Sexp.to_string s)

let rec show_value (b : Buffer.t) (v : value) : unit =
  match v with
  | VInt z -> Buffer.add_string b ("(i " ^ string_of_z z ^ ")")
  | VBin i -> Buffer.add_string b (Printf.sprintf "(b %d)" (int_of_nat i))
  | VRef r -> Buffer.add_string b ("(r " ^ (try Hashtbl.find ref_names (int_of_nat r) with Not_found -> "?") ^ ")")
  | VTuple (t, fs) ->
    Buffer.add_string b (Printf.sprintf "(t %d" (int_of_nat t));
    List.iter (fun f -> Buffer.add_char b ' '; show_value b f) fs; Buffer.add_char b ')'
  | VFun (f, cs) ->
    Buffer.add_string b (Printf.sprintf "(f %d" (int_of_nat f));
    List.iter (fun f -> Buffer.add_char b ' '; show_value b f) cs; Buffer.add_char b ')'
  | VBuiltin i -> Buffer.add_string b (Printf.sprintf "(bi %d)" (int_of_nat i))
  | VProc (p, f) -> Buffer.add_string b (Printf.sprintf "(p %d %d)" (int_of_nat p) (int_of_nat f))
  | VRes (r, t) -> Buffer.add_string b (Printf.sprintf "(res %d %d)" (int_of_nat r) (int_of_nat t))

let show_values b tag vs =
  Buffer.add_char b '('; Buffer.add_string b tag;
  List.iter (fun v -> Buffer.add_char b ' '; show_value b v) vs; Buffer.add_char b ')'
let show_nats b tag ns =
  Buffer.add_char b '('; Buffer.add_string b tag;
  List.iter (fun n -> Buffer.add_string b (Printf.sprintf " %d" (int_of_nat n))) ns; Buffer.add_char b ')'

let show_exec (x : exec) : string =
  let b = Buffer.create 1024 in
  let h = x.x_heap in
  Buffer.add_string b "(d ";
  show_nats b "rc" h.rcs;
  Buffer.add_string b " (fr"; List.iter (fun f -> Buffer.add_string b (if f then " 1" else " 0")) h.freed; Buffer.add_char b ')';
  Buffer.add_char b ' '; show_nats b "free" (List.rev h.free);
  Buffer.add_char b ' '; show_nats b "pf" (List.rev h.pending);
  Buffer.add_string b " (cb";
  List.iter (function Some i -> Buffer.add_string b (Printf.sprintf " %d" (int_of_nat i)) | None -> Buffer.add_string b " -") h.cbins;
  Buffer.add_string b ") (hb";
  List.iteri (fun i r ->
      let fr = try List.nth h.freed i with _ -> false in
      if fr then Buffer.add_string b " -" else Buffer.add_string b (" x" ^ hex (bytes_of r))) h.cells;
  Buffer.add_string b ") (procs";
  let procs = List.sort (fun (a, _) (c, _) -> compare (int_of_nat a) (int_of_nat c)) x.x_procs in
  List.iter (fun (pid, p) ->
      Buffer.add_string b (Printf.sprintf " (%d " (int_of_nat pid));
      show_values b "st" (List.rev p.p_stack); Buffer.add_char b ' ';
      show_values b "lo" p.p_locals;
      Buffer.add_string b " (fs";
      List.iter (fun fr -> Buffer.add_string b (Printf.sprintf " (%d %d %d %d)" (int_of_nat fr.fr_fn) (int_of_nat fr.fr_base) (int_of_nat fr.fr_caps) (int_of_nat fr.fr_pc))) (List.rev p.p_frames);
      Buffer.add_string b ") ";
      show_values b "mb" p.p_mailbox;
      (match p.p_result with
       | None -> Buffer.add_string b " (res none)"
       | Some None -> Buffer.add_string b " (res err)"
       | Some (Some v) -> Buffer.add_string b " (res "; show_value b v; Buffer.add_char b ')');
      (match p.p_sel with
       | None -> Buffer.add_string b " (sel none)"
       | Some ss ->
         Buffer.add_string b (Printf.sprintf " (sel %d %d " (int_of_nat ss.ss_frame) (int_of_nat ss.ss_instr));
         show_values b "src" ss.ss_sources; Buffer.add_char b ' ';
         show_nats b "cur" ss.ss_cursors;
         (match ss.ss_recv with
          | None -> Buffer.add_string b " (recv none)"
          | Some (i, v) -> Buffer.add_string b (Printf.sprintf " (recv %d " (int_of_nat i)); show_value b v; Buffer.add_char b ')');
         (match ss.ss_start with
          | None -> Buffer.add_string b " (t0 none)"
          | Some t -> Buffer.add_string b (" (t0 " ^ string_of_z t ^ ")"));
         Buffer.add_char b ')');
      let aw = List.sort (fun (a, _) (c, _) -> compare (int_of_nat a) (int_of_nat c)) p.p_await in
      Buffer.add_string b " (aw";
      List.iter (fun (k, v) ->
          match v with
          | None -> Buffer.add_string b (Printf.sprintf " (%d none)" (int_of_nat k))
          | Some v -> Buffer.add_string b (Printf.sprintf " (%d " (int_of_nat k)); show_value b v; Buffer.add_char b ')') aw;
      Buffer.add_string b ") ";
      show_nats b "ur" p.p_unreported;
      Buffer.add_string b (Printf.sprintf " (pers %d))" (if p.p_pers then 1 else 0))) procs;
  Buffer.add_string b "))";
  Buffer.contents b

let instr_of (s : Sexp.t) : instr =
  match s with
  | Sexp.List (Sexp.Atom h :: args) ->
    let a i = ios (List.nth args i) in
    let n i = nat_of_int (a i) in
    (match h with
     | "constant" -> IConstant (n 0) | "pop" -> IPop | "dup" -> IDuplicate | "pick" -> IPick (n 0)
     | "rotate" -> IRotate (n 0) | "reset" -> IReset (n 0) | "load" -> ILoad (n 0) | "store" -> IStore
     | "tuple" -> ITuple (n 0) | "get" -> IGet (n 0) | "istype" -> IIsType (n 0)
     | "jump" -> IJump (z_of_int (a 0)) | "jumpif" -> IJumpIf (z_of_int (a 0)) | "call" -> ICall
     | "tailcall" -> ITailCall (a 0 = 1) | "function" -> IFunction (n 0) | "builtin" -> IBuiltin (n 0)
     | "equal" -> IEqual (n 0) | "not" -> INot | "spawn" -> ISpawn | "send" -> ISend | "self" -> ISelf
     | "select" -> ISelect | "process" -> IProcess (n 0, n 1)
     | _ -> failwith ("unknown instruction " ^ h))
  | _ -> failwith "bad instruction"

let field name (l : Sexp.t list) : Sexp.t list =
  let rec go = function
    | Sexp.List (Sexp.Atom n :: rest) :: _ when n = name -> rest
    | _ :: t -> go t
    | [] -> failwith ("missing field " ^ name) in
  go l

let ctypes_of (s : Sexp.t) : ctype list =
  List.map (fun c -> match c with
      | Sexp.List [k; n] -> CT (nos k, nos n)
      | _ -> failwith "bad ctype") (Sexp.list s)

let program_of (fields : Sexp.t list) : hprogram =
  let consts = List.map (fun c -> match c with
      | Sexp.List [Sexp.Atom "i"; n] -> HInt (z_of_string (Sexp.atom n))
      | Sexp.List [Sexp.Atom "b"; h] -> HBin (unhex (Sexp.atom h))
      | _ -> failwith "bad constant") (field "consts" fields) in
  let fns = List.map (fun f -> match f with
      | Sexp.List [caps; Sexp.List ins] -> { f_code = List.map instr_of ins; f_caps = nos caps }
      | _ -> failwith "bad fn") (field "funcs" fields) in
  { hp_consts = consts; hp_funcs = fns;
    hp_tuples = List.map nos (field "tuples" fields);
    hp_nb = nos (List.hd (field "nb" fields));
    hp_fparam = List.map ctypes_of (field "fparam" fields);
    hp_bparam = List.map ctypes_of (field "bparam" fields) }

let heap_of (l : Sexp.t list) : z list list = List.map (fun h -> unhex (Sexp.atom h)) l

exception Model_stop of string

let show_outcome = function
  | Err _ -> "(model-outcome err)"
  | Panic n -> Printf.sprintf "(model-outcome panic %d)" (int_of_nat n)
  | Val _ -> "(val)"

(* run one op on the model; returns the executor index it touched *)
let run_op (fx : bool) (f46 : bool) (prog : hprogram) (xs : exec array) (op : Sexp.t) : int =
  let get = function Val a -> a | o -> raise (Model_stop (show_outcome o)) in
  match op with
  | Sexp.List (Sexp.Atom "spawn" :: e :: pid :: fn :: pers :: Sexp.List (Sexp.Atom "caps" :: caps) :: arg :: Sexp.List (Sexp.Atom "heap" :: data) :: []) ->
    let e = ios e in
    xs.(e) <- get ((if f46 then spawn_process_f46 else spawn_process) xs.(e) (nos pid) (Some (nos fn)) (List.map value_of caps) (value_of arg) (heap_of data) (ios pers = 1)); e
  | Sexp.List [Sexp.Atom "nspawn"; e; caller; pv] ->
    let e = ios e in
    xs.(e) <- get (notify_spawn xs.(e) (nos caller) (value_of pv)); e
  | Sexp.List [Sexp.Atom "msg"; e; target; v; Sexp.List (Sexp.Atom "heap" :: data)] ->
    let e = ios e in
    xs.(e) <- get (notify_message xs.(e) (nos target) (value_of v) (heap_of data)); e
  | Sexp.List [Sexp.Atom "result"; e; awaiter; awaited; v; Sexp.List (Sexp.Atom "heap" :: data)] ->
    let e = ios e in
    xs.(e) <- get (notify_result fx xs.(e) (nos awaiter) (nos awaited) (value_of v) (heap_of data)); e
  | Sexp.List [Sexp.Atom "report"; e; awaiter; Sexp.List (Sexp.Atom "t" :: ts)] ->
    let e = ios e in
    xs.(e) <- report_await xs.(e) (nos awaiter) (List.map nos ts); e
  | Sexp.List [Sexp.Atom "fail"; e; awaiter; awaited] ->
    let e = ios e in
    xs.(e) <- fail_result fx xs.(e) (nos awaiter) (nos awaited); e
  | Sexp.List [Sexp.Atom "orphans"; e; pid; Sexp.List (Sexp.Atom "keep" :: ks)] ->
    let e = ios e in
    xs.(e) <- get (release_orphan_locals xs.(e) (nos pid) (List.map nos ks)); e
  | Sexp.List [Sexp.Atom "replace"; e; pid; Sexp.List (Sexp.Atom "keep" :: ks)] ->
    let e = ios e in
    xs.(e) <- get (compact_locals xs.(e) (nos pid) (List.map nos ks)); e
  | Sexp.List [Sexp.Atom "extract"; e; v; v'; Sexp.List (Sexp.Atom "heap" :: data)] ->
    let e = ios e in
    let (mv, mdata) = get (extract xs.(e).x_heap (value_of v)) in
    let b1 = Buffer.create 64 and b2 = Buffer.create 64 in
    show_value b1 mv; show_value b2 (value_of v');
    if Buffer.contents b1 <> Buffer.contents b2 || List.map hex mdata <> List.map hex (heap_of data) then
      raise (Model_stop ("(extract-differs " ^ Buffer.contents b1 ^ " " ^ String.concat " " (List.map hex mdata) ^ ")"));
    e
  | Sexp.List (Sexp.Atom "step" :: e :: pid :: now :: rest) ->
    let e = ios e in
    let pid = if Sexp.atom pid = "none" then None else Some (nos pid) in
    let x = (match field "x" rest with [Sexp.Atom "none"] -> None | [v] -> Some (value_of v) | _ -> None) in
    let xb = ios (List.hd (field "xb" rest)) = 1 in
    let err = ios (List.hd (field "err" rest)) = 1 in
    let tbl = List.map (fun a -> match a with
        | Sexp.List [i; h] -> (nos i, unhex (Sexp.atom h))
        | _ -> failwith "bad alloc") (field "allocs" rest) in
    let ext = { hx_value = (if err then None else x); hx_bool = xb;
                hx_effects = List.map (fun _ -> BAllocTbl tbl) tbl;
                hx_now = z_of_string (Sexp.atom now) } in
    xs.(e) <- get (exec_step fx prog xs.(e) pid (S O) [ext] ext); e
  | _ -> failwith ("bad op " ^ Sexp.to_string op)

let replay (fx : bool) (f46 : bool) (items : Sexp.t list) : (int, string) result =
  match items with
  | Sexp.List (Sexp.Atom "prog" :: pf) :: Sexp.List [Sexp.Atom "workers"; k] :: ops ->
    let prog = program_of pf in
    let xs = Array.make (ios k) { x_heap = empty_heap; x_procs = [] } in
    let rec go n = function
      | op :: dump :: rest ->
        (match (try Ok (run_op fx f46 prog xs op) with Model_stop m -> Error m) with
         | Error m -> Error (Printf.sprintf "(op %d) %s (model %s)" n (Sexp.to_string op) m)
         | Ok e ->
           let m = show_exec xs.(e) in
           let r = Sexp.to_string dump in
           if m = r then go (n + 1) rest
           else Error (Printf.sprintf "(op %d) %s (model %s) (real %s)" n (Sexp.to_string op) m r))
      | _ -> Ok n in
    go 0 ops
  | _ -> Error "(bad-trace)"

let () =
  try
    while true do
      let line = input_line stdin in
      if String.length line < 8 then print_endline "(empty)"
      else begin
        let out =
          try
            match Sexp.parse line with
            | Sexp.List (Sexp.Atom "trace" :: []) -> "(empty)"
            | Sexp.List (Sexp.Atom "trace" :: items) ->
              (* the code as committed: fix_F9, fix_F45 (both under `fx`) and fix_F46 applied *)
              (match replay true true items with
               | Ok n -> Printf.sprintf "(agree %d current)" n
               | Error m1 ->
                 let rec try_modes = function
                   | [] -> "(disagree " ^ m1 ^ ")"
                   | (fx, f46, name) :: rest ->
                     (match replay fx f46 items with
                      | Ok n -> Printf.sprintf "(agree %d %s)" n name
                      | Error _ -> try_modes rest) in
                 try_modes [(false, true, "f9-f45-regressed"); (true, false, "f46-regressed"); (false, false, "f9-f45-f46-regressed")])
            | _ -> "(bad-trace)"
          with Failure m -> "(driver-failure \"" ^ String.escaped m ^ "\")"
             | Not_found -> "(driver-failure not-found)" in
        print_endline out
      end
    done
  with End_of_file -> ()
