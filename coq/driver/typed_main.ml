(* Driver for the C01 judgement (extracted from theories/typed/Typed.v).
   stdin, one case per line; stdout one line per case.

     (sigs)
        -> one line: (sig NAME PSPEC RSPEC)*   in the syntax of `qv_builtin --names`
     (judge (v V) (rtype N) (fns (TYPE PROC CAPS)+) (bis TYPE+) (resources NAME+) REG)
        V, REG exactly as harness/src/bin/qv_typed.rs prints them
        -> (verdict accept|reject|undecided|illformed) (wt 0|1) (depth D) (fo 0|1)
           and, when the verdict is reject: (lenient 0|1) (fnres 0|1)
             lenient: the judgement on the registry in which every Cycle and every tuple type with
                      a Cycle field (a variant of a recursive type) reads as top (only used to
                      classify a failure as "a component of a recursive type is typed wrongly"); fnres: the value inhabits the DECLARED result type of some
                      function of the program (classifies "the call site's type is narrower than
                      the callee's"); nevertop: the judgement with the empty union read as top;
                      fnreslen: fnres under the lenient reading; niltop: the judgement with the
                      nil type read as top
           wt: wt_valueb of the value (every tuple's fields inhabit its tuple type's field types)
           fo: the value holds no function/process (the fragment `inhabv_sound_fo` covers)
     (enum (t N) (depth D) (cap C) (fns ..) (bis ..) (resources ..) REG)
        -> (vals E+)   inhabitants of type id N (Typed.enum_inputs), as
           E ::= (i) | (b) | (r) | (t NAME|- (LABEL|- E)+) | (f C) | (p C) | (res NAME)
     (closed (t N) REG-parts..) -> 0|1   (Sem.closedb on the variable-opened registry)
     (core (fns (CTY CEXP)+) (e CEXP))
        the core fragment of typed/Core.v: the extracted judgement `infer` and evaluator `eval`
        CTY  ::= int | bin | (tup NAME|- (LABEL|- ..) CTY+) | (union CTY+)     NAME, LABEL: numbers;
                 one label entry per field
        CEXP ::= (int z) | (bin len) | (tup NAME|- (LABEL|- ..) CEXP+) | (var x) | (get CEXP i)
               | (getl CEXP LABEL) | (add CEXP CEXP)
               | (len CEXP) | (let x CEXP CEXP) | (letas x CTY CEXP CEXP)
               | (case x ((CPAT CEXP)+) CEXP) | (call f CEXP)
        CPAT ::= (pty CTY) | (ptup NAME|- (LABEL|- ..) (x|_)+)
        -> (ty CTY) (val CVAL) | (ty CTY) (val stuck) | (ty none)
           CVAL ::= (i z) | (b len) | (t NAME|- (LABEL|- ..) CVAL+)

   Integers and binary contents are not inspected by the judgement (Sem.Inh_int / Inh_bin hold
   for every z / b): the driver feeds 0 / the empty handle. Names and labels are interned to
   the nat codes of Types.v. *)
open Typed_model

let rec nat_of_int n = if n <= 0 then O else S (nat_of_int (n - 1))
let rec int_of_nat = function O -> 0 | S n -> 1 + int_of_nat n

(* ---- interning of names / labels / resource names *)
let tbl : (Stdlib.String.t, int) Hashtbl.t = Hashtbl.create 64
let rev : (int, Stdlib.String.t) Hashtbl.t = Hashtbl.create 64
let intern (s : Stdlib.String.t) : nat =
  match Hashtbl.find_opt tbl s with
  | Some k -> nat_of_int k
  | None ->
    let k = Hashtbl.length tbl in
    Hashtbl.add tbl s k; Hashtbl.add rev k s; nat_of_int k
let name_str (n : nat) : Stdlib.String.t =
  match Hashtbl.find_opt rev (int_of_nat n) with Some s -> s | None -> "?"

let is_dash = function Sexp.Atom "-" -> true | _ -> false
let opt_name s = if is_dash s then None else Some (intern (Sexp.atom s))
let nat_atom s = nat_of_int (int_of_string (Sexp.atom s))
let opt_id s = if is_dash s then None else Some (nat_atom s)

let ty_of (s : Sexp.t) : ty =
  match s with
  | Sexp.List (Sexp.Atom h :: a) ->
    (match h, a with
     | "int", [] -> TInteger | "bin", [] -> TBinary | "ref", [] -> TReference
     | "tuple", [t] -> TTuple (nat_atom t)
     | "partial", n :: fs ->
       TPartial (opt_name n, List.map (function Sexp.List [l; t] -> (intern (Sexp.atom l), nat_atom t) | _ -> failwith "bad partial field") fs)
     | "fn", [p; r; rc] -> TCallable (nat_atom p, nat_atom r, nat_atom rc)
     | "cycle", [d] -> TCycle (nat_atom d)
     | "union", vs -> TUnion (List.map nat_atom vs)
     | "proc", [s; r] -> TProcess (opt_id s, opt_id r)
     | "res", [r] -> TResource (intern (Sexp.atom r))
     | "var", [v] -> TVariable (intern (Sexp.atom v))
     | _ -> failwith ("bad type " ^ h))
  | _ -> failwith "bad type"

let tuple_of (s : Sexp.t) : tuple_info =
  match s with
  | Sexp.List (Sexp.Atom "tu" :: n :: fs) ->
    { tname = opt_name n;
      tfields = List.map (function Sexp.List [l; t] -> (opt_name l, nat_atom t) | _ -> failwith "bad tuple field") fs }
  | _ -> failwith "bad tuple"

let find key args =
  List.find_map (function Sexp.List (Sexp.Atom k :: rest) when k = key -> Some rest | _ -> None) args

let prog_of args : tprog =
  let reg = match find "reg" args with
    | Some [Sexp.List (Sexp.Atom "tuples" :: tus); Sexp.List (Sexp.Atom "types" :: tys)] ->
      { tuples = List.map tuple_of tus; types = List.map ty_of tys }
    | _ -> failwith "bad reg" in
  let fns = match find "fns" args with Some l -> l | None -> [] in
  let triple = function Sexp.List [a; b; c] -> (nat_atom a, nat_atom b, nat_atom c) | _ -> failwith "bad fn" in
  let fns = List.map triple fns in
  { tp_reg = reg;
    tp_fn_type = List.map (fun (a, _, _) -> a) fns;
    tp_fn_proc = List.map (fun (_, b, _) -> b) fns;
    tp_fn_caps = List.map (fun (_, _, c) -> c) fns;
    tp_bi_type = (match find "bis" args with Some l -> List.map nat_atom l | None -> []);
    tp_res = (match find "resources" args with Some l -> List.map (fun s -> intern (Sexp.atom s)) l | None -> []) }

let rec value_of (s : Sexp.t) : value0 =
  match s with
  | Sexp.List (Sexp.Atom h :: a) ->
    (match h, a with
     | "i", _ -> VInt0 Z0
     | "b", _ -> VBin0 O
     | "r", _ -> VRef0 O
     | "t", tid :: fs -> VTuple (nat_atom tid, List.map value_of fs)
     | "f", fid :: caps -> VFun0 (nat_atom fid, List.map value_of caps)
     | "bi", [b] -> VBuiltin (nat_atom b)
     | "p", [_; f] -> VProc0 (O, nat_atom f)
     | "res", [_; t] -> VRes0 (O, nat_atom t)
     | _ -> failwith ("bad value " ^ h))
  | _ -> failwith "bad value"

let rec first_order (v : value0) : bool =
  match v with
  | VTuple (_, fs) -> List.for_all first_order fs
  | VFun0 _ | VBuiltin _ | VProc0 _ -> false
  | _ -> true

let str_name = function None -> "-" | Some n -> Sexp.to_string (Sexp.Str (name_str n))

let rec dump_value (v : value) : Stdlib.String.t =
  match v with
  | VInt _ -> "(i)" | VBin _ -> "(b)" | VRef _ -> "(r)"
  | VTup (n, fs) ->
    Printf.sprintf "(t %s%s)" (str_name n)
      (String.concat "" (List.map (fun (l, x) -> Printf.sprintf " (%s %s)" (str_name l) (dump_value x)) fs))
  | VFun c -> Printf.sprintf "(f %d)" (int_of_nat c)
  | VProc c -> Printf.sprintf "(p %d)" (int_of_nat c)
  | VRes r -> Printf.sprintf "(res %s)" (str_name (Some r))

(* walk fuel (unions/cycles crossed at one value level), enumeration cap, signature depth *)
let walk_fuel = nat_of_int 48
let sig_cap = nat_of_int 6
let sig_depth = nat_of_int 2

let rec dump_spec = function
  | SInt -> "int" | SBin -> "bin"
  | STuple fs -> Printf.sprintf "(tuple - %s)" (String.concat " " (List.map (fun s -> "(- " ^ dump_spec s ^ ")") fs))
  | SUnion vs -> Printf.sprintf "(union %s)" (String.concat " " (List.map dump_spec vs))

let run_sigs () =
  let name cs = String.concat "" (List.map (fun c -> String.make 1 (Char.chr (int_of_nat c))) cs) in
  print_endline (String.concat " " (List.map (fun ((n, p), r) ->
      Printf.sprintf "(sig %s %s %s)" (name n) (dump_spec p) (dump_spec r)) sig_table))

(* lenient reading used ONLY to classify a failure: a tuple type one of whose fields is a
   back-reference (Cycle), i.e. a variant of a recursive type, reads as top (TCycle 0 is
   unconstrained in Sem.v), and so does every Cycle *)
let lenient_prog (p : tprog) : tprog =
  let reg = p.tp_reg in
  let is_cycle id = match lookup_type reg id with Some (TCycle _) -> true | _ -> false in
  let open_t = function
    | TCycle _ -> TCycle O
    | TTuple tid as t ->
      (match lookup_tuple reg tid with
       | Some info when List.exists (fun (_, ft) -> is_cycle ft) info.tfields -> TCycle O
       | _ -> t)
    | t -> t in
  { p with tp_reg = { reg with types = List.map open_t reg.types } }

let run_judge args =
  let p = prog_of args in
  let v = match find "v" args with Some [v] -> value_of v | _ -> failwith "no value" in
  let t = match find "rtype" args with Some [t] -> nat_atom t | _ -> failwith "no rtype" in
  let verdict = match judge p walk_fuel sig_cap sig_depth v t with
    | Accept -> "accept" | Reject -> "reject" | Undecided -> "undecided" | IllFormed -> "illformed" in
  let wt = wt_valueb p walk_fuel sig_cap sig_depth v in
  let depth = match erase p v with Some e -> int_of_nat (vdepth e) | None -> 0 in
  let extra =
    if verdict <> "reject" then "" else begin
      let len = (match judge (lenient_prog p) walk_fuel sig_cap sig_depth v t with Accept -> 1 | _ -> 0) in
      let fnres = List.exists (fun c ->
          match lookup_type p.tp_reg c with
          | Some (TCallable (_, r, _)) -> (match judge p walk_fuel sig_cap sig_depth v r with Accept -> true | _ -> false)
          | _ -> false) p.tp_fn_type in
      let never_top = { p with tp_reg = { p.tp_reg with types = List.map (function TUnion [] -> TCycle O | t -> t) p.tp_reg.types } } in
      let nt = (match judge never_top walk_fuel sig_cap sig_depth v t with Accept -> 1 | _ -> 0) in
      let lp = lenient_prog p in
      let fnreslen = List.exists (fun c ->
          match lookup_type p.tp_reg c with
          | Some (TCallable (_, r, _)) -> (match judge lp walk_fuel sig_cap sig_depth v r with Accept -> true | _ -> false)
          | _ -> false) p.tp_fn_type in
      (* the nil type `(tuple 0)` read as top: classifies "a type variable was instantiated to nil" *)
      let nil_top = { p with tp_reg = { p.tp_reg with types = List.map (function TTuple O -> TCycle O | t -> t) p.tp_reg.types } } in
      let nilt = (match judge nil_top walk_fuel sig_cap sig_depth v t with Accept -> 1 | _ -> 0) in
      Printf.sprintf " (lenient %d) (fnres %d) (nevertop %d) (fnreslen %d) (niltop %d)" len (if fnres then 1 else 0) nt (if fnreslen then 1 else 0) nilt
    end in
  Printf.printf "(verdict %s) (wt %d) (depth %d) (fo %d)%s\n" verdict (if wt then 1 else 0) depth
    (if first_order v then 1 else 0) extra

let run_enum args =
  let p = prog_of args in
  let t = match find "t" args with Some [t] -> nat_atom t | _ -> failwith "no type" in
  let depth = match find "depth" args with Some [d] -> nat_atom d | _ -> nat_of_int 3 in
  let cap = match find "cap" args with Some [c] -> nat_atom c | _ -> nat_of_int 8 in
  let vs = enum_inputs p walk_fuel cap depth t in
  Printf.printf "(vals %s)\n" (String.concat " " (List.map dump_value vs))

let run_closed args =
  let p = prog_of args in
  let t = match find "t" args with Some [t] -> nat_atom t | _ -> failwith "no type" in
  print_endline (if closedb (open_reg p.tp_reg) t then "1" else "0")

(* ---- the core fragment (typed/Core.v) *)
let rec pos_of_int n = if n <= 1 then XH else if n land 1 = 0 then XO (pos_of_int (n lsr 1)) else XI (pos_of_int (n lsr 1))
let z_of_int n = if n = 0 then Z0 else if n > 0 then Zpos (pos_of_int n) else Zneg (pos_of_int (- n))
let rec int_of_pos = function XH -> 1 | XO p -> 2 * int_of_pos p | XI p -> 2 * int_of_pos p + 1
let int_of_z = function Z0 -> 0 | Zpos p -> int_of_pos p | Zneg p -> - (int_of_pos p)

let core_name s = if is_dash s then None else Some (nat_atom s)
let core_shape n labs = match labs with
  | Sexp.List ls -> (core_name n, List.map core_name ls)
  | _ -> failwith "bad labels"

let rec cty_of (s : Sexp.t) : cty =
  match s with
  | Sexp.Atom "int" -> TyInt
  | Sexp.Atom "bin" -> TyBin
  | Sexp.List (Sexp.Atom "tup" :: n :: labs :: ts) -> TyTup (core_shape n labs, List.map cty_of ts)
  | Sexp.List (Sexp.Atom "union" :: ts) -> TyUnion (List.map cty_of ts)
  | _ -> failwith "bad core type"

let cpat_of (s : Sexp.t) : pat =
  match s with
  | Sexp.List [Sexp.Atom "pty"; t] -> PTy (cty_of t)
  | Sexp.List (Sexp.Atom "ptup" :: n :: labs :: bs) ->
    PTup (core_shape n labs, List.map (fun b -> if Sexp.atom b = "_" then None else Some (nat_atom b)) bs)
  | _ -> failwith "bad core pattern"

let rec cexp_of (s : Sexp.t) : exp =
  match s with
  | Sexp.List (Sexp.Atom h :: a) ->
    (match h, a with
     | "int", [z] -> EInt (z_of_int (int_of_string (Sexp.atom z)))
     | "bin", [l] -> EBinLit (nat_atom l)
     | "tup", n :: labs :: es -> ETup (core_shape n labs, List.map cexp_of es)
     | "getl", [e; l] -> EGetL (cexp_of e, nat_atom l)
     | "var", [x] -> EVar (nat_atom x)
     | "get", [e; i] -> EGet (cexp_of e, nat_atom i)
     | "add", [e1; e2] -> EAdd (cexp_of e1, cexp_of e2)
     | "len", [e] -> ELen (cexp_of e)
     | "let", [x; e1; e2] -> ELet (nat_atom x, cexp_of e1, cexp_of e2)
     | "letas", [x; t; e1; e2] -> ELetAs (nat_atom x, cty_of t, cexp_of e1, cexp_of e2)
     | "case", [x; Sexp.List brs; d] ->
       ECase (nat_atom x,
              List.map (function Sexp.List [p; b] -> (cpat_of p, cexp_of b) | _ -> failwith "bad branch") brs,
              cexp_of d)
     | "call", [f; e] -> ECall (nat_atom f, cexp_of e)
     | _ -> failwith ("bad core expression " ^ h))
  | _ -> failwith "bad core expression"

let str_cname = function None -> "-" | Some n -> string_of_int (int_of_nat n)
let str_shape (n, ls) = Printf.sprintf "%s (%s)" (str_cname n) (String.concat " " (List.map str_cname ls))
let rec dump_cty = function
  | TyInt -> "int" | TyBin -> "bin"
  | TyTup (sh, ts) -> Printf.sprintf "(tup %s%s)" (str_shape sh) (String.concat "" (List.map (fun t -> " " ^ dump_cty t) ts))
  | TyUnion ts -> Printf.sprintf "(union%s)" (String.concat "" (List.map (fun t -> " " ^ dump_cty t) ts))
let rec dump_cval = function
  | CInt z -> Printf.sprintf "(i %d)" (int_of_z z)
  | CBin l -> Printf.sprintf "(b %d)" (int_of_nat l)
  | CTup (sh, vs) -> Printf.sprintf "(t %s%s)" (str_shape sh) (String.concat "" (List.map (fun v -> " " ^ dump_cval v) vs))

let core_fuel = nat_of_int 400

let run_core args =
  let fns = match find "fns" args with
    | Some l -> List.map (function Sexp.List [t; b] -> (cty_of t, cexp_of b) | _ -> failwith "bad fn") l
    | None -> [] in
  let e = match find "e" args with Some [e] -> cexp_of e | _ -> failwith "no expression" in
  match infer_prog fns core_fuel e with
  | None -> print_endline "(ty none)"
  | Some t ->
    let v = match eval fns core_fuel [] e with Some v -> dump_cval v | None -> "stuck" in
    Printf.printf "(ty %s) (val %s)\n" (dump_cty t) v

let () =
  try
    while true do
      let line = input_line stdin in
      if String.length line > 0 && line.[0] <> '#' then begin
        Hashtbl.reset tbl; Hashtbl.reset rev;
        (try
           match Sexp.parse_all line with
           | [Sexp.List [Sexp.Atom "sigs"]] -> run_sigs ()
           | [Sexp.List (Sexp.Atom "judge" :: args)] -> run_judge args
           | [Sexp.List (Sexp.Atom "enum" :: args)] -> run_enum args
           | [Sexp.List (Sexp.Atom "closed" :: args)] -> run_closed args
           | [Sexp.List (Sexp.Atom "core" :: args)] -> run_core args
           | _ -> print_endline "(bad-case unknown)"
         with
         | Stack_overflow -> print_endline "(stack-overflow)"
         | Failure m -> print_endline ("(bad-case " ^ m ^ ")")
         | Not_found -> print_endline "(bad-case not-found)")
      end
    done
  with End_of_file -> ()
