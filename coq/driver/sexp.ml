(* Minimal s-expression reader/printer shared by the model drivers, plus conversions between
   OCaml ints/strings and the extracted Coq numerals (positive / Z / N / nat as inductives are
   defined in each extracted module, so the numeric conversions live in the drivers). *)
type t = Atom of string | Str of string | List of t list

let parse_all (s : string) : t list =
  let n = String.length s in
  let pos = ref 0 in
  let rec skip () = if !pos < n && (s.[!pos] = ' ' || s.[!pos] = '\t' || s.[!pos] = '\r') then (incr pos; skip ()) in
  let rec item () =
    skip ();
    if !pos >= n then failwith "sexp: unexpected end";
    match s.[!pos] with
    | '(' ->
      incr pos;
      let items = ref [] in
      let rec loop () =
        skip ();
        if !pos >= n then failwith "sexp: unterminated list";
        if s.[!pos] = ')' then incr pos else (items := item () :: !items; loop ()) in
      loop ();
      List (List.rev !items)
    | '"' ->
      incr pos;
      let b = Buffer.create 16 in
      while !pos < n && s.[!pos] <> '"' do
        if s.[!pos] = '\\' && !pos + 1 < n then begin
          incr pos;
          (match s.[!pos] with
           | 'n' -> Buffer.add_char b '\n' | 't' -> Buffer.add_char b '\t' | 'r' -> Buffer.add_char b '\r'
           | c -> Buffer.add_char b c)
        end else Buffer.add_char b s.[!pos];
        incr pos
      done;
      incr pos;
      Str (Buffer.contents b)
    | _ ->
      let start = !pos in
      while !pos < n && s.[!pos] <> ' ' && s.[!pos] <> '(' && s.[!pos] <> ')' && s.[!pos] <> '\t' do incr pos done;
      Atom (String.sub s start (!pos - start)) in
  let out = ref [] in
  let rec top () = skip (); if !pos < n then (out := item () :: !out; top ()) in
  top ();
  List.rev !out

let parse s = match parse_all s with [x] -> x | _ -> failwith "sexp: expected one expression"

let atom = function Atom a | Str a -> a | _ -> failwith "sexp: expected atom"
let list = function List l -> l | _ -> failwith "sexp: expected list"

let rec to_string = function
  | Atom a -> a
  | Str s -> "\"" ^ String.escaped s ^ "\""
  | List l -> "(" ^ String.concat " " (List.map to_string l) ^ ")"

(* decimal string <-> big naturals represented as little-endian base-10^k digit lists are avoided:
   we convert via repeated division on strings, which is enough for the sizes the checks use. *)

(* divide a non-negative decimal string by 2: returns (quotient string, remainder) *)
let div2 (s : string) : string * int =
  let b = Buffer.create (String.length s) in
  let carry = ref 0 in
  String.iter (fun c ->
      let d = !carry * 10 + (Char.code c - 48) in
      Buffer.add_char b (Char.chr (48 + d / 2));
      carry := d mod 2) s;
  let q = Buffer.contents b in
  (* strip leading zeros *)
  let i = ref 0 in
  while !i < String.length q - 1 && q.[!i] = '0' do incr i done;
  (String.sub q !i (String.length q - !i), !carry)

(* bits (LSB first) of a non-negative decimal string *)
let bits_of_decimal (s : string) : bool list =
  let rec go s acc = if s = "0" || s = "" then List.rev acc else let (q, r) = div2 s in go q ((r = 1) :: acc) in
  go s []

(* decimal string of a number given as bits LSB first *)
let decimal_of_bits (bits : bool list) : string =
  (* digits little-endian *)
  let digits = ref [| 0 |] in
  let double_add bit =
    let d = !digits in
    let n = Array.length d in
    let carry = ref (if bit then 1 else 0) in
    let out = Array.make (n + 1) 0 in
    for i = 0 to n - 1 do
      let v = d.(i) * 2 + !carry in
      out.(i) <- v mod 10; carry := v / 10
    done;
    out.(n) <- !carry;
    let len = ref (n + 1) in
    while !len > 1 && out.(!len - 1) = 0 do decr len done;
    digits := Array.sub out 0 !len in
  List.iter double_add (List.rev bits);
  let d = !digits in
  String.concat "" (List.rev (Array.to_list (Array.map string_of_int d)))
