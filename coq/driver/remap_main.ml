(* Driver for the extracted renaming validator (C10).
   stdin: lines produced by qv_package:
     (packaged (runs ..) (json ..) (k n) (merged ac|ts) (stats ..) (prog ac ..) (prog ts ..) (prog mg ..)
               (rho ts ..) (rho mg ..))
   stdout per line:
     (validated (ts accept|reject "<first failing check>") (mg accept|reject "..") (sizes nf ni ..))
   Every other line is answered with `(skip)`.
   `--emit`: for the same lines, check the model of value_to_instructions_from_cache against the real
   compiler's output (see emit_check): `(emit same n) | (emit differ ".." ) | (emit skip why)`. *)
open Remap_model

let rec nat_of_int n = if n <= 0 then O else S (nat_of_int (n - 1))
let rec int_of_nat = function O -> 0 | S n -> 1 + int_of_nat n

let rec pos_of_bits = function
  | [] -> failwith "pos_of_bits"
  | [true] -> XH
  | b :: t -> if b then XI (pos_of_bits t) else XO (pos_of_bits t)
let z_of_string (s : string) : z =
  let neg = String.length s > 0 && s.[0] = '-' in
  let s' = if neg then String.sub s 1 (String.length s - 1) else s in
  match Sexp.bits_of_decimal s' with
  | [] -> Z0
  | bits -> if neg then Zneg (pos_of_bits bits) else Zpos (pos_of_bits bits)
let rec pos_of_int n = if n = 1 then XH else if n land 1 = 0 then XO (pos_of_int (n lsr 1)) else XI (pos_of_int (n lsr 1))
let z_of_int n = if n = 0 then Z0 else if n > 0 then Zpos (pos_of_int n) else Zneg (pos_of_int (-n))
let unhex (s : string) : z list =
  List.init (String.length s / 2) (fun i -> z_of_int (int_of_string ("0x" ^ String.sub s (2 * i) 2)))
let str_of (s : string) : z list = List.init (String.length s) (fun i -> z_of_int (Char.code s.[i]))

let ios s = int_of_string (Sexp.atom s)
let nat s = nat_of_int (ios s)

(* `-` (bare atom) = None; a quoted string = Some *)
let opt_str = function
  | Sexp.Atom "-" -> None
  | Sexp.Str s -> Some (str_of s)
  | Sexp.Atom s -> Some (str_of s)
  | _ -> failwith "bad name"
let opt_nat = function Sexp.Atom "-" -> None | s -> Some (nat s)

let instr_of (s : Sexp.t) : instr =
  match s with
  | Sexp.List (Sexp.Atom h :: args) ->
    let a i = ios (List.nth args i) in
    (match h with
     | "const" -> IConstant (nat_of_int (a 0)) | "pop" -> IPop | "dup" -> IDuplicate
     | "pick" -> IPick (nat_of_int (a 0)) | "rot" -> IRotate (nat_of_int (a 0)) | "reset" -> IReset (nat_of_int (a 0))
     | "load" -> ILoad (nat_of_int (a 0)) | "store" -> IStore | "tuple" -> ITuple (nat_of_int (a 0))
     | "get" -> IGet (nat_of_int (a 0)) | "istype" -> IIsType (nat_of_int (a 0))
     | "jmp" -> IJump (z_of_int (a 0)) | "jmpif" -> IJumpIf (z_of_int (a 0)) | "call" -> ICall
     | "tailcall" -> ITailCall (a 0 = 1) | "fn" -> IFunction (nat_of_int (a 0)) | "builtin" -> IBuiltin (nat_of_int (a 0))
     | "equal" -> IEqual (nat_of_int (a 0)) | "not" -> INot | "spawn" -> ISpawn | "send" -> ISend | "self" -> ISelf
     | "select" -> ISelect | "process" -> IProcess (nat_of_int (a 0), nat_of_int (a 1))
     | _ -> failwith ("unknown instruction " ^ h))
  | _ -> failwith "bad instruction"

let field name (l : Sexp.t list) : Sexp.t list =
  let rec go = function
    | Sexp.List (Sexp.Atom n :: rest) :: _ when n = name -> rest
    | _ :: t -> go t
    | [] -> failwith ("missing field " ^ name) in
  go l

let type_of (s : Sexp.t) : xtype =
  match s with
  | Sexp.List (Sexp.Atom h :: args) ->
    (match h, args with
     | "int", [] -> TInt | "bin", [] -> TBin | "ref", [] -> TRef
     | "tuple", [t] -> TTuple (nat t)
     | "partial", [n; Sexp.List fs] ->
       TPartial (opt_str n, List.map (function Sexp.List [l; y] -> (str_of (Sexp.atom l), nat y) | _ -> failwith "bad partial field") fs)
     | "fn", [p; r; c] -> TCallable (nat p, nat r, nat c)
     | "cycle", [d] -> TCycle (nat d)
     | "union", ys -> TUnion (List.map nat ys)
     | "process", [s; r] -> TProcess (opt_nat s, opt_nat r)
     | "resource", [n] -> TResource (str_of (Sexp.atom n))
     | "var", [n] -> TVariable (str_of (Sexp.atom n))
     | _ -> failwith ("bad type " ^ h))
  | _ -> failwith "bad type"

(* rows: (row y present|absent (flags i b r) (t ids) (f ids) (bi ids) (p ids) (res ids)) *)
let dense (n : int) (ids : Sexp.t list) : bool list =
  let a = Array.make n false in
  List.iter (fun s -> let i = ios s in if i < n then a.(i) <- true) ids;
  Array.to_list a

type sizes = { nt : int; nf : int; nb : int; nr : int; ny : int }

let rows_of (sz : sizes) (rows : Sexp.t list) : row option list =
  let a = Array.make sz.ny None in
  List.iter (fun r ->
      match r with
      | Sexp.List [Sexp.Atom "row"; y; Sexp.Atom pres; Sexp.List [_; i; b; rf]; Sexp.List (_ :: ts); Sexp.List (_ :: fs);
                   Sexp.List (_ :: bs); Sexp.List (_ :: ps); Sexp.List (_ :: rs)] ->
        let y = ios y in
        if pres = "present" && y < sz.ny then
          a.(y) <- Some { w_int = ios i = 1; w_bin = ios b = 1; w_ref = ios rf = 1;
                          w_tuples = dense sz.nt ts; w_funs = dense sz.nf fs; w_builtins = dense sz.nb bs;
                          w_procs = dense sz.nf ps; w_res = dense sz.nr rs }
      | _ -> failwith "bad row") rows;
  Array.to_list a

let program_of (fields : Sexp.t list) (rows : Sexp.t list) : xprogram * int =
  let consts = List.map (fun c ->
      match c with
      | Sexp.List [Sexp.Atom "i"; n] -> XInt (z_of_string (Sexp.atom n))
      | Sexp.List [Sexp.Atom "b"; h] -> let h = Sexp.atom h in XBin (unhex (String.sub h 1 (String.length h - 1)))
      | _ -> failwith "bad constant") (field "consts" fields) in
  let fns = List.map (fun f ->
      match f with
      | Sexp.List [Sexp.Atom "fn"; caps; ty; Sexp.List (Sexp.Atom "ins" :: ins)] ->
        { xf_code = List.map instr_of ins; xf_caps = nat caps; xf_type = nat ty }
      | _ -> failwith "bad fn") (field "fns" fields) in
  let tuples = List.map (fun t ->
      match t with
      | Sexp.List [Sexp.Atom "tup"; n; Sexp.List fs] ->
        { xt_name = opt_str n; xt_fields = List.map (function Sexp.List [l; y] -> (opt_str l, nat y) | _ -> failwith "bad field") fs }
      | _ -> failwith "bad tuple") (field "tuples" fields) in
  let types = List.map type_of (field "types" fields) in
  let builtins = List.map (fun b ->
      match b with
      | Sexp.List [Sexp.Atom "bi"; n; p; r] -> { xb_name = str_of (Sexp.atom n); xb_param = nat p; xb_result = nat r }
      | _ -> failwith "bad builtin") (field "builtins" fields) in
  let resources = List.map (fun r -> str_of (Sexp.atom r)) (field "resources" fields) in
  let canon = List.map nat (field "canon" fields) in
  let entry = ios (List.hd (field "entry" fields)) in
  let sz = { nt = List.length tuples; nf = List.length fns; nb = List.length builtins; nr = List.length resources; ny = List.length types } in
  let ninstr = List.fold_left (fun acc f -> acc + List.length f.xf_code) 0 fns in
  ({ x_consts = consts; x_funcs = fns; x_tuples = tuples; x_types = types; x_builtins = builtins;
     x_resources = resources; x_entry = nat_of_int (max entry 0); x_rows = rows_of sz rows; x_canon = canon }, ninstr)

(* (name (a b) ...) -> dense map *)
let pairs_of (l : Sexp.t list) : (int * int) list =
  List.map (function Sexp.List [a; b] -> (ios a, ios b) | _ -> failwith "bad pair") l
let fmap_of (ps : (int * int) list) : fmap =
  let n = List.fold_left (fun m (a, _) -> max m (a + 1)) 0 ps in
  let a = Array.make n None in
  List.iter (fun (i, j) -> a.(i) <- Some (nat_of_int j)) ps;
  Array.to_list a
let inverse_of (ps : (int * int) list) : fmap = fmap_of (List.map (fun (a, b) -> (b, a)) ps)

let renaming_of (fields : Sexp.t list) : renaming * (int * int) list =
  let m n = pairs_of (field n fields) in
  ({ r_c = fmap_of (m "c"); r_f = fmap_of (m "f"); r_t = fmap_of (m "t"); r_y = fmap_of (m "y");
     r_b = fmap_of (m "b"); r_r = fmap_of (m "r"); i_f = inverse_of (m "f"); i_b = inverse_of (m "b") }, m "f")

(* which conjunct of is_renaming fails first *)
let diagnose (rho : renaming) (x : xprogram) (x' : xprogram) : string =
  let first (m : fmap) (chk : nat -> nat -> bool) : (int * int) option =
    let rec go i = function
      | [] -> None
      | None :: t -> go (i + 1) t
      | Some j :: t -> if chk (nat_of_int i) j then go (i + 1) t else Some (i, int_of_nat j) in
    go 0 m in
  let rep what = function Some (i, j) -> Some (Printf.sprintf "%s %d -> %d" what i j) | None -> None in
  let checks = [
    (fun () -> if maps_to rho.r_f x.x_entry x'.x_entry then None else Some "entry is not mapped to entry");
    (fun () -> if maps_to rho.r_t O O && maps_to rho.r_t (S O) (S O) then None else Some "NIL/OK not fixed");
    (fun () -> rep "tuple lands on NIL" (first rho.r_t (fun t t' -> if t' = O then t = O else true)));
    (fun () -> (match first rho.r_f (chk_fun rho x x') with
         | Some (i, j) ->
           (* find the instruction *)
           let fd = List.nth x.x_funcs i in
           (match List.nth_opt x'.x_funcs j with
            | None -> Some (Printf.sprintf "function %d -> %d: image missing" i j)
            | Some fd' ->
              let rec find pc a b = match a, b with
                | [], [] -> "captures or type id"
                | ia :: ta, ib :: tb -> if instr_img rho ia ib then find (pc + 1) ta tb else Printf.sprintf "pc %d" pc
                | _, _ -> "length" in
              Some (Printf.sprintf "function %d -> %d differs at %s" i j (find 0 fd.xf_code fd'.xf_code)))
         | None -> None));
    (fun () -> rep "a tested type has no dumped type_compatibility row in function" (first rho.r_f (fun f _ -> rows_dumped x f)));
    (fun () -> rep "constant" (first rho.r_c (chk_const x x')));
    (fun () -> rep "tuple" (first rho.r_t (chk_tuple rho x x')));
    (fun () -> rep "type" (first rho.r_y (chk_type rho x x')));
    (fun () -> rep "builtin" (first rho.r_b (chk_builtin rho x x')));
    (fun () -> rep "resource" (first rho.r_r (chk_res x x')));
    (fun () -> rep "function map not injective at" (first rho.r_f (fun f f' -> maps_to rho.i_f f' f)));
    (fun () -> rep "builtin map not injective at" (first rho.r_b (fun b b' -> maps_to rho.i_b b' b)));
    (fun () -> rep "type_compatibility row does not commute for type" (first rho.r_y (chk_row rho x x')));
    (fun () -> if canon_ok x then None else Some "source canonical_tuples is not compute_canonical of its names/labels");
    (fun () -> if canon_ok x' then None else Some "target canonical_tuples is not compute_canonical of its names/labels");
  ] in
  let rec go = function [] -> "unknown" | c :: t -> (match c () with Some m -> m | None -> go t) in
  go checks

let count_some (m : fmap) = List.length (List.filter (fun o -> o <> None) m)

let validate name (src : Sexp.t list) (dst : Sexp.t list) (rho_fields : Sexp.t list) : string =
  try
    let (x, _) = program_of src (field "rows-src" rho_fields) in
    let (x', _) = program_of dst (field "rows-dst" rho_fields) in
    let (rho, fpairs) = renaming_of rho_fields in
    let conflicts = field "conflicts" rho_fields in
    let ninstr = List.fold_left (fun acc (i, _) ->
        acc + (match List.nth_opt x.x_funcs i with Some f -> List.length f.xf_code | None -> 0)) 0 fpairs in
    let nrows = List.length (List.filter (fun o -> o <> None) x.x_rows) in
    if is_renaming rho x x' then
      Printf.sprintf "(%s accept (fns %d) (ins %d) (consts %d) (tuples %d) (types %d) (builtins %d) (rows %d))" name
        (count_some rho.r_f) ninstr (count_some rho.r_c) (count_some rho.r_t) (count_some rho.r_y) (count_some rho.r_b) nrows
    else
      Printf.sprintf "(%s reject \"%s%s\")" name (String.escaped (diagnose rho x x'))
        (if conflicts = [] then "" else "; reconstruction conflicts: " ^ String.escaped (String.concat ", " (List.map Sexp.atom conflicts)))
  with Failure m -> Printf.sprintf "(%s driver-error \"%s\")" name (String.escaped m)
     | Not_found -> Printf.sprintf "(%s driver-error \"not found\")" name
     | Invalid_argument m -> Printf.sprintf "(%s driver-error \"%s\")" name (String.escaped m)

let prog_named name (items : Sexp.t list) : Sexp.t list =
  let rec go = function
    | Sexp.List (Sexp.Atom "prog" :: Sexp.Atom n :: fields) :: _ when n = name -> fields
    | _ :: t -> go t
    | [] -> failwith ("missing prog " ^ name) in
  go items
let rho_named name (items : Sexp.t list) : Sexp.t list =
  let rec go = function
    | Sexp.List (Sexp.Atom "rho" :: Sexp.Atom n :: fields) :: _ when n = name -> fields
    | _ :: t -> go t
    | [] -> failwith ("missing rho " ^ name) in
  go items

(* --emit: correspondence of the model of value_to_instructions_from_cache with the real compiler.
   The entry function of a program whose whole body is an import (`%m`, `%m.a.b`) is a 3-instruction
   prelude followed by the real emitted code c. The model machine runs c to a value v; the model's
   emit_cached must re-emit exactly c for v, registering no new constant. *)
let emit_check (fields : Sexp.t list) : string =
  let (x, _) = program_of fields [] in
  let entry = int_of_nat x.x_entry in
  match List.nth_opt x.x_funcs entry with
  | None -> "(emit skip no-entry)"
  | Some fd ->
    (match fd.xf_code with
     | IStore :: ILoad O :: IPop :: rest when rest <> [] ->
       let quiet = { x_value = None; x_bool = false } in
       let inputs = List.map (fun i ->
           match i with
           | IConstant k -> (match List.nth_opt x.x_consts (int_of_nat k) with
               | Some (XBin _) -> { x_value = Some (VBin k); x_bool = false }
               | _ -> quiet)
           | _ -> quiet) rest in
       let vnil = VTuple (O, []) in
       let s0 = { stack = []; locals = [vnil];
                  frames = [{ fr_fn = x.x_entry; fr_base = O; fr_caps = O; fr_pc = nat_of_int 3 }]; persistent = false } in
       (match run (project x) s0 inputs with
        | Next s ->
          (match s.stack with
           | [v] ->
             let bytes_of h = match List.nth_opt x.x_consts (int_of_nat h) with Some (XBin b) -> b | _ -> [] in
             (match emit_cached bytes_of v x with
              | Some (x1, code) ->
                if List.length x1.x_consts <> List.length x.x_consts then "(emit differ \"model registers a constant the real program does not hold\")"
                else if code = rest then Printf.sprintf "(emit same %d)" (List.length rest)
                else Printf.sprintf "(emit differ \"model emits %d instructions, real code has %d, or they differ\")" (List.length code) (List.length rest)
              | None -> "(emit differ \"model refuses the value\")")
           | _ -> "(emit skip not-a-single-value)")
        | _ -> "(emit skip model-run-did-not-complete)")
     | _ -> "(emit skip not-a-pure-import)")

(* model of tree_shake (vm/RemapShake.v) vs the real function: exact equality of every table *)
let shake_check (ac : Sexp.t list) (ts : Sexp.t list) : string =
  try
    let (x, _) = program_of ac [] in
    let (y, _) = program_of ts [] in
    if not (wf_program x) then "(shake skip ill-formed-input)" else
    match tree_shake x with
    | None -> "(shake differ \"the model panics (a marked function names an unmarked id)\")"
    | Some m ->
      let diffs = List.filter_map (fun (n, b) -> if b then None else Some n)
          [ ("constants", m.x_consts = y.x_consts); ("functions", m.x_funcs = y.x_funcs); ("tuples", m.x_tuples = y.x_tuples);
            ("types", m.x_types = y.x_types); ("builtins", m.x_builtins = y.x_builtins); ("resources", m.x_resources = y.x_resources);
            ("entry", m.x_entry = y.x_entry) ] in
      if diffs = [] then
        (* and the renaming the model computes is accepted structurally (theorem tree_shake_struct, re-checked) *)
        (if struct_ok (shake_rho x) x m then Printf.sprintf "(shake same %d %d)" (List.length x.x_funcs) (List.length m.x_funcs)
         else "(shake differ \"struct_ok rejects the model's own renaming\")")
      else Printf.sprintf "(shake differ \"%s\")" (String.concat " " diffs)
  with Failure m -> Printf.sprintf "(shake driver-error \"%s\")" (String.escaped m)

(* model of merge_bytecode (vm/RemapMerge.v) vs the real function: the environment's whole program
   after the merge and the remapped entry must be equal; the theorem's premises are evaluated *)
let merge_check (before : Sexp.t list) (src : Sexp.t list) (mg : Sexp.t list) : string =
  try
    let (e, _) = program_of before [] in
    let (b, _) = program_of src [] in
    let (y, _) = program_of mg [] in
    if not (wf_program b) then "(merge skip ill-formed-input)" else
    match merge e b with
    | None -> "(merge differ \"the model panics or runs out of fuel\")"
    | Some (m, rho) ->
      let diffs = List.filter_map (fun (n, ok) -> if ok then None else Some n)
          [ ("constants", m.x_consts = y.x_consts); ("functions", m.x_funcs = y.x_funcs); ("tuples", m.x_tuples = y.x_tuples);
            ("types", m.x_types = y.x_types); ("builtins", m.x_builtins = y.x_builtins); ("resources", m.x_resources = y.x_resources);
            ("entry", m.x_entry = y.x_entry) ] in
      if diffs <> [] then Printf.sprintf "(merge differ \"%s\")" (String.concat " " diffs)
      else if not (merge_premises rho b m) then
        Printf.sprintf "(merge same premises-fail \"%s\")"
          (if not (backward_refs b) then "forward function reference" else if not (no_process b) then "Process instruction" else "NIL/OK, builtin signature or dedup")
      else if struct_ok rho b m then Printf.sprintf "(merge same %d %d)" (List.length e.x_funcs) (List.length m.x_funcs)
      else "(merge differ \"premises hold but struct_ok rejects the model's renaming\")"
  with Failure m -> Printf.sprintf "(merge driver-error \"%s\")" (String.escaped m)

let () =
  let emit_mode = Array.length Sys.argv > 1 && Sys.argv.(1) = "--emit" in
  try
    while true do
      let line = input_line stdin in
      match (try Some (Sexp.parse line) with _ -> None) with
      | Some (Sexp.List (Sexp.Atom "packaged" :: items)) when emit_mode ->
        (try print_endline (emit_check (prog_named "ts" items))
         with Failure m -> print_endline (Printf.sprintf "(emit driver-error \"%s\")" (String.escaped m))
            | Not_found -> print_endline "(emit driver-error \"not found\")")
      | Some (Sexp.List (Sexp.Atom "packaged" :: items)) ->
        (try
           let merged = Sexp.atom (List.hd (field "merged" items)) in
           let ac = prog_named "ac" items and ts = prog_named "ts" items and mg = prog_named "mg" items in
           let r1 = validate "ts" ac ts (rho_named "ts" items) in
           let r2 = validate "mg" (if merged = "ac" then ac else ts) mg (rho_named "mg" items) in
           let r3 = shake_check ac ts in
           let r4 = (try merge_check (prog_named "before" items) (if merged = "ac" then ac else ts) mg
                     with Failure _ -> "(merge skip no-before-dump)") in
           print_endline (Printf.sprintf "(validated %s %s %s %s)" r1 r2 r3 r4)
         with Failure m -> print_endline (Printf.sprintf "(validated (driver-error \"%s\"))" (String.escaped m)))
      | _ -> print_endline "(skip)"
    done
  with End_of_file -> ()
