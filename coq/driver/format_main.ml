(* Driver for the C17 models (extracted from Ast.v / Simplify.v / Escape.v / Pretty.v).
   argv[1] selects the mode; one case per stdin line, one output line per case.
     norm   : `(norm M R <ast-dump>)`  ->  `<compiler-out>\t<formatter-out>` (AST dumps in the format of
              harness/src/bin/qv_format.rs; keep c = span offset % M == R, M = 0: keep nothing)
     esc    : `(single cp..) | (multi margin cp..)` -> `(esc (out cp..) (back ok cp.. | err))`
     rawmulti / rawsingle : `(term|pat cp..)` -> `(ok cp..) | (err) | (other)`
     pretty : `(pretty (w n..) <doc>)` -> `(printed (cp..) ..)` *)
open Format_model

(* ---- numerals (copied from builtins_main.ml) ---- *)
let rec pos_of_bits = function
  | [] -> failwith "pos_of_bits"
  | [true] -> XH
  | b :: t -> if b then XI (pos_of_bits t) else XO (pos_of_bits t)
let z_of_string (s : string) : z =
  let neg = String.length s > 0 && s.[0] = '-' in
  let s' = if neg then String.sub s 1 (String.length s - 1) else s in
  match Sexp.bits_of_decimal s' with
  | [] -> Z0
  | bits -> if neg then Zneg (pos_of_bits bits) else Zpos (pos_of_bits bits)
let rec bits_of_pos = function XH -> [true] | XO p -> false :: bits_of_pos p | XI p -> true :: bits_of_pos p
let string_of_z = function
  | Z0 -> "0"
  | Zpos p -> Sexp.decimal_of_bits (bits_of_pos p)
  | Zneg p -> "-" ^ Sexp.decimal_of_bits (bits_of_pos p)
let rec int_of_pos = function XH -> 1 | XO p -> 2 * int_of_pos p | XI p -> 2 * int_of_pos p + 1
let int_of_z = function Z0 -> 0 | Zpos p -> int_of_pos p | Zneg p -> - (int_of_pos p)
let rec pos_of_int n = if n = 1 then XH else if n land 1 = 0 then XO (pos_of_int (n lsr 1)) else XI (pos_of_int (n lsr 1))
let z_of_int n = if n = 0 then Z0 else if n > 0 then Zpos (pos_of_int n) else Zneg (pos_of_int (-n))
let rec nat_of_int n = if n <= 0 then O else S (nat_of_int (n - 1))
let rec int_of_nat = function O -> 0 | S n -> 1 + int_of_nat n

let unhex (s : string) : z list =
  List.init (String.length s / 2) (fun i -> z_of_int (int_of_string ("0x" ^ String.sub s (2 * i) 2)))
let hex (l : z list) : string = String.concat "" (List.map (fun b -> Printf.sprintf "%02x" (int_of_z b)) l)

(* ---- atoms are interned ---- *)
let tbl : (string, int) Hashtbl.t = Hashtbl.create 64
let names : string array ref = ref (Array.make 64 "")
let count = ref 0
let intern (s : string) : z =
  match Hashtbl.find_opt tbl s with
  | Some i -> z_of_int i
  | None ->
    let i = !count in
    if i >= Array.length !names then names := Array.append !names (Array.make (Array.length !names) "");
    !names.(i) <- s; Hashtbl.add tbl s i; incr count; z_of_int i
let name_of (a : z) : string = !names.(int_of_z a)

module X = Sexp
let at s = X.Atom s
let ls h items = X.List (X.Atom h :: items)
let is_dash = function X.Atom "-" -> true | _ -> false
let opt_atom s = if is_dash s then None else Some (intern (X.atom s))
let d_opt_atom = function None -> at "-" | Some a -> at (name_of a)
let xhex_of s = let a = X.atom s in unhex (String.sub a 1 (String.length a - 1))
let d_xhex b = at ("x" ^ hex b)

(* opaque payloads *)
let rec sx_of (s : X.t) : sx = match s with
  | X.Atom a | X.Str a -> SxAtom (intern a)
  | X.List l -> SxList (List.map sx_of l)
let rec d_sx = function SxAtom a -> at (name_of a) | SxList l -> X.List (List.map d_sx l)

let literal_of s = match s with
  | X.List [X.Atom "Integer"; n] -> Integer (z_of_string (X.atom n))
  | X.List [X.Atom "Binary"; b] -> Binary (xhex_of b)
  | _ -> failwith "literal"
let d_literal = function Integer n -> ls "Integer" [at (string_of_z n)] | Binary b -> ls "Binary" [d_xhex b]

let access_of s = match s with
  | X.List (X.Atom "AccessT" :: src :: paths) ->
    let source = match src with
      | X.Atom "-" -> None
      | X.List [X.Atom "Identifier"; n] -> Some (Identifier (intern (X.atom n)))
      | X.Atom "Parameter" -> Some ParameterSrc
      | X.Atom "Ripple" -> Some Ripple
      | X.List (X.Atom "Import" :: p) -> Some (ImportSrc (List.map (fun x -> intern (X.atom x)) p))
      | X.Atom "SelfSrc" -> Some SelfSrc
      | X.List [X.Atom "Builtin"; n] -> Some (Builtin (intern (X.atom n)))
      | X.List [X.Atom "TailCall"; n] -> Some (TailCall (opt_atom n))
      | X.Atom "TailCallRipple" -> Some TailCallRipple
      | _ -> failwith "access source" in
    let accessors = List.map (function
        | X.List [X.Atom "Field"; n] -> Field (intern (X.atom n))
        | X.List [X.Atom "Index"; i] -> Index (z_of_string (X.atom i))
        | _ -> failwith "access path") paths in
    { source; accessors }
  | _ -> failwith "access"
let d_access (a : access) =
  let src = match a.source with
    | None -> at "-"
    | Some (Identifier n) -> ls "Identifier" [at (name_of n)]
    | Some ParameterSrc -> at "Parameter"
    | Some Ripple -> at "Ripple"
    | Some (ImportSrc p) -> ls "Import" (List.map (fun x -> at (name_of x)) p)
    | Some SelfSrc -> at "SelfSrc"
    | Some (Builtin n) -> ls "Builtin" [at (name_of n)]
    | Some (TailCall n) -> ls "TailCall" [d_opt_atom n]
    | Some TailCallRipple -> at "TailCallRipple" in
  ls "AccessT" (src :: List.map (function
      | Field n -> ls "Field" [at (name_of n)]
      | Index i -> ls "Index" [at (string_of_z i)]) a.accessors)

let rec term_of (s : X.t) : term = match s with
  | X.List [X.Atom "Literal"; l] -> Literal (literal_of l)
  | X.List (X.Atom "Tuple" :: name :: fields) ->
    let n = match name with
      | X.Atom "Anonymous" -> Anonymous | X.Atom "Inherit" -> Inherit
      | X.List [X.Atom "Named"; n] -> Named (intern (X.atom n)) | _ -> failwith "tuple name" in
    Tuple (n, List.map (function
        | X.List [X.Atom "TupleField"; fname; X.List [X.Atom "FChain"; c]] -> TupleField (opt_atom fname, FChain (chain_of c))
        | X.List [X.Atom "TupleField"; fname; X.List [X.Atom "FSpread"; n]] -> TupleField (opt_atom fname, FSpread (opt_atom n))
        | _ -> failwith "tuple field") fields)
  | X.List (X.Atom "String" :: style :: segs) ->
    String ((match style with X.Atom "Single" -> Single | _ -> Multi), List.map (function
        | X.List [X.Atom "Text"; b] -> Text (xhex_of b)
        | X.List [X.Atom "Hole"; e] -> Hole (expression_of e)
        | _ -> failwith "segment") segs)
  | X.List [X.Atom "Match"; m] -> Match (sx_of m)
  | X.List [X.Atom "Block"; e] -> Block (expression_of e)
  | X.List [X.Atom "Function"; X.List tps; pt; rt; body] ->
    Function ({ type_parameters = List.map (fun x -> intern (X.atom x)) tps;
                parameter_type = (if is_dash pt then None else Some (sx_of pt));
                return_type = (if is_dash rt then None else Some (sx_of rt)) },
              (if is_dash body then None else Some (expression_of body)))
  | X.List [X.Atom "Access"; a] -> Access (access_of a)
  | X.List [X.Atom "Spawn"; t] -> Spawn (term_of t)
  | X.List [X.Atom "Self_"] -> Self_
  | X.List [X.Atom "Select"; X.Atom "-"] -> Select None
  | X.List [X.Atom "Select"; X.List (X.Atom "Some" :: cs)] -> Select (Some (List.map chain_of cs))
  | X.List [X.Atom "Process"; n] -> Process (z_of_string (X.atom n))
  | X.List [X.Atom "Reference"; a] -> Reference (access_of a)
  | _ -> failwith ("term " ^ X.to_string s)
and chain_of s = match s with
  | X.List (X.Atom "Chain" :: mp :: sp :: terms) ->
    Chain ((match mp with X.Atom "-" -> None | X.List [X.Atom "Some"; m] -> Some (sx_of m) | _ -> failwith "mp"),
           (if is_dash sp then None else Some (z_of_string (X.atom sp))),
           List.map term_of terms)
  | _ -> failwith "chain"
and sequence_of s = match s with
  | X.List (X.Atom "Sequence" :: cs) -> Sequence (List.map chain_of cs)
  | _ -> failwith "sequence"
and expression_of s = match s with
  | X.List (X.Atom "ExpressionB" :: bs) ->
    Expression (List.map (function
        | X.List [X.Atom "Branch"; c; k] -> Branch (sequence_of c, (if is_dash k then None else Some (sequence_of k)))
        | _ -> failwith "branch") bs)
  | _ -> failwith "expression"

let rec d_term (t : term) : X.t = match t with
  | Literal l -> ls "Literal" [d_literal l]
  | Tuple (n, fs) ->
    ls "Tuple" ((match n with Anonymous -> at "Anonymous" | Inherit -> at "Inherit" | Named n -> ls "Named" [at (name_of n)])
                :: List.map (function
                    | TupleField (fname, FChain c) -> ls "TupleField" [d_opt_atom fname; ls "FChain" [d_chain c]]
                    | TupleField (fname, FSpread n) -> ls "TupleField" [d_opt_atom fname; ls "FSpread" [d_opt_atom n]]) fs)
  | String (st, segs) ->
    ls "String" (at (match st with Single -> "Single" | Multi -> "Multi")
                 :: List.map (function Text b -> ls "Text" [d_xhex b] | Hole e -> ls "Hole" [d_expression e]) segs)
  | Match m -> ls "Match" [d_sx m]
  | Block e -> ls "Block" [d_expression e]
  | Function (sg, body) ->
    ls "Function" [X.List (List.map (fun x -> at (name_of x)) sg.type_parameters);
                   (match sg.parameter_type with None -> at "-" | Some t -> d_sx t);
                   (match sg.return_type with None -> at "-" | Some t -> d_sx t);
                   (match body with None -> at "-" | Some e -> d_expression e)]
  | Access a -> ls "Access" [d_access a]
  | Spawn t -> ls "Spawn" [d_term t]
  | Self_ -> ls "Self_" []
  | Select None -> ls "Select" [at "-"]
  | Select (Some cs) -> ls "Select" [ls "Some" (List.map d_chain cs)]
  | Process n -> ls "Process" [at (string_of_z n)]
  | Reference a -> ls "Reference" [d_access a]
and d_chain (Chain (mp, sp, ts)) =
  ls "Chain" ((match mp with None -> at "-" | Some m -> ls "Some" [d_sx m])
              :: (match sp with None -> at "-" | Some o -> at (string_of_z o))
              :: List.map d_term ts)
and d_sequence (Sequence cs) = ls "Sequence" (List.map d_chain cs)
and d_expression (Expression bs) =
  ls "ExpressionB" (List.map (fun (Branch (c, k)) ->
      ls "Branch" [d_sequence c; (match k with None -> at "-" | Some s -> d_sequence s)]) bs)

let program_of s = match s with
  | X.List (X.Atom "Program" :: stmts) ->
    (List.map (function
        | X.List [X.Atom "TypeAlias"; n; X.List ps; ty] ->
          TypeAlias (opt_atom n, List.map (fun x -> intern (X.atom x)) ps, sx_of ty)
        | X.List [X.Atom "Expression"; sq] -> StmtExpression (sequence_of sq)
        | _ -> failwith "statement") stmts)
  | _ -> failwith "program"
let d_program (stmts : program) =
  ls "Program" (List.map (function
      | TypeAlias (n, ps, ty) -> ls "TypeAlias" [d_opt_atom n; X.List (List.map (fun x -> at (name_of x)) ps); d_sx ty]
      | StmtExpression sq -> ls "Expression" [d_sequence sq]) stmts)

let norm_case (s : X.t) : string =
  match s with
  | X.List [X.Atom "norm"; m; r; ast] ->
    let m = int_of_string (X.atom m) and r = int_of_string (X.atom r) in
    let p = program_of ast in
    let c = normalize_blocks p compiler_options in
    let has_trivia (off : z) = m <> 0 && (int_of_z off) mod m = r in
    let f = normalize_blocks p (formatter_options (keep_by_span has_trivia)) in
    X.to_string (d_program c) ^ "\t" ^ X.to_string (d_program f)
  | _ -> "(bad-case)"

(* ---- Escape.v / Pretty.v ---- *)
let cps_of (items : X.t list) : z list = List.map (fun x -> z_of_int (int_of_string (X.atom x))) items
let d_cps (l : z list) : string = String.concat " " (List.map (fun c -> string_of_int (int_of_z c)) l)
let q = z_of_int 34

let esc_case (s : X.t) : string =
  match s with
  | X.List (X.Atom "single" :: items) ->
    let text = cps_of items in
    let e = escape_single text in
    let back = match scan_single (e @ [q]), unescape e with
      | ScanText (t, []), Some t' when t = t' -> "ok " ^ d_cps t
      | ScanHole _, _ -> "hole"
      | _ -> "err" in
    Printf.sprintf "(single (esc %s) (back %s))" (d_cps e) back
  | X.List (X.Atom "multi" :: margin :: items) ->
    let text = cps_of items in
    let raw = render_multiline text (nat_of_int (int_of_string (X.atom margin))) in
    let back = match scan_multiline_raw (raw @ [q; q; q]) with
      | Some (r, []) when r = raw ->
        (match process_multiline_term raw, process_multiline raw with
         | MText t, Some t' when t = t' -> "ok " ^ d_cps t
         | MHole, _ -> "hole"
         | _ -> "err")
      | _ -> "err" in
    Printf.sprintf "(multi (raw %s) (back %s))" (d_cps raw) back
  | _ -> "(bad-case)"

let rawmulti_case (s : X.t) : string =
  match s with
  | X.List (X.Atom kind :: items) ->
    let raw = cps_of items in
    (match scan_multiline_raw (raw @ [q; q; q]) with
     | None -> "(err)"
     | Some (r, []) ->
       if kind = "pat" then (match process_multiline r with Some t -> "(ok " ^ d_cps t ^ ")" | None -> "(err)")
       else (match process_multiline_term r with MText t -> "(ok " ^ d_cps t ^ ")" | MHole -> "(other)" | MErr -> "(err)")
     | Some _ -> "(other)")
  | _ -> "(bad-case)"

(* index of the closing quote of `single_line_string` (parser.rs:448): a backslash skips the next character *)
let rec closing_quote (l : z list) (i : int) : int option =
  match l with
  | [] -> None
  | c :: r when int_of_z c = 92 -> (match r with [] -> None | _ :: r' -> closing_quote r' (i + 2))
  | c :: _ when int_of_z c = 34 -> Some i
  | _ :: r -> closing_quote r (i + 1)

let rawsingle_case (s : X.t) : string =
  match s with
  | X.List (X.Atom kind :: items) ->
    let raw = cps_of items in
    if kind = "pat" then
      (match closing_quote (raw @ [q]) 0 with
       | None -> "(err)"
       | Some i when i = List.length raw -> (match unescape raw with Some t -> "(ok " ^ d_cps t ^ ")" | None -> "(err)")
       | Some _ -> "(other)")
    else
      (match scan_single (raw @ [q]) with
       | ScanText (t, []) -> "(ok " ^ d_cps t ^ ")"
       | ScanText _ | ScanHole _ -> "(other)"
       | ScanErr -> "(err)")
  | _ -> "(bad-case)"

let rec doc_of (s : X.t) : doc =
  match s with
  | X.Atom "nil" -> DNil | X.Atom "line" -> DLine | X.Atom "softline" -> DSoftLine
  | X.Atom "hardline" -> DHardLine | X.Atom "breakparent" -> DBreakParent
  | X.List (X.Atom "text" :: items) -> DText (cps_of items)
  | X.List (X.Atom "concat" :: ds) -> DConcat (List.map doc_of ds)
  | X.List [X.Atom "nest"; n; d] -> DNest (nat_of_int (int_of_string (X.atom n)), doc_of d)
  | X.List [X.Atom "group"; d] -> group (doc_of d)
  | X.List [X.Atom "rawgroup"; b; d] -> DGroup (doc_of d, X.atom b = "true")
  | X.List [X.Atom "ifbreak"; b; f] -> DIfBreak (doc_of b, doc_of f)
  | X.List [X.Atom "suffix"; d] -> DLineSuffix (doc_of d)
  | _ -> failwith ("doc " ^ X.to_string s)

let pretty_case (s : X.t) : string =
  match s with
  | X.List [X.Atom "pretty"; X.List (X.Atom "w" :: ws); d] ->
    let doc = doc_of d in
    let outs = List.map (fun w ->
        match print doc (nat_of_int (int_of_string (X.atom w))) with
        | Some l -> "(" ^ d_cps l ^ ")"
        | None -> "(out-of-fuel)") ws in
    let fw = List.map (fun w ->
        match flat_width doc (nat_of_int (int_of_string (X.atom w))) with
        | Some n -> string_of_int (int_of_nat n) | None -> "-") ws in
    "(printed " ^ String.concat " " outs ^ ") (flat (" ^ d_cps (flatten doc) ^ ")) (fw " ^ String.concat " " fw ^ ")"
  | _ -> "(bad-case)"


(* ---- FormatFrag.v: the data-literal fragment ---- *)
let opt_cps = function X.List (_ :: items) -> Some (cps_of items) | _ -> None
let rec fterm_of (s : X.t) : fterm =
  match s with
  | X.List [X.Atom "i"; n] -> FInt (z_of_string (X.atom n))
  | X.List (X.Atom "id" :: items) -> FIdent (cps_of items)
  | X.List (X.Atom "s" :: items) -> FStr (cps_of items)
  | X.List (X.Atom "t" :: name :: fields) ->
    FTuple (opt_cps name, List.map (function
        | X.List (X.Atom "f" :: label :: terms) -> FField (opt_cps label, List.map fterm_of terms)
        | _ -> failwith "fragment field") fields)
  | _ -> failwith ("fragment term " ^ X.to_string s)
let rec d_fterm (t : fterm) : string =
  match t with
  | FInt z -> "(i " ^ string_of_z z ^ ")"
  | FIdent n -> "(id " ^ d_cps n ^ ")"
  | FStr s -> "(s " ^ d_cps s ^ ")"
  | FTuple (name, fields) ->
    "(t " ^ (match name with None -> "-" | Some n -> "(n " ^ d_cps n ^ ")")
    ^ String.concat "" (List.map (fun (FField (label, terms)) ->
        " (f " ^ (match label with None -> "-" | Some n -> "(l " ^ d_cps n ^ ")")
        ^ String.concat "" (List.map (fun t -> " " ^ d_fterm t) terms) ^ ")") fields) ^ ")"
let d_fchain (c : fterm list) : string = "(c " ^ String.concat " " (List.map d_fterm c) ^ ")"
let d_back (r : fterm list option) : string = match r with Some c -> "(ok " ^ d_fchain c ^ ")" | None -> "(err)"

let frag_case (s : X.t) : string =
  match s with
  | X.List [X.Atom "fragfmt"; X.List (X.Atom "c" :: terms)] ->
    let c = List.map fterm_of terms in
    if not (wf_chain c) then "(frag ill-formed)"
    else begin
      (* the round trip at other widths than the one the real formatter uses: model only *)
      let allw = List.for_all (fun w ->
          match format_frag c (nat_of_int w) with
          | Some out -> parse_frag out = Some c
          | None -> false) [0; 7; 20; 41; 51; 80; 100; 300] in
      match format_frag c (nat_of_int 100) with
      | Some out -> Printf.sprintf "(frag (out %s) (back %s))%s" (d_cps out) (d_back (parse_frag out)) (if allw then "" else " ALL-WIDTHS-FAILED")
      | None -> "(frag out-of-fuel)"
    end
  | X.List (X.Atom "fragparse" :: items) -> "(frag (back " ^ d_back (parse_frag (cps_of items)) ^ "))"
  | _ -> "(bad-case)"

(* ---- FormatFrag2.v: the fragment with blocks ---- *)
let rec gterm_of (s : X.t) : gterm =
  match s with
  | X.List [X.Atom "i"; n] -> GInt (z_of_string (X.atom n))
  | X.List (X.Atom "id" :: items) -> GIdent (cps_of items)
  | X.List (X.Atom "s" :: items) -> GStr (cps_of items)
  | X.List (X.Atom "t" :: name :: fields) ->
    GTuple (opt_cps name, List.map (function
        | X.List (X.Atom "f" :: label :: terms) -> GField (opt_cps label, List.map gterm_of terms)
        | _ -> failwith "fragment field") fields)
  | X.List (X.Atom "b" :: branches) ->
    GBlock (List.map (function
        | X.List [X.Atom "br"; c; k] -> GBranch (gseq_of c, (match k with X.List _ -> Some (gseq_of k) | _ -> None))
        | _ -> failwith "fragment branch") branches)
  | _ -> failwith ("fragment term " ^ X.to_string s)
and gseq_of (s : X.t) : gterm list list =
  match s with
  | X.List (_ :: chains) -> List.map (function X.List (_ :: terms) -> List.map gterm_of terms | _ -> failwith "chain") chains
  | _ -> failwith "sequence"
let rec d_gterm (t : gterm) : string =
  match t with
  | GInt z -> "(i " ^ string_of_z z ^ ")"
  | GIdent n -> "(id " ^ d_cps n ^ ")"
  | GStr s -> "(s " ^ d_cps s ^ ")"
  | GTuple (name, fields) ->
    "(t " ^ (match name with None -> "-" | Some n -> "(n " ^ d_cps n ^ ")")
    ^ String.concat "" (List.map (fun (GField (label, terms)) ->
        " (f " ^ (match label with None -> "-" | Some n -> "(l " ^ d_cps n ^ ")")
        ^ String.concat "" (List.map (fun t -> " " ^ d_gterm t) terms) ^ ")") fields) ^ ")"
  | GBlock branches ->
    "(b" ^ String.concat "" (List.map (fun (GBranch (c, k)) ->
        " (br " ^ d_gseq c ^ " " ^ (match k with Some s -> d_gseq s | None -> "-") ^ ")") branches) ^ ")"
and d_gseq (s : gterm list list) : string =
  "(q" ^ String.concat "" (List.map (fun c -> " (c" ^ String.concat "" (List.map (fun t -> " " ^ d_gterm t) c) ^ ")") s) ^ ")"
let d_back2 = function Some s -> "(ok " ^ d_gseq s ^ ")" | None -> "(err)"

let frag2_case (s : X.t) : string =
  match s with
  | X.List [X.Atom "frag2fmt"; sq] ->
    let c = gseq_of sq in
    if not (g_wf_seq c) then "(frag2 ill-formed)"
    else begin
      (* model only: at every width the output parses back to something with the same normal form, and formatting
         that again gives the same text *)
      let nf = g_normalize c in
      let allw = List.for_all (fun w ->
          match format_frag2 c (nat_of_int w) with
          | Some out -> (match parse_frag2 out with
              | Some c' -> g_normalize c' = nf && format_frag2 c' (nat_of_int w) = Some out
              | None -> false)
          | None -> false) [0; 7; 20; 41; 51; 80; 100; 300] in
      match format_frag2 c (nat_of_int 100) with
      | Some out -> Printf.sprintf "(frag2 (out %s) (back %s))%s" (d_cps out) (d_back2 (parse_frag2 out)) (if allw then "" else " ALL-WIDTHS-FAILED")
      | None -> "(frag2 out-of-fuel)"
    end
  | X.List (X.Atom "frag2parse" :: items) -> "(frag2 (back " ^ d_back2 (parse_frag2 (cps_of items)) ^ "))"
  | _ -> "(bad-case)"

let other_case (mode : string) (s : X.t) : string =
  match mode with
  | "esc" -> esc_case s
  | "rawmulti" -> rawmulti_case s
  | "rawsingle" -> rawsingle_case s
  | "pretty" -> pretty_case s
  | "frag" -> frag_case s
  | "frag2" -> frag2_case s
  | _ -> "(unsupported-mode)"

let () =
  let mode = if Array.length Sys.argv > 1 then Sys.argv.(1) else "norm" in
  try
    while true do
      let line = input_line stdin in
      if String.length line > 0 && line.[0] <> '#' then begin
        let out =
          try
            let s = Sexp.parse line in
            (match mode with
             | "norm" -> norm_case s
             | _ -> other_case mode s)
          with Failure m -> "(driver-error " ^ m ^ ")" in
        print_endline out
      end
    done
  with End_of_file -> ()
