(* Driver for the C11 model (repl/Repl.v): one history per stdin line, one session dump per line.

   (hist L..)   L = (parse) | (compile)
                  | (ok <has_expr 0|1> <result_nil 0|1> (binds (x i)..) (aliases a..) (stored V..) V)
     binds/aliases: the binding map the compiler returned for the line (the harness's binds-raw); stored: the values the line
     appended to the locals after its parameter; the last V: the line's result.  Values are opaque
     s-expressions (the model is polymorphic in the value type; here it is instantiated with the
     printed form), nil is (t - ()).
   -> (session (line <outcome> (binds (x i)..) (aliases a..) (vars (x V)..) (locals V..) (last V)
                     (lrtnil b)) ..)
      outcome = (parse-error) | (compile-error) | (none) | (ok V) | (worker-error LocalNotFound i)
              | (panic n);  vars in get_variables order, each answered by request_variable
      (a failed request prints (env-error LocalNotFound i) / (env-error VariableNotFound)). *)
open Repl_model

let rec nat_of_int n = if n <= 0 then O else S (nat_of_int (n - 1))
let rec int_of_nat = function O -> 0 | S n -> 1 + int_of_nat n

let vnil = "(t - ())"

(* names <-> nat *)
let names : (string, int) Hashtbl.t = Hashtbl.create 64
let names_rev : (int, string) Hashtbl.t = Hashtbl.create 64
let intern (s : string) : nat =
  match Hashtbl.find_opt names s with
  | Some i -> nat_of_int i
  | None ->
    let i = Hashtbl.length names in
    Hashtbl.add names s i; Hashtbl.add names_rev i s; nat_of_int i
let name_of (n : nat) : string =
  match Hashtbl.find_opt names_rev (int_of_nat n) with Some s -> s | None -> "?"

let section (items : Sexp.t list) (key : string) : Sexp.t list =
  let rec go = function
    | [] -> []
    | Sexp.List (Sexp.Atom k :: rest) :: _ when k = key -> rest
    | _ :: r -> go r in
  go items

let line_of (s : Sexp.t) : string line =
  match s with
  | Sexp.List [Sexp.Atom "parse"] -> LParseError
  | Sexp.List [Sexp.Atom "compile"] -> LCompileError
  | Sexp.List (Sexp.Atom "ok" :: he :: rn :: rest) ->
    let binds = List.map (function
        | Sexp.List [x; i] -> (intern (Sexp.atom x), BVar (nat_of_int (int_of_string (Sexp.atom i))))
        | _ -> failwith "bad bind") (section rest "binds") in
    let aliases = List.map (fun a -> (intern (Sexp.atom a), BAlias)) (section rest "aliases") in
    let stored = List.map Sexp.to_string (section rest "stored") in
    let value = Sexp.to_string (List.nth rest (List.length rest - 1)) in
    LOk ({ c_bindings = binds @ aliases; c_has_expr = Sexp.atom he = "1"; c_result_nil = Sexp.atom rn = "1" },
         { r_stored = stored; r_value = value })
  | _ -> failwith ("bad line " ^ Sexp.to_string s)

let err_str = function
  | LocalNotFound i -> Printf.sprintf "LocalNotFound %d" (int_of_nat i)
  | VariableNotFound -> "VariableNotFound"

let dump_session (s : string session) : string =
  (* the harness dumps the session after one lookup of an unbound name: the REPL has then forgotten
     the variables beyond the reported locals count *)
  let s = forget s in
  let vars = List.filter_map (function (x, BVar i) -> Some (name_of x, int_of_nat i) | _ -> None) s.s_bindings in
  let aliases = List.filter_map (function (x, BAlias) -> Some (name_of x) | _ -> None) s.s_bindings in
  let vars = List.sort compare vars and aliases = List.sort compare aliases in
  let b = Buffer.create 256 in
  Buffer.add_string b "(binds";
  List.iter (fun (x, i) -> Buffer.add_string b (Printf.sprintf " (%s %d)" x i)) vars;
  Buffer.add_string b ") (aliases";
  List.iter (fun a -> Buffer.add_string b (" " ^ a)) aliases;
  Buffer.add_string b ") (vars";
  List.iter (fun x ->
      let v = match request_variable s x with
        | WOk v -> v
        | WErr e -> "(env-error " ^ err_str e ^ ")" in
      Buffer.add_string b (Printf.sprintf " (%s %s)" (name_of x) v)) (get_variables s);
  Buffer.add_string b ") (locals";
  List.iter (fun v -> Buffer.add_string b (" " ^ v)) s.s_locals;
  Buffer.add_string b (Printf.sprintf ") (last %s) (lrtnil %b)" s.s_result s.s_lrt_nil);
  Buffer.contents b

let dump_result (r : string eval_result) : string =
  match r with
  | EParseError s -> "(line (parse-error) " ^ dump_session s ^ ")"
  | ECompileError s -> "(line (compile-error) " ^ dump_session s ^ ")"
  | ENone s -> "(line (none) " ^ dump_session s ^ ")"
  | EValue (v, s) -> "(line (ok " ^ v ^ ") " ^ dump_session s ^ ")"
  | EWorkerError (e, s) -> "(line (worker-error " ^ err_str e ^ ") " ^ dump_session s ^ ")"
  | EPanic n -> Printf.sprintf "(line (panic %d))" (int_of_nat n)

let () =
  try
    while true do
      let l = input_line stdin in
      if String.length l > 0 && l.[0] <> '#' then begin
        Hashtbl.reset names; Hashtbl.reset names_rev;
        let out =
          try
            match Sexp.parse l with
            | Sexp.List (Sexp.Atom "hist" :: ls) ->
              let results = run_history vnil (initial vnil) (List.map line_of ls) in
              "(session " ^ String.concat " " (List.map dump_result results) ^ ")"
            | _ -> "(bad-case)"
          with Failure m -> "(driver-error \"" ^ String.escaped m ^ "\")" in
        print_endline out
      end
    done
  with End_of_file -> ()
