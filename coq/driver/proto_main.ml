(* Driver for the protocol model M-Sys (sys/Proto.v, extracted to proto_model.ml): replays one
   schedule with its oracles through `sys_step` and prints the model state after EVERY action.
   The Python side (vplib/simproto.py) derives the actions and oracles from a `qv_sim --trace`
   run of the real code and compares each printed state with the simulator's dump.

   stdin, one case per line:
     (replay (workers n) (steps S ..))
       S = (x start 0|1) | (x noop w) | (x inspect w req) | (x resume p) | (x getresult p req)
         | (t d) | (e k ..)                         ; (e) = every queued event
         | (w i K PID DID (expired p..) (awaiters p..) (completed p..))
       K   = - | k
       PID = - | p                                   ; the process that executed instructions
       DID = (did (taken i..) SEL (forget p..) ACT park fin heapy)   ; forget: process sources of the selects completed in the slice
       SEL = - | (sel (targets p..) (cursors c..) (timeouts d..) (start -|t))
       ACT = - | spawn | (deliver t) | (await t..)
       park, heapy = 0|1 ; fin = - | (ok v) | (err e)
   stdout, one line per case:
     (states ST ..) [(fault kind site step)] (premises (actions n) (pid_honest P) (await_honest P) (park_honest P) (time_honest P) (resume_honest P) (relevant (slices n) (sends n) (awaits n) (parks n) (timed n) (resumes n) (timed_parks n)))
                                   ; timed = slices ending inside a select with its start set and a timeout source; timed_parks = those that park
       P = ok | (violated i)       ; the boolean premises of the global theorems (sys/ProtoPremises.v:
                                   ; premises_step) evaluated on the state BEFORE each of the n replayed
                                   ; actions; i = index of the first action on which the premise is false
     (selftest) on stdin: replays a built-in two-action schedule whose slice sends to the unallocated
     pid 7 and prints its (premises ..) — the negative control of the premise check
       ST  = (st NODE .. (env (router (p w)..) (pending (a (exp w..) (resp w..) (ans t..))..) (next n)) (clock t))
       NODE= (node (queue p..) (spawning p..) (selecting p..) (procs (p (mail M..) (res R) (aw (t R)..)) ..)
                   (awaited p..) (awaiters (t (a..))..) (pending (p (req..))..) (cmds C..) (evts V..))
       M = (m from w seq) ; R = - | (ok v) | (err e) ; sets and maps sorted by key
       C = (noop) (I req) (St p 0|1) (S p) (R p) (Q a (t..)) (U a ((t R)..)) (D t M) (N p sp) (G req p)
       V = (SA c) (DA t M) (AA a (t..)) (PR a ((t R)..)) (RR req R) (IR req) *)
open Proto_model

let rec nat_of_int n = if n <= 0 then O else S (nat_of_int (n - 1))
let rec int_of_nat = function O -> 0 | S n -> 1 + int_of_nat n
let nat_of s = nat_of_int (int_of_string (Sexp.atom s))
let si n = string_of_int (int_of_nat n)
let nats l = List.map nat_of l

let section name (items : Sexp.t list) : Sexp.t list =
  let rec go = function
    | Sexp.List (Sexp.Atom n :: rest) :: _ when n = name -> rest
    | _ :: t -> go t
    | [] -> [] in
  go items

let res_of = function
  | Sexp.List [Sexp.Atom "ok"; v] -> Some (ROk (nat_of v))
  | Sexp.List [Sexp.Atom "err"; e] -> Some (RErr (nat_of e))
  | _ -> None

let opt_nat = function Sexp.Atom "-" -> None | a -> Some (nat_of a)

let sel_of = function
  | Sexp.List (Sexp.Atom "sel" :: f) ->
    Some { sl_targets = nats (section "targets" f); sl_cursors = nats (section "cursors" f);
           sl_timeouts = nats (section "timeouts" f);
           sl_start = (match section "start" f with [a] -> opt_nat a | _ -> None) }
  | _ -> None

let act_of = function
  | Sexp.Atom "spawn" -> Some ASpawn
  | Sexp.List [Sexp.Atom "deliver"; t] -> Some (ADeliver (nat_of t))
  | Sexp.List (Sexp.Atom "await" :: ts) -> Some (AAwait (nats ts))
  | _ -> None

let flag s = Sexp.atom s = "1"

let did_of = function
  | Sexp.List [Sexp.Atom "did"; Sexp.List (Sexp.Atom "taken" :: tk); sel; Sexp.List (Sexp.Atom "forget" :: fg); act; park; fin; heapy] ->
    { d_taken = nats tk; d_sel = sel_of sel; d_forget = nats fg; d_act = act_of act; d_park = flag park; d_fin = res_of fin; d_heapy = flag heapy }
  | x -> failwith ("bad did " ^ Sexp.to_string x)

let action_of (s : Sexp.t) : sched_action =
  match s with
  | Sexp.List [Sexp.Atom "x"; Sexp.Atom "start"; b] -> X (XStart (flag b))
  | Sexp.List [Sexp.Atom "x"; Sexp.Atom "noop"; w] -> X (XNoop (nat_of w))
  | Sexp.List [Sexp.Atom "x"; Sexp.Atom "inspect"; w; r] -> X (XInspect (nat_of w, nat_of r))
  | Sexp.List [Sexp.Atom "x"; Sexp.Atom "resume"; p] -> X (XResume (nat_of p))
  | Sexp.List [Sexp.Atom "x"; Sexp.Atom "getresult"; p; r] -> X (XGetResult (nat_of p, nat_of r))
  | Sexp.List [Sexp.Atom "t"; d] -> T (nat_of d)
  | Sexp.List (Sexp.Atom "e" :: ks) -> E (nats ks)
  | Sexp.List (Sexp.Atom "w" :: i :: k :: p :: did :: rest) ->
    W (nat_of i, opt_nat k,
       { o_pid = opt_nat p; o_did = did_of did; o_expired = nats (section "expired" rest);
         o_awaiters = nats (section "awaiters" rest); o_completed = nats (section "completed" rest) })
  | x -> failwith ("bad action " ^ Sexp.to_string x)

(* ------------------------------------------------------------------ rendering *)
let sorted_ints l = List.sort compare (List.map int_of_nat l)
let ints l = String.concat " " (List.map string_of_int l)
let sset l = ints (sorted_ints l)
let olist l = ints (List.map int_of_nat l)

let msg m = Printf.sprintf "(m %s %s %s)" (si m.m_from) (si m.m_w) (si m.m_seq)
let res = function None -> "-" | Some (ROk v) -> "(ok " ^ si v ^ ")" | Some (RErr e) -> "(err " ^ si e ^ ")"
let results rs =
  let l = List.sort compare (List.map (fun (t, r) -> (int_of_nat t, res r)) rs) in
  String.concat " " (List.map (fun (t, r) -> Printf.sprintf "(%d %s)" t r) l)

let cmd = function
  | CNoop -> "(noop)"
  | CInspect r -> "(I " ^ si r ^ ")"
  | CStart (p, sl) -> Printf.sprintf "(St %s %d)" (si p) (if sl then 1 else 0)
  | CSpawn p -> "(S " ^ si p ^ ")"
  | CResume p -> "(R " ^ si p ^ ")"
  | CQuery (a, ts) -> Printf.sprintf "(Q %s (%s))" (si a) (olist ts)
  | CUpdate (a, rs) -> Printf.sprintf "(U %s (%s))" (si a) (results rs)
  | CDeliver (t, m) -> Printf.sprintf "(D %s %s)" (si t) (msg m)
  | CNotifySpawn (p, sp) -> Printf.sprintf "(N %s %s)" (si p) (si sp)
  | CGetResult (r, p) -> Printf.sprintf "(G %s %s)" (si r) (si p)

let event = function
  | ESpawnA c -> "(SA " ^ si c ^ ")"
  | EDeliverA (t, m) -> Printf.sprintf "(DA %s %s)" (si t) (msg m)
  | EAwaitA (a, ts) -> Printf.sprintf "(AA %s (%s))" (si a) (olist ts)
  | EResults (a, rs) -> Printf.sprintf "(PR %s (%s))" (si a) (results rs)
  | EResultResp (r, x) -> Printf.sprintf "(RR %s %s)" (si r) (res (Some x))
  | EInspect r -> "(IR " ^ si r ^ ")"

let proc (p, pr) =
  Printf.sprintf "(%d (mail %s) (res %s) (aw %s))" p
    (String.concat " " (List.map msg pr.p_mail)) (res pr.p_res) (results pr.p_awaiting)

let node nd =
  let w = nd.n_w in
  let procs = List.sort compare (List.map (fun (p, pr) -> (int_of_nat p, pr)) w.w_procs) in
  let awaiters = List.sort compare (List.map (fun (t, l) -> (int_of_nat t, olist l)) w.w_awaiters) in
  let pending = List.sort compare (List.map (fun (p, l) -> (int_of_nat p, olist l)) w.w_pending) in
  Printf.sprintf "(node (queue %s) (spawning %s) (selecting %s) (procs %s) (awaited %s) (awaiters %s) (pending %s) (cmds %s) (evts %s))"
    (olist w.w_queue) (sset w.w_spawning) (sset w.w_selecting)
    (String.concat " " (List.map proc procs)) (sset w.w_awaited)
    (String.concat " " (List.map (fun (t, l) -> Printf.sprintf "(%d (%s))" t l) awaiters))
    (String.concat " " (List.map (fun (p, l) -> Printf.sprintf "(%d (%s))" p l) pending))
    (String.concat " " (List.map cmd nd.n_cmd)) (String.concat " " (List.map event nd.n_evt))

let pending_await (a, pa) =
  let answered = List.concat_map (fun (_, rs) -> List.filter_map (fun (t, r) -> match r with Some _ -> Some t | None -> None) rs) pa.pa_resp in
  (int_of_nat a, Printf.sprintf "(exp %s) (resp %s) (ans %s)" (sset pa.pa_expected) (sset (List.map fst pa.pa_resp)) (sset answered))

let state s =
  let e = s.s_env in
  let router = List.sort compare (List.map (fun (p, w) -> (int_of_nat p, int_of_nat w)) e.e_router) in
  let pend = List.sort compare (List.map pending_await e.e_pending) in
  Printf.sprintf "(st %s (env (router %s) (pending %s) (next %s)) (clock %s))"
    (String.concat " " (List.map node s.s_nodes))
    (String.concat " " (List.map (fun (p, w) -> Printf.sprintf "(%d %d)" p w) router))
    (String.concat " " (List.map (fun (a, t) -> Printf.sprintf "(%d %s)" a t) pend))
    (si e.e_next) (si s.s_clock)

let fault_text = function
  | BadOracle n -> "bad-oracle " ^ si n
  | WorkerErr n -> "worker-err " ^ si n
  | EnvErr n -> "env-err " ^ si n

let premise_names = [| "pid_honest"; "await_honest"; "park_honest"; "time_honest"; "resume_honest" |]

(* replay actions from state s0; returns the text of the states / fault and of the premises *)
let replay_actions (n : nat) (acts : sched_action list) : string =
  let b = Buffer.create 4096 in
  Buffer.add_string b "(states";
  let first = Array.make 5 (-1) in
  let checked = ref 0 in
  (* how many of the actions exercise a premise: slices executed, sends, awaits, parks, selects with a timeout running *)
  let rel = Array.make 7 0 in
  let bump k = rel.(k) <- rel.(k) + 1 in
  let rec go s i = function
    | [] -> ()
    | a :: rest ->
      let ((p0, p1), (p2, p3)) = premises_step s a in
      let p4 = resume_honest_stepb s a in
      incr checked;
      (match a with
       | W (_, _, o) when o.o_pid <> None ->
         bump 0;
         (match o.o_did.d_act with Some (ADeliver _) -> bump 1 | Some (AAwait _) -> bump 2 | _ -> ());
         if o.o_did.d_park then bump 3;
         (match o.o_did.d_sel with Some sl when sl.sl_start <> None && sl.sl_timeouts <> [] -> bump 4; if o.o_did.d_park then bump 6 | _ -> ())
       | X (XResume _) -> bump 5
       | _ -> ());
      List.iteri (fun k ok -> if (not ok) && first.(k) < 0 then first.(k) <- i) [p0; p1; p2; p3; p4];
      (match sys_step s a with
       | Good s' -> Buffer.add_char b ' '; Buffer.add_string b (state s'); go s' (i + 1) rest
       | Fault x -> Buffer.add_string b (Printf.sprintf ") (fault %s %d" (fault_text x) i)) in
  go (init n) 0 acts;
  Buffer.add_string b ")";
  Buffer.add_string b (Printf.sprintf " (premises (actions %d)" !checked);
  Array.iteri (fun k nm ->
      Buffer.add_string b (if first.(k) < 0 then Printf.sprintf " (%s ok)" nm else Printf.sprintf " (%s (violated %d))" nm first.(k)))
    premise_names;
  Buffer.add_string b (Printf.sprintf " (relevant (slices %d) (sends %d) (awaits %d) (parks %d) (timed %d) (resumes %d) (timed_parks %d))" rel.(0) rel.(1) rel.(2) rel.(3) rel.(4) rel.(5) rel.(6));
  Buffer.add_string b ")";
  Buffer.contents b

let selftest () =
  let idle = { d_taken = []; d_sel = None; d_forget = []; d_act = Some (ADeliver (nat_of_int 7)); d_park = false; d_fin = None; d_heapy = false } in
  let o = { o_pid = Some O; o_did = idle; o_expired = [O]; o_awaiters = [O]; o_completed = [O] } in
  replay_actions (S O) [X (XStart false); W (O, None, o)]

let () =
  try
    while true do
      let line = input_line stdin in
      if String.length line > 0 && line.[0] <> '#' then begin
        (try
           match Sexp.parse line with
           | Sexp.List (Sexp.Atom "replay" :: f) ->
             let n = (match section "workers" f with [a] -> nat_of a | _ -> S O) in
             let steps = section "steps" f in
             print_endline (replay_actions n (List.map action_of steps))
           | Sexp.List [Sexp.Atom "selftest"] -> print_endline (selftest ())
           | _ -> print_endline "(bad-case)"
         with Failure m -> print_endline ("(driver-error " ^ String.escaped m ^ ")"))
      end
    done
  with End_of_file -> ()
