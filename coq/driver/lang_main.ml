(* Driver for the reference evaluator (M-Lang, coq/theories/lang/Lang.v).
   stdin: one case per line, the output of `qv_ast`:
     (ast PROGRAM (mod PATH PROGRAM) ...)   or anything else (echoed as (skip LINE))
   stdout: one canonical outcome line per case:
     (ok <value>) <stats>     value dump as qv_eval prints it: (i n) (b hex) (t Name (labels) v..) (f)
     (none)                   the program has no expression statement (type definitions only)
     (err stuck <site>) | (err builtin)
     (timeout)
     (unsupported <what>)     the program leaves the modelled fragment (see Lang.v header)
   <stats> = (st fallthrough commit short match_fail mid_fail closure_call tail_call)
   argv: [fuel] (default 400000) [--std FILE] (bundled std modules, output of qv_ast --std). *)
open Lang_model
module X = Sexp

(* ---- numerals (copied from builtins_main.ml) ---- *)
let rec pos_of_bits = function
  | [] -> failwith "pos_of_bits"
  | [true] -> XH
  | b :: t -> if b then XI (pos_of_bits t) else XO (pos_of_bits t)
let z_of_string (s : string) : z =
  let neg = String.length s > 0 && s.[0] = '-' in
  let s' = if neg then String.sub s 1 (String.length s - 1) else s in
  match X.bits_of_decimal s' with
  | [] -> Z0
  | bits -> if neg then Zneg (pos_of_bits bits) else Zpos (pos_of_bits bits)
let rec bits_of_pos = function XH -> [true] | XO p -> false :: bits_of_pos p | XI p -> true :: bits_of_pos p
let rec int_of_pos = function XH -> 1 | XO p -> 2 * int_of_pos p | XI p -> 2 * int_of_pos p + 1
let int_of_z = function Z0 -> 0 | Zpos p -> int_of_pos p | Zneg p -> - (int_of_pos p)
let small p = let rec len = function XH -> 1 | XO q | XI q -> 1 + len q in len p < 60
let string_of_z = function
  | Z0 -> "0"
  | Zpos p -> if small p then string_of_int (int_of_pos p) else X.decimal_of_bits (bits_of_pos p)
  | Zneg p -> if small p then string_of_int (- (int_of_pos p)) else "-" ^ X.decimal_of_bits (bits_of_pos p)
let rec pos_of_int n = if n = 1 then XH else if n land 1 = 0 then XO (pos_of_int (n lsr 1)) else XI (pos_of_int (n lsr 1))
let z_of_int n = if n = 0 then Z0 else if n > 0 then Zpos (pos_of_int n) else Zneg (pos_of_int (-n))
let z_of_decimal (s : string) : z =
  (* fast path for machine-sized literals *)
  if String.length s <= 17 then z_of_int (int_of_string s) else z_of_string s
let byte_z = Array.init 256 z_of_int
let unhex (s : string) : z list =
  List.init (String.length s / 2) (fun i -> byte_z.(int_of_string ("0x" ^ String.sub s (2 * i) 2)))
let hex (l : z list) : string =
  let b = Buffer.create 16 in
  List.iter (fun x -> Buffer.add_string b (Printf.sprintf "%02x" (int_of_z x))) l;
  Buffer.contents b
let rec nat_of_int n acc = if n = 0 then acc else nat_of_int (n - 1) (S acc)

(* ---- atoms: names interned to integers; the reserved ones are fixed by Lang.v ---- *)
let table : (string, int) Hashtbl.t = Hashtbl.create 256
let names : (int, string) Hashtbl.t = Hashtbl.create 256
let next = ref (int_of_z first_free_atom)
let reserve name a = Hashtbl.replace table name (int_of_z a); Hashtbl.replace names (int_of_z a) name
let () =
  reserve "Ok" a_Ok; reserve "Str" a_Str
(* builtin names live in their own namespace (`integer_add` the builtin vs an identifier of the
   same spelling): prefix them *)
let () =
  List.iter (fun (n, a) -> reserve ("__" ^ n) a)
    ["integer_add", b_integer_add; "integer_subtract", b_integer_subtract;
     "integer_multiply", b_integer_multiply; "integer_divide", b_integer_divide;
     "integer_modulo", b_integer_modulo; "integer_compare", b_integer_compare;
     "integer_abs", b_integer_abs; "integer_gcd", b_integer_gcd; "integer_sqrt", b_integer_sqrt;
     "binary_concat", b_binary_concat; "binary_length", b_binary_length]
let intern (s : string) : z =
  match Hashtbl.find_opt table s with
  | Some i -> z_of_int i
  | None -> let i = !next in incr next; Hashtbl.replace table s i; Hashtbl.replace names i s; z_of_int i
let name_of (a : z) : string =
  match Hashtbl.find_opt names (int_of_z a) with Some s -> s | None -> "?" ^ string_of_z a

exception Unsupported of string

(* ---- reading the AST dump ---- *)
let is_dash = function X.Atom "-" -> true | _ -> false
let opt_atom = function X.Atom "-" -> None | s -> Some (intern (X.atom s))
let xhex_of s = let a = X.atom s in unhex (String.sub a 1 (String.length a - 1))
let literal_of = function
  | X.List [X.Atom "Integer"; n] -> LInteger (z_of_decimal (X.atom n))
  | X.List [X.Atom "Binary"; b] -> LBinary (xhex_of b)
  | _ -> failwith "literal"

let rec type_of (s : X.t) : ty = match s with
  | X.List [X.Atom "TPrimitive"; X.Atom "Int"] -> TPrimitive PInt
  | X.List [X.Atom "TPrimitive"; X.Atom "Bin"] -> TPrimitive PBin
  | X.List [X.Atom "TPrimitive"; X.Atom "Ref"] -> TPrimitive PRef
  | X.List (X.Atom "TTuple" :: name :: X.Atom part :: fields) ->
    TTuple (opt_atom name, part = "partial", List.map (function
        | X.List [X.Atom "FieldT"; n; t] -> FieldT (opt_atom n, type_of t)
        | X.List [X.Atom "SpreadT"; n; X.List args] -> SpreadT (opt_atom n, List.map type_of args)
        | _ -> failwith "field type") fields)
  | X.List [X.Atom "TFunction"; i; o] -> TFunction (type_of i, type_of o)
  | X.List (X.Atom "TUnion" :: ts) -> TUnion (List.map type_of ts)
  | X.List (X.Atom "TIntersection" :: ts) -> TIntersection (List.map type_of ts)
  | X.List [X.Atom "TIdentifier"; n; X.List args] -> TIdentifier (intern (X.atom n), List.map type_of args)
  | X.List [X.Atom "TCycle"; n] -> TCycle (if is_dash n then None else Some (z_of_decimal (X.atom n)))
  | X.List (X.Atom "TProcess" :: _) -> TProcess
  | X.List (X.Atom "TResource" :: _) -> TResource
  | X.List [X.Atom "TModuleType"; X.List m; mem; X.List args] ->
    TModuleType (List.map (fun x -> intern (X.atom x)) m, opt_atom mem, List.map type_of args)
  | X.List [X.Atom "TSelfDefault"; X.List args] -> TSelfDefault (List.map type_of args)
  | _ -> failwith ("type " ^ X.to_string s)

let rec match_of (s : X.t) : pattern = match s with
  | X.List [X.Atom "MIdentifier"; n] -> MIdentifier (intern (X.atom n))
  | X.List [X.Atom "MLiteral"; l] -> MLiteral (literal_of l)
  | X.List [X.Atom "MString"; _; b] -> MString (xhex_of b)
  | X.List (X.Atom "MTuple" :: name :: fields) ->
    MTuple (opt_atom name, List.map (function
        | X.List [X.Atom "MatchField"; n; p] -> MatchField (opt_atom n, match_of p)
        | _ -> failwith "match field") fields)
  | X.List (X.Atom "MPartial" :: name :: fields) ->
    MPartial (opt_atom name, List.map (function
        | X.List [X.Atom "PartialPatternField"; n; p] ->
          PartialPatternField (intern (X.atom n), if is_dash p then None else Some (match_of p))
        | _ -> failwith "partial field") fields)
  | X.List [X.Atom "MStar"; n] -> MStar (opt_atom n)
  | X.List [X.Atom "MPlaceholder"] -> MPlaceholder
  | X.List [X.Atom "MReference"; n] -> MReference (intern (X.atom n))
  | X.List [X.Atom "MType"; t] -> MType (type_of t)
  | X.List (X.Atom "MOr" :: ps) -> MOr (List.map match_of ps)
  | X.List [X.Atom "MAs"; t; n] -> MAs (type_of t, intern (X.atom n))
  | _ -> failwith ("match " ^ X.to_string s)

let access_of (s : X.t) : access = match s with
  | X.List (X.Atom "AccessT" :: src :: paths) ->
    let source = match src with
      | X.Atom "-" -> None
      | X.List [X.Atom "Identifier"; n] -> Some (Identifier (intern (X.atom n)))
      | X.Atom "Parameter" -> Some ParameterSrc
      | X.Atom "Ripple" -> Some Ripple
      | X.List (X.Atom "Import" :: p) -> Some (ImportSrc (List.map (fun x -> intern (X.atom x)) p))
      | X.Atom "SelfSrc" -> Some SelfSrc
      | X.List [X.Atom "Builtin"; n] -> Some (Builtin (intern ("__" ^ X.atom n)))
      | X.List [X.Atom "TailCall"; n] -> Some (TailCall (opt_atom n))
      | X.Atom "TailCallRipple" -> Some TailCallRipple
      | _ -> failwith "access source" in
    let accessors = List.map (function
        | X.List [X.Atom "Field"; n] -> Field (intern (X.atom n))
        | X.List [X.Atom "Index"; i] -> Index (z_of_decimal (X.atom i))
        | _ -> failwith "access path") paths in
    { source; accessors }
  | _ -> failwith "access"

let rec term_of (s : X.t) : term = match s with
  | X.List [X.Atom "Literal"; l] -> Literal (literal_of l)
  | X.List (X.Atom "Tuple" :: name :: fields) ->
    let n = match name with
      | X.Atom "Anonymous" -> Anonymous | X.Atom "Inherit" -> Inherit
      | X.List [X.Atom "Named"; n] -> Named (intern (X.atom n)) | _ -> failwith "tuple name" in
    Tuple (n, List.map (function
        | X.List [X.Atom "TupleField"; fname; X.List [X.Atom "FChain"; c]] -> TupleField (opt_atom fname, FChain (chain_of c))
        | X.List [X.Atom "TupleField"; fname; X.List [X.Atom "FSpread"; n]] -> TupleField (opt_atom fname, FSpread (opt_atom n))
        | _ -> failwith "tuple field") fields)
  | X.List (X.Atom "String" :: _style :: segs) ->
    String (List.map (function
        | X.List [X.Atom "Text"; b] -> Text (xhex_of b)
        | X.List [X.Atom "Hole"; e] -> Hole (expression_of e)
        | _ -> failwith "segment") segs)
  | X.List [X.Atom "Match"; m] -> Match (match_of m)
  | X.List [X.Atom "Block"; e] -> Block (expression_of e)
  | X.List [X.Atom "Function"; X.List tps; pt; rt; body] ->
    Function (List.map (fun x -> intern (X.atom x)) tps,
              (if is_dash pt then None else Some (type_of pt)),
              (if is_dash rt then None else Some (type_of rt)),
              (if is_dash body then None else Some (expression_of body)))
  | X.List [X.Atom "Access"; a] -> Access (access_of a)
  | X.List [X.Atom "Spawn"; t] -> Spawn (term_of t)
  | X.List [X.Atom "Self_"] -> Self_
  | X.List [X.Atom "Select"; X.Atom "-"] -> Select None
  | X.List [X.Atom "Select"; X.List (X.Atom "Some" :: cs)] -> Select (Some (List.map chain_of cs))
  | X.List [X.Atom "Process"; n] -> Process (z_of_decimal (X.atom n))
  | X.List [X.Atom "Reference"; a] -> Reference (access_of a)
  | _ -> failwith ("term " ^ X.to_string s)
and chain_of s = match s with
  | X.List (X.Atom "Chain" :: mp :: terms) ->
    Chain ((match mp with X.Atom "-" -> None | X.List [X.Atom "Some"; m] -> Some (match_of m) | _ -> failwith "mp"),
           List.map term_of terms)
  | _ -> failwith "chain"
and sequence_of = function
  | X.List (X.Atom "Sequence" :: cs) -> Sequence (List.map chain_of cs)
  | _ -> failwith "sequence"
and expression_of = function
  | X.List (X.Atom "ExpressionB" :: bs) ->
    Expression (List.map (function
        | X.List [X.Atom "Branch"; c; k] -> Branch (sequence_of c, if is_dash k then None else Some (sequence_of k))
        | _ -> failwith "branch") bs)
  | _ -> failwith "expression"

let program_of = function
  | X.List (X.Atom "Program" :: stmts) ->
    List.map (function
        | X.List [X.Atom "TypeAlias"; n; X.List tps; t] ->
          TypeAlias (opt_atom n, List.map (fun x -> intern (X.atom x)) tps, type_of t)
        | X.List [X.Atom "Expression"; s] -> StmtExpression (sequence_of s)
        | _ -> failwith "statement") stmts
  | _ -> failwith "program"

(* ---- static fragment check (what the evaluator cannot notice dynamically) ----
   R10: a `#{ .. }` literal without a parameter type whose body mentions `$` relies on the
   parameter type inferred from the call context (a static notion). *)
let rec uses_param_term (t : term) : bool = match t with
  | Access { source = Some ParameterSrc; _ } | Reference { source = Some ParameterSrc; _ } -> true
  | Tuple (_, fs) -> List.exists (function TupleField (_, FChain c) -> uses_param_chain c | _ -> false) fs
  | String segs -> List.exists (function Hole e -> uses_param_expr e | _ -> false) segs
  | Block e -> uses_param_expr e
  | Function _ -> false
  | Spawn t -> uses_param_term t
  | Select (Some cs) -> List.exists uses_param_chain cs
  | _ -> false
and uses_param_chain (Chain (_, ts)) = List.exists uses_param_term ts
and uses_param_seq (Sequence cs) = List.exists uses_param_chain cs
and uses_param_expr (Expression bs) =
  List.exists (fun (Branch (c, k)) -> uses_param_seq c || (match k with Some s -> uses_param_seq s | None -> false)) bs

let rec check_term (t : term) : unit = match t with
  | Function (_, None, _, Some body) ->
    if uses_param_expr body then raise (Unsupported "InferredParameter"); check_expr body
  | Function (_, _, _, Some body) -> check_expr body
  | Tuple (_, fs) -> List.iter (function TupleField (_, FChain c) -> check_chain c | _ -> ()) fs
  | String segs -> List.iter (function Hole e -> check_expr e | _ -> ()) segs
  | Block e -> check_expr e
  | _ -> ()
and check_chain (Chain (_, ts)) = List.iter check_term ts
and check_seq (Sequence cs) = List.iter check_chain cs
and check_expr (Expression bs) =
  List.iter (fun (Branch (c, k)) -> check_seq c; (match k with Some s -> check_seq s | None -> ())) bs
let check_program (p : program) =
  List.iter (function StmtExpression s -> check_seq s | _ -> ()) p

(* module paths imported by a program (terms only: a module type needs no evaluation) *)
let imports_of_program (p : program) : atom list list =
  let acc = ref [] in
  let src (a : access) = match a.source with Some (ImportSrc path) -> acc := path :: !acc | _ -> () in
  let rec term (t : term) = match t with
    | Access a | Reference a -> src a
    | Tuple (_, fs) -> List.iter (function TupleField (_, FChain c) -> chain c | _ -> ()) fs
    | String segs -> List.iter (function Hole e -> expr e | _ -> ()) segs
    | Block e -> expr e
    | Function (_, _, _, Some body) -> expr body
    | Spawn t -> term t
    | Select (Some cs) -> List.iter chain cs
    | _ -> ()
  and chain (Chain (_, ts)) = List.iter term ts
  and seq (Sequence cs) = List.iter chain cs
  and expr (Expression bs) =
    List.iter (fun (Branch (c, k)) -> seq c; (match k with Some s -> seq s | None -> ())) bs in
  List.iter (function StmtExpression s -> seq s | _ -> ()) p;
  !acc

(* ---- printing ---- *)
let rec dump (v : value) : string = match v with
  | VInt n -> "(i " ^ string_of_z n ^ ")"
  | VBin bs -> "(b " ^ hex bs ^ ")"
  | VTuple (name, fs) ->
    let nm = match name with Some a -> name_of a | None -> "-" in
    let labels = String.concat " " (List.map (fun (l, _) -> match l with Some a -> name_of a | None -> "-") fs) in
    "(t " ^ nm ^ " (" ^ labels ^ ")" ^ String.concat "" (List.map (fun (_, x) -> " " ^ dump x) fs) ^ ")"
  | VClos _ | VBuiltin _ -> "(f)"

let site_name (s : z) : string =
  let i = int_of_z s in
  if i < 0 then "Builtin:" ^ name_of (z_of_int (- i))
  else if i = int_of_z u_process then "Process"
  else if i = int_of_z u_type then "Type"
  else if i = int_of_z u_builtin then "Builtin"
  else if i = int_of_z u_module then "Module"
  else if i = int_of_z u_toplevel_tail then "TopLevelTailCall"
  else if i = int_of_z u_typevar then "TypeVariable"
  else string_of_int i

let stats_str (w : stats) : string =
  Printf.sprintf "(st %s %s %s %s %s %s %s)"
    (string_of_z w.n_fallthrough) (string_of_z w.n_commit) (string_of_z w.n_short)
    (string_of_z w.n_match_fail) (string_of_z w.n_mid_fail) (string_of_z w.n_closure_call)
    (string_of_z w.n_tail_call)

(* bundled std modules, preloaded from the file given with --std (output of `qv_ast --std`) *)
let std_mods : (string, program) Hashtbl.t = Hashtbl.create 16
let load_std (file : string) =
  let ic = open_in file in
  (try
     while true do
       let line = input_line ic in
       match X.parse_all line with
       | [X.List [X.Atom "mod"; path; p]] -> Hashtbl.replace std_mods (X.atom path) (program_of p)
       | _ -> ()
     done
   with End_of_file -> ());
  close_in ic

let path_atoms (p : string) = List.map intern (String.split_on_char '/' p)

let run_case (fuel : nat) (line : string) : string =
  match X.parse_all line with
  | [X.List (X.Atom "ast" :: main :: mods)] ->
    (try
       let main = program_of main in
       let own = List.filter_map (function
           | X.List [X.Atom "mod"; path; p] -> Some (path_atoms (X.atom path), program_of p)
           | X.List [X.Atom "use"; _] -> None
           | _ -> failwith "mod") mods in
       (* every std module is visible (they import each other); the case's own modules first *)
       let std = Hashtbl.fold (fun path p acc -> (path_atoms path, p) :: acc) std_mods [] in
       let all = own @ std in
       (* static fragment check of the program and of every module it (transitively) imports *)
       let seen = Hashtbl.create 8 in
       let rec visit (p : program) =
         check_program p;
         List.iter (fun path ->
             if not (Hashtbl.mem seen path) then begin
               Hashtbl.replace seen path ();
               match List.assoc_opt path all with Some m -> visit m | None -> ()
             end) (imports_of_program p) in
       visit main;
       if collect_chains main = [] then "(none)"
       else
         match eval_program all fuel main with
         | Ret (v, w) -> "(ok " ^ dump v ^ ") " ^ stats_str w
         | TailC _ -> "(err stuck tail)"
         | Error (EStuck s) -> "(err stuck " ^ string_of_z s ^ ")"
         | Error EBuiltin -> "(err builtin)"
         | Error (EUnsupported s) -> "(unsupported " ^ site_name s ^ ")"
         | Timeout -> "(timeout)"
     with
     | Unsupported what -> "(unsupported " ^ what ^ ")"
     | Stack_overflow -> "(stack-overflow)"
     | Failure m -> "(driver-error " ^ String.escaped m ^ ")")
  | _ -> "(skip " ^ (if String.length line > 40 then String.sub line 0 40 else line) ^ ")"

(* --norm: `(norm BEFORE AFTER)` -> does the extracted model of simplify.rs (LangSimplify.normalize)
   map BEFORE to AFTER?  (structural comparison of the two parsed ASTs) *)
let norm_case (line : string) : string =
  match X.parse_all line with
  | [X.List [X.Atom "norm"; before; after]] ->
    (try
       let b = program_of before and a = program_of after in
       if normalize b = a then "(norm ok)"
       else if b = a then "(norm diff model-changes-real-does-not)"
       else if normalize b = b then "(norm diff real-changes-model-does-not)"
       else "(norm diff both-change)"
     with Failure m -> "(driver-error " ^ String.escaped m ^ ")")
  | _ -> "(skip " ^ (if String.length line > 40 then String.sub line 0 40 else line) ^ ")"

(* --compile: `(ast PROGRAM ..)` -> the code the mirror LangCompile.compile_program emits, printed
   like `qv_ast --code` (constants and tuple ids resolved), or (not-in-fragment) *)
let compile_case (line : string) : string =
  match X.parse_all line with
  | [X.List (X.Atom "ast" :: main :: _)] ->
    (try
       let p = normalize (program_of main) in
       (* tables: every integer literal, every tuple-literal shape, every function body and every
          name bound to a function literal in the (normalised) program *)
       let pool = ref [] and shapes = ref [ (None, []); (Some a_Ok, []) ] in
       let bodies = ref [] and funnames = ref [] in
       let add_z z = if not (List.mem z !pool) then pool := !pool @ [z] in
       let add_shape sh = if not (List.mem sh !shapes) then shapes := !shapes @ [sh] in
       let rec term (t : term) = match t with
         | Literal (LInteger z) -> add_z z
         | Match (MLiteral (LInteger z)) -> add_z z
         | Tuple (name, fs) ->
           List.iter (function TupleField (_, FChain c) -> chain c | _ -> ()) fs;
           add_shape ((match name with Named a -> Some a | _ -> None), List.map (fun (TupleField (l, _)) -> l) fs)
         | Block e -> expr e
         | Function (_, _, _, Some body) ->
           expr body; if not (List.mem body !bodies) then bodies := !bodies @ [body]
         | _ -> ()
       and expr (Expression bs) =
         List.iter (fun (Branch (Sequence cs, k)) ->
             List.iter chain cs; (match k with Some (Sequence ks) -> List.iter chain ks | None -> ())) bs
       and chain (Chain (mp, ts)) =
         (match mp, ts with
          | Some (MIdentifier f), [Function _] -> if not (List.mem f !funnames) then funnames := f :: !funnames
          | _ -> ());
         List.iter term ts in
       List.iter (function StmtExpression (Sequence cs) -> List.iter chain cs | _ -> ()) p;
       let isfun x = List.mem x !funnames in
       let fnum body =
         let rec idx i = function [] -> None | b :: r -> if b = body then Some (nat_of_int i O) else idx (i + 1) r in
         idx 0 !bodies in
       let nat_int n = let rec go n acc = match n with O -> acc | S m -> go m (acc + 1) in go n 0 in
       let rec show (code : instr list) = "(code " ^ String.concat " " (List.map instr code) ^ ")"
       and instr (i : instr) = match i with
         | IConstant k -> "(const " ^ string_of_z (List.nth !pool (nat_int k)) ^ ")"
         | ITuple t ->
           let (nm, ls) = List.nth !shapes (nat_int t) in
           "(tuple " ^ (match nm with Some a -> name_of a | None -> "-") ^ " (" ^
           String.concat " " (List.map (function Some a -> name_of a | None -> "-") ls) ^ "))"
         | IPop -> "(pop)" | IDuplicate -> "(dup)"
         | IPick n -> "(pick " ^ string_of_int (nat_int n) ^ ")"
         | IRotate n -> "(rot " ^ string_of_int (nat_int n) ^ ")"
         | IReset n -> "(reset " ^ string_of_int (nat_int n) ^ ")"
         | ILoad n -> "(load " ^ string_of_int (nat_int n) ^ ")"
         | IStore -> "(store)"
         | IGet n -> "(get " ^ string_of_int (nat_int n) ^ ")"
         | IJump o -> "(jmp " ^ string_of_z o ^ ")"
         | IJumpIf o -> "(jmpif " ^ string_of_z o ^ ")"
         | INot -> "(not)"
         | IEqual n -> "(equal " ^ string_of_int (nat_int n) ^ ")"
         | ICall -> "(call)"
         | IFunction k ->
           (match function_code !pool !shapes isfun fnum (List.nth !bodies (nat_int k)) with
            | Some c -> "(fn 0 " ^ show c ^ ")"
            | None -> raise Exit)
         | _ -> "(other)" in
       (match compile_program !pool !shapes isfun fnum p with
        | None -> "(not-in-fragment)"
        | Some code -> (try show code with Exit -> "(not-in-fragment)"))
     with Failure m -> "(driver-error " ^ String.escaped m ^ ")")
  | _ -> "(skip)"

let () =
  if Array.length Sys.argv > 1 && Sys.argv.(1) = "--compile" then begin
    (try
       while true do
         let line = input_line stdin in
         if String.length line > 0 then begin
           let ast = match String.index_opt line '\t' with Some i -> String.sub line 0 i | None -> line in
           print_endline (compile_case ast)
         end
       done
     with End_of_file -> ());
    exit 0
  end;
  if Array.length Sys.argv > 1 && Sys.argv.(1) = "--norm" then begin
    (try
       while true do
         let line = input_line stdin in
         if String.length line > 0 then print_endline (norm_case line)
       done
     with End_of_file -> ());
    exit 0
  end;
  let fuel_n = ref 400000 in
  let i = ref 1 in
  while !i < Array.length Sys.argv do
    (match Sys.argv.(!i) with
     | "--std" -> incr i; load_std Sys.argv.(!i)
     | n -> fuel_n := int_of_string n);
    incr i
  done;
  let fuel = nat_of_int !fuel_n O in
  (try
     while true do
       let line = input_line stdin in
       if String.length line > 0 then begin
         (* the AST dump may be followed by a tab and the real VM's outcome: evaluate the first part *)
         let ast = match String.index_opt line '\t' with Some i -> String.sub line 0 i | None -> line in
         print_endline (run_case fuel ast)
       end
     done
   with End_of_file -> ())
