(* Driver for the C14 model (res/Own.v): one real run per stdin line (the `(run ...)` expression
   printed by harness qv_own), replayed event by event on the extracted automaton.

   in : (run ... (steps STEP...) ...)      STEP = (term p) | (ev EVENT (calls CALL...) (watch p..) (own ...))
        the EVENT and — for an effect request — the backend's ANSWER found in the real CALLs are the
        model's inputs; the real calls/own are ignored here (the checker diffs them).
   out: (model (steps STEP'...) (final (own (r p)..)) (dead p..) (pending p..) (next n) (closes r..)
               (classes (early b) (f47 b) (stale-transfer b) (fresh b))   the Coq monitors of res/Own.v
               (watched p..))   WatchProcess commands not yet answered at the end (multiset)
        STEP' = (term p) | (ev EVENT' (calls CALL'..) (watch p..) (own (r p)..))   CALL' = (exec p EFF) | (close r)
        (watch p..) = the WatchProcess commands the model sends in the step
        own sorted by resource id; the closes of one step sorted (HashMap iteration order is not
        observable); EVENT' = EVENT with the child pid the MODEL allocates for a spawn. *)
open Own_model

let rec pos_of_bits = function
  | [] -> failwith "pos_of_bits"
  | [true] -> XH
  | b :: t -> if b then XI (pos_of_bits t) else XO (pos_of_bits t)

let n_of_string (s : string) : n =
  match Sexp.bits_of_decimal s with
  | [] -> N0
  | bits -> Npos (pos_of_bits bits)

let rec bits_of_pos = function XH -> [true] | XO p -> false :: bits_of_pos p | XI p -> true :: bits_of_pos p
let string_of_n = function
  | N0 -> "0"
  | Npos p -> Sexp.decimal_of_bits (bits_of_pos p)

let rec int_of_pos = function XH -> 1 | XO p -> 2 * int_of_pos p | XI p -> 2 * int_of_pos p + 1
let int_of_n = function N0 -> 0 | Npos p -> int_of_pos p

let natom s = n_of_string (Sexp.atom s)

let rec val_of (s : Sexp.t) : val0 =
  match s with
  | Sexp.Atom _ | Sexp.Str _ -> VOther
  | Sexp.List (Sexp.Atom "res" :: [r]) -> VRes (natom r)
  | Sexp.List (Sexp.Atom "t" :: fs) -> VTuple (List.map val_of fs)
  | Sexp.List (Sexp.Atom "f" :: cs) -> VFun (List.map val_of cs)
  | _ -> failwith "bad value"

let effect_of (s : Sexp.t) : effect =
  match s with
  | Sexp.List [Sexp.Atom "open"; n] -> Open (natom n)
  | Sexp.List [Sexp.Atom "use"; r; n] -> Op (natom r, natom n)
  | _ -> failwith "bad effect"

let result_of (s : Sexp.t) : val0 option =
  match s with
  | Sexp.Atom "err" -> None
  | v -> Some (val_of v)

let answer_of (s : Sexp.t) : answer =
  match s with
  | Sexp.List [Sexp.Atom "now"; r] -> ANow (result_of r)
  | Sexp.List [Sexp.Atom "async"] -> AAsync
  | Sexp.List [Sexp.Atom "fail"] -> AFail
  | _ -> failwith "bad answer"

(* the answer the real backend gave in this step, if it was asked *)
let rec real_answer (calls : Sexp.t list) : answer =
  match calls with
  | Sexp.List [Sexp.Atom "exec"; _; _; a] :: _ -> answer_of a
  | _ :: t -> real_answer t
  | [] -> AFail

let effect_text = function
  | Open n -> Printf.sprintf "(open %s)" (string_of_n n)
  | Op (r, n) -> Printf.sprintf "(use %s %s)" (string_of_n r) (string_of_n n)

let own_text (m : omap) : string =
  let l = List.map (fun (r, p) -> (int_of_n r, string_of_n r, string_of_n p)) m in
  let l = List.sort compare l in
  "(own" ^ String.concat "" (List.map (fun (_, r, p) -> Printf.sprintf " (%s %s)" r p) l) ^ ")"

let calls_text (cs : call list) : string =
  (* keep execs in order; sort the run of closes (one cleanup batch per step in practice) *)
  let execs = List.filter_map (function CExec (p, e) -> Some (Printf.sprintf "(exec %s %s)" (string_of_n p) (effect_text e)) | _ -> None) cs in
  let cl = List.filter_map (function CClose r -> Some (int_of_n r) | _ -> None) cs in
  let cl = List.sort compare cl in
  "(calls" ^ String.concat "" (List.map (fun s -> " " ^ s) (execs @ List.map (fun r -> Printf.sprintf "(close %d)" r) cl)) ^ ")"

let section name (items : Sexp.t list) : Sexp.t list =
  let rec go = function
    | Sexp.List (Sexp.Atom a :: rest) :: _ when a = name -> rest
    | _ :: t -> go t
    | [] -> [] in
  go items

let run_line (line : string) : string =
  let items = Sexp.list (Sexp.parse line) in
  let steps = section "steps" items in
  let st = ref init in
  let hist = ref [] in
  let out = Buffer.create 256 in
  Buffer.add_string out "(model (steps";
  List.iter (fun item ->
      match item with
      | Sexp.List [Sexp.Atom "term"; p] ->
        st := step !st (ETerminate (natom p));
        hist := ETerminate (natom p) :: !hist;
        Buffer.add_string out (Printf.sprintf " (term %s)" (Sexp.atom p))
      | Sexp.List (Sexp.Atom "ev" :: ev :: rest) ->
        let real_calls = section "calls" rest in
        let (e, text) =
          match ev with
          | Sexp.List [Sexp.Atom "eff"; p; eff] ->
            (EEffect (natom p, effect_of eff, real_answer real_calls), Sexp.to_string ev)
          | Sexp.List [Sexp.Atom "complete"; p; r] -> (EComplete (natom p, result_of r), Sexp.to_string ev)
          | Sexp.List [Sexp.Atom "spawn"; caller; _; Sexp.List vals] ->
            (ESpawn (natom caller, List.map val_of vals),
             Printf.sprintf "(spawn %s %s %s)" (Sexp.atom caller) (string_of_n (!st).next_pid)
               (Sexp.to_string (Sexp.List vals)))
          | Sexp.List [Sexp.Atom "send"; target; v; from] ->
            (ESend ((match from with Sexp.Atom "?" -> N0 | f -> natom f), natom target, val_of v), Sexp.to_string ev)
          | Sexp.List [Sexp.Atom "results"; _; Sexp.List ps] -> (EResults (List.map natom ps), Sexp.to_string ev)
          | Sexp.List [Sexp.Atom "terminated"; p] -> (EWatchReport (natom p), Sexp.to_string ev)
          | _ -> (EOther, Sexp.to_string ev) in
        let calls = new_calls !st e in
        let before = List.length (!st).watched in
        st := step !st e;
        hist := e :: !hist;
        (* WatchProcess commands sent in this step = entries added in front of `watched` *)
        let added = List.length (!st).watched - before in
        let rec firstn n l = if n <= 0 then [] else match l with [] -> [] | x :: t -> x :: firstn (n - 1) t in
        let watches = List.rev (firstn added (!st).watched) in
        let watch_text = "(watch" ^ String.concat "" (List.map (fun p -> " " ^ string_of_n p) watches) ^ ")" in
        Buffer.add_string out (Printf.sprintf " (ev %s %s %s %s)" text (calls_text calls) watch_text (own_text (!st).owner))
      | _ -> failwith "bad step") steps;
  let s = !st in
  let ns l = String.concat "" (List.map (fun p -> " " ^ string_of_n p) l) in
  let h = List.rev !hist in
  let b x = if x then "true" else "false" in
  let rec nodup = function [] -> true | x :: t -> not (List.mem x t) && nodup t in
  Buffer.add_string out
    (Printf.sprintf ") (final %s) (dead%s) (pending%s) (next %s) (closes%s) (classes (early %s) (f47 %s) (stale-transfer %s) (fresh %s)) (watched%s))"
       (own_text s.owner)
       (ns (List.sort compare s.dead |> List.sort_uniq compare)) (ns s.pending) (string_of_n s.next_pid)
       (ns (closes s.log))
       (b (anyb early_reportb init h)) (b (anyb stale_useb init h)) (b (anyb stale_transferb init h))
       (b (nodup (List.map int_of_n (issued h))))
       (ns (List.sort compare s.watched)));
  Buffer.contents out

let () =
  try
    while true do
      let line = input_line stdin in
      if String.length line > 0 && line.[0] <> '#' then
        print_endline (try run_line line with Failure m -> "(model-error " ^ m ^ ")" | Not_found -> "(model-error not-found)")
    done
  with End_of_file -> ()
