(* Driver for the extracted bytecode verifier.
   stdin: lines produced by qv_compile: `(compiled (prog <name> (entry e) (consts ..) (fns ..) (tuples ..)
   (nbuiltins n) (ntypes n)) ...)` (other lines are echoed as `(skip)`).
   stdout per line: `(verified (<name> ok <nfuncs> <ninstrs> <maxh> <maxl>) | (<name> reject (fn i) (pc n) "<why>") ...)`.
   With `--annot`, every accepted function's annotation is printed too:
   `(annot <name> (fn i (h lo hi | -) ...) ...)` on following lines. *)
open Wf_model

let rec nat_of_int n = if n <= 0 then O else S (nat_of_int (n - 1))
let rec int_of_nat = function O -> 0 | S n -> 1 + int_of_nat n
let rec pos_of_int n = if n = 1 then XH else if n land 1 = 0 then XO (pos_of_int (n lsr 1)) else XI (pos_of_int (n lsr 1))
let z_of_int n = if n = 0 then Z0 else if n > 0 then Zpos (pos_of_int n) else Zneg (pos_of_int (-n))

let ios s = int_of_string (Sexp.atom s)

let instr_of (s : Sexp.t) : instr =
  match s with
  | Sexp.List (Sexp.Atom h :: args) ->
    let a i = ios (List.nth args i) in
    (match h with
     | "const" -> IConstant (nat_of_int (a 0)) | "pop" -> IPop | "dup" -> IDuplicate
     | "pick" -> IPick (nat_of_int (a 0)) | "rot" -> IRotate (nat_of_int (a 0)) | "reset" -> IReset (nat_of_int (a 0))
     | "load" -> ILoad (nat_of_int (a 0)) | "store" -> IStore | "tuple" -> ITuple (nat_of_int (a 0))
     | "get" -> IGet (nat_of_int (a 0)) | "istype" -> IIsType (nat_of_int (a 0))
     | "jmp" -> IJump (z_of_int (a 0)) | "jmpif" -> IJumpIf (z_of_int (a 0)) | "call" -> ICall
     | "tailcall" -> ITailCall (a 0 = 1) | "fn" -> IFunction (nat_of_int (a 0)) | "builtin" -> IBuiltin (nat_of_int (a 0))
     | "equal" -> IEqual (nat_of_int (a 0)) | "not" -> INot | "spawn" -> ISpawn | "send" -> ISend | "self" -> ISelf
     | "select" -> ISelect | "process" -> IProcess (nat_of_int (a 0), nat_of_int (a 1))
     | _ -> failwith ("unknown instruction " ^ h))
  | _ -> failwith "bad instruction"

let field name (l : Sexp.t list) : Sexp.t list =
  let rec go = function
    | Sexp.List (Sexp.Atom n :: rest) :: _ when n = name -> rest
    | _ :: t -> go t
    | [] -> failwith ("missing field " ^ name) in
  go l

let program_of (fields : Sexp.t list) : program * int =
  let consts = List.map (fun c -> if Sexp.atom c = "i" then CInt Z0 else CBin) (field "consts" fields) in
  let fns = List.map (fun f ->
      match f with
      | Sexp.List [Sexp.Atom "fn"; caps; _ty; Sexp.List (Sexp.Atom "ins" :: ins)] ->
        { f_code = List.map instr_of ins; f_caps = nat_of_int (ios caps) }
      | _ -> failwith "bad fn") (field "fns" fields) in
  let tuples = List.map (fun t -> nat_of_int (ios t)) (field "tuples" fields) in
  let nb = ios (List.hd (field "nbuiltins" fields)) in
  let nt = ios (List.hd (field "ntypes" fields)) in
  let ninstr = List.fold_left (fun acc f -> acc + List.length f.f_code) 0 fns in
  ({ p_consts = consts; p_funcs = fns; p_tuples = tuples; p_nbuiltins = nat_of_int nb; p_ntypes = nat_of_int nt }, ninstr)

let show_instr (i : instr) : string =
  match i with
  | IConstant _ -> "const" | IPop -> "pop" | IDuplicate -> "dup" | IPick _ -> "pick" | IRotate _ -> "rot"
  | IReset _ -> "reset" | ILoad _ -> "load" | IStore -> "store" | ITuple _ -> "tuple" | IGet _ -> "get"
  | IIsType _ -> "istype" | IJump _ -> "jmp" | IJumpIf _ -> "jmpif" | ICall -> "call" | ITailCall _ -> "tailcall"
  | IFunction _ -> "fn" | IBuiltin _ -> "builtin" | IEqual _ -> "equal" | INot -> "not" | ISpawn -> "spawn"
  | ISend -> "send" | ISelf -> "self" | ISelect -> "select" | IProcess _ -> "process"

let show_ann = function
  | None -> "-"
  | Some a -> Printf.sprintf "(%d %d %d)" (int_of_nat a.a_h) (int_of_nat a.a_lo) (int_of_nat a.a_hi)

(* diagnose a rejected function: where does the proved checker fail? *)
let diagnose (p : program) (fd : func) : string =
  match infer_function p fd with
  | None ->
    (* find how far a height-only walk gets: report generic message *)
    "(pc -1) \"inference failed: conflicting stack heights at a join, a rejected instruction, or no fixpoint\""
  | Some a ->
    let len = List.length fd.f_code in
    let rec find pc =
      if pc > len then "(pc -1) \"entry/length condition failed\""
      else if check_pc p fd.f_caps fd.f_code a (nat_of_int pc) then find (pc + 1)
      else
        let ins = if pc < len then show_instr (List.nth fd.f_code pc) else "end" in
        Printf.sprintf "(pc %d) \"%s rejected at state %s\"" pc ins (show_ann (List.nth a pc)) in
    find 0

(* a finer diagnosis when inference itself fails: simulate passes and report the first pc whose
   transfer is rejected or whose merge conflicts *)
let diagnose_infer (p : program) (fd : func) : string =
  let len = List.length fd.f_code in
  let a = Array.make (len + 1) None in
  a.(0) <- Some { a_h = nat_of_int 1; a_lo = fd.f_caps; a_hi = fd.f_caps };
  let msg = ref None in
  let changed = ref true in
  let rounds = ref 0 in
  while !changed && !msg = None && !rounds < len + 4 do
    changed := false; incr rounds;
    for pc = 0 to len - 1 do
      if !msg = None then
        match a.(pc) with
        | None -> ()
        | Some st ->
          let i = List.nth fd.f_code pc in
          (match transfer p fd.f_caps (nat_of_int len) (nat_of_int pc) i st with
           | None -> msg := Some (Printf.sprintf "(pc %d) \"%s rejected at state %s\"" pc (show_instr i) (show_ann (Some st)))
           | Some scs ->
             List.iter (fun (t, st') ->
                 let t = int_of_nat t in
                 if t > len then msg := Some (Printf.sprintf "(pc %d) \"%s jumps outside the function (target %d, len %d)\"" pc (show_instr i) t len)
                 else match a.(t) with
                   | None -> a.(t) <- Some st'; changed := true
                   | Some b ->
                     if int_of_nat b.a_h <> int_of_nat st'.a_h then
                       msg := Some (Printf.sprintf "(pc %d) \"join at %d has heights %d and %d\"" pc t (int_of_nat b.a_h) (int_of_nat st'.a_h))
                     else begin
                       let lo = min (int_of_nat b.a_lo) (int_of_nat st'.a_lo) and hi = max (int_of_nat b.a_hi) (int_of_nat st'.a_hi) in
                       if lo <> int_of_nat b.a_lo || hi <> int_of_nat b.a_hi then begin
                         a.(t) <- Some { a_h = b.a_h; a_lo = nat_of_int lo; a_hi = nat_of_int hi }; changed := true end
                     end) scs)
    done
  done;
  match !msg with
  | Some m -> m
  | None ->
    (match a.(len) with
     | Some st when int_of_nat st.a_h <> 1 -> Printf.sprintf "(pc %d) \"function ends with %d values on its stack\"" len (int_of_nat st.a_h)
     | _ -> "(pc -1) \"no fixpoint within fuel\"")

(* annotations of the last verified `as-compiled` program, for checking real traces against them *)
let last_annots : (astate option array array) option ref = ref None
let last_code : instr array array ref = ref [||]

let verify_prog (print_annot : bool) (name : string) (fields : Sexp.t list) : string * string list =
  let (p, ninstr) = program_of fields in
  let collected = ref [] in
  let rec go idx fs (mh, ml, annots) =
    match fs with
    | [] -> Ok (mh, ml, List.rev annots)
    | fd :: rest ->
      (match verify_function p fd with
       | Some a ->
         collected := Array.of_list a :: !collected;
         let line = if print_annot then
             [Printf.sprintf "(annot %s (fn %d %s))" name idx (String.concat " " (List.map show_ann a))] else [] in
         go (idx + 1) rest (max mh (int_of_nat (max_height a)), max ml (int_of_nat (max_locals a)), line @ annots)
       | None ->
         let d = match infer_function p fd with None -> diagnose_infer p fd | Some _ -> diagnose p fd in
         Error (Printf.sprintf "(%s reject (fn %d) %s)" name idx d)) in
  (* table cross-references (vm/Tables.v): only when the dump carries them *)
  let tables_verdict =
    try
      let nats l = List.map (fun x -> nat_of_int (ios x)) l in
      let tys = List.map (fun t -> match t with
          | Sexp.List [Sexp.Atom "ty"; Sexp.List a; Sexp.List b] -> (nats a, nats b)
          | _ -> failwith "bad ty") (field "tyrefs" fields) in
      let tups = List.map (fun t -> nats (Sexp.list t)) (field "tuprefs" fields) in
      let bis = List.map (fun t -> match Sexp.list t with [a; b] -> (nat_of_int (ios a), nat_of_int (ios b)) | _ -> failwith "bad bi") (field "birefs" fields) in
      let fnt = List.map (fun f -> match f with
          | Sexp.List [Sexp.Atom "fn"; _; ty; _] -> nat_of_int (ios ty)
          | _ -> failwith "bad fn") (field "fns" fields) in
      Some (tables_ok { tb_types = tys; tb_tuples = tups; tb_builtins = bis; tb_fn_types = fnt })
    with Failure _ -> None in
  let r = go 0 p.p_funcs (0, 0, []) in
  let r = match r, tables_verdict with
    | Ok _, Some false -> Error (Printf.sprintf "(%s reject (fn -1) (pc -1) \"a type/tuple id mentioned inside the program's tables is out of range\")" name)
    | _ -> r in
  (if name = "as-compiled" then last_code := Array.of_list (List.map (fun fd -> Array.of_list fd.f_code) p.p_funcs));
  (if name = "as-compiled" then
     last_annots := (match r with Ok _ -> Some (Array.of_list (List.rev !collected)) | Error _ -> None));
  match r with
  | Ok (mh, ml, annots) -> (Printf.sprintf "(%s ok %d %d %d %d)" name (List.length p.p_funcs) ninstr mh ml, annots)
  | Error e -> (e, [])

(* Check a real execution trace (hook H6) against the verifier's annotation: at every executed
   instruction, operand-stack height above the frame's base and locals above locals_base must be
   what the annotation says. Frame bases are reconstructed from frames_len. *)
let check_trace (entries : Sexp.t list) : string =
  match !last_annots with
  | None -> "(trace-skip no-annotation)"
  | Some ann ->
    let frames : (int * int) list ref = ref [] in   (* (fn, stack base), innermost first *)
    let n = ref 0 in
    let bad = ref None in
    List.iter (fun e ->
        if !bad = None then
          match e with
          | Sexp.List [f; pc; sl; ll; lb; fl] ->
            let f = ios f and pc = ios pc and sl = ios sl and ll = ios ll and lb = ios lb and fl = ios fl in
            while List.length !frames > fl do frames := List.tl !frames done;
            if List.length !frames < fl then frames := (f, sl - 1) :: !frames
            else (match !frames with (f0, b) :: rest when f0 <> f -> frames := (f, b) :: rest | _ -> ());
            let base = match !frames with (_, b) :: _ -> b | [] -> 0 in
            incr n;
            if f >= Array.length ann || pc >= Array.length ann.(f) then
              bad := Some (Printf.sprintf "(trace-mismatch %d (fn %d) (pc %d) \"outside the annotation\")" !n f pc)
            else (match ann.(f).(pc) with
                | None -> bad := Some (Printf.sprintf "(trace-mismatch %d (fn %d) (pc %d) \"executed a pc the verifier deems unreachable\")" !n f pc)
                | Some a ->
                  let h = int_of_nat a.a_h and lo = int_of_nat a.a_lo and hi = int_of_nat a.a_hi in
                  (* a Select is re-entered at the same pc after its source value has been popped
                     into the select state (and again with a filter's verdict on top): heights h-1 and h *)
                  let is_select = (try (match (!last_code).(f).(pc) with ISelect -> true | _ -> false) with _ -> false) in
                  let h_ok = sl - base = h || (is_select && sl - base = h - 1) in
                  if not h_ok || ll - lb < lo || ll - lb > hi then
                    bad := Some (Printf.sprintf "(trace-mismatch %d (fn %d) (pc %d) \"annotation (%d %d %d), real height %d locals %d\")" !n f pc h lo hi (sl - base) (ll - lb)))
          | _ -> ()) entries;
    match !bad with Some m -> m | None -> Printf.sprintf "(trace-ok %d)" !n

let () =
  let print_annot = Array.length Sys.argv > 1 && Sys.argv.(1) = "--annot" in
  try
    while true do
      let line = input_line stdin in
      match (try Some (Sexp.parse line) with _ -> None) with
      | Some (Sexp.List (Sexp.Atom "compiled" :: progs)) ->
        let results = List.map (fun pr ->
            match pr with
            | Sexp.List (Sexp.Atom "prog" :: Sexp.Atom name :: fields) ->
              (try verify_prog print_annot name fields with Failure m -> (Printf.sprintf "(%s driver-error \"%s\")" name m, []))
            | other -> ("(" ^ Sexp.to_string other ^ ")", [])) progs in
        print_endline ("(verified " ^ String.concat " " (List.map fst results) ^ ")");
        List.iter (fun (_, ann) -> List.iter print_endline ann) results
      | Some (Sexp.List (Sexp.Atom "trace" :: Sexp.Atom outcome :: entries)) ->
        print_endline (match outcome with
            | "none" -> "(trace-skip not-compiled)"
            | _ -> check_trace entries)
      | _ -> print_endline "(skip)"
    done
  with End_of_file -> ()
