(* Driver for the dict (HAMT) model: one history per stdin line
     (hist OP OP ...)
   OP producing a dict register (numbered 0,1,.. in creation order):
     (new) | (put R K V) | (remove R K) | (merge Ra Rb) | (from (K V) (K V) ...)
   OP producing an observation:
     (get R K) | (has R K) | (count R) | (entries R) | (keys R) | (values R) | (iter R) | (dump R)
   K = (s HEX) (a Str key) | (b HEX) (a binary key), HEX possibly absent (empty); V a decimal integer.
   Prints the observations as ONE canonical value line in exactly the format of the harness
   qv_eval for the tuple [obs1, obs2, ...]: `(ok (t - (- - ..) obs..))`; `(out-of-fuel N)` when the
   model runs out of fuel at op N (never, by C19_put/C19_remove/C19_get/C19_entries).
   With `--hash`, each line is a key K and the output is the model's FNV-1a hash. *)
open Hamt_model

let rec pos_of_bits = function   (* bits LSB first, last bit true *)
  | [] -> failwith "pos_of_bits"
  | [true] -> XH
  | b :: t -> if b then XI (pos_of_bits t) else XO (pos_of_bits t)

let z_of_string (s : string) : z =
  let neg = String.length s > 0 && s.[0] = '-' in
  let s' = if neg then String.sub s 1 (String.length s - 1) else s in
  match Sexp.bits_of_decimal s' with
  | [] -> Z0
  | bits -> if neg then Zneg (pos_of_bits bits) else Zpos (pos_of_bits bits)

let rec bits_of_pos = function XH -> [true] | XO p -> false :: bits_of_pos p | XI p -> true :: bits_of_pos p
let string_of_z = function
  | Z0 -> "0"
  | Zpos p -> Sexp.decimal_of_bits (bits_of_pos p)
  | Zneg p -> "-" ^ Sexp.decimal_of_bits (bits_of_pos p)

let rec int_of_pos = function XH -> 1 | XO p -> 2 * int_of_pos p | XI p -> 2 * int_of_pos p + 1
let int_of_z = function Z0 -> 0 | Zpos p -> int_of_pos p | Zneg p -> - (int_of_pos p)
let rec pos_of_int n = if n = 1 then XH else if n land 1 = 0 then XO (pos_of_int (n lsr 1)) else XI (pos_of_int (n lsr 1))
let z_of_int n = if n = 0 then Z0 else if n > 0 then Zpos (pos_of_int n) else Zneg (pos_of_int (-n))

let unhex (s : string) : z list =
  List.init (String.length s / 2) (fun i -> z_of_int (int_of_string ("0x" ^ String.sub s (2 * i) 2)))
let hex (l : z list) : string = String.concat "" (List.map (fun b -> Printf.sprintf "%02x" (int_of_z b)) l)

let key_of (s : Sexp.t) : qkey =
  match s with
  | Sexp.List [Sexp.Atom "s"; h] -> KStr (unhex (Sexp.atom h))
  | Sexp.List [Sexp.Atom "s"] -> KStr []
  | Sexp.List [Sexp.Atom "b"; h] -> KBin (unhex (Sexp.atom h))
  | Sexp.List [Sexp.Atom "b"] -> KBin []
  | _ -> failwith ("bad key " ^ Sexp.to_string s)

(* canonical dumps, identical to qvh::dump_value on the corresponding Quiver values *)
let dump_int z = "(i " ^ string_of_z z ^ ")"
let dump_key = function
  | KStr b -> "(t Str (-) (b " ^ hex b ^ "))"
  | KBin b -> "(b " ^ hex b ^ ")"
let nil = "(t - ())"
let rec dump_list (f : 'a -> string) (l : 'a list) : string =
  match l with
  | [] -> "(t Nil ())"
  | x :: t -> "(t Cons (- -) " ^ f x ^ " " ^ dump_list f t ^ ")"
let dump_pair (k, v) = "(t - (- -) " ^ dump_key k ^ " " ^ dump_int v ^ ")"
let rec dump_dict (d : qdict) : string =
  match d with
  | Empty -> "(t Empty ())"
  | Leaf (h, k, v) -> "(t Leaf (- - -) " ^ dump_int h ^ " " ^ dump_key k ^ " " ^ dump_int v ^ ")"
  | Collision (h, es) -> "(t Collision (- -) " ^ dump_int h ^ " " ^ dump_list dump_pair es ^ ")"
  | Node (bm, cs) -> "(t Node (- -) " ^ dump_int bm ^ " " ^ dump_list dump_dict cs ^ ")"

exception Out_of_fuel

let force = function Some x -> x | None -> raise Out_of_fuel

let run_history (ops : Sexp.t list) : string =
  let regs : qdict array ref = ref [||] in
  let push d = regs := Array.append !regs [| d |] in
  let reg r = !regs.(int_of_string (Sexp.atom r)) in
  let obs = Buffer.create 256 in
  let nobs = ref 0 in
  let emit s = Buffer.add_char obs ' '; Buffer.add_string obs s; incr nobs in
  let step = ref 0 in
  try
    List.iter (fun op ->
        (match op with
         | Sexp.List [Sexp.Atom "new"] -> push d_new
         | Sexp.List [Sexp.Atom "put"; r; k; v] -> push (force (q_put (reg r) (key_of k) (z_of_string (Sexp.atom v))))
         | Sexp.List [Sexp.Atom "remove"; r; k] -> push (force (q_remove (reg r) (key_of k)))
         | Sexp.List [Sexp.Atom "merge"; a; b] -> push (force (q_merge (reg a) (reg b)))
         | Sexp.List (Sexp.Atom "from" :: pairs) ->
           let ps = List.map (function
               | Sexp.List [k; v] -> (key_of k, z_of_string (Sexp.atom v))
               | s -> failwith ("bad pair " ^ Sexp.to_string s)) pairs in
           push (force (q_from ps))
         | Sexp.List [Sexp.Atom "get"; r; k] ->
           emit (match force (q_get (reg r) (key_of k)) with Some v -> dump_int v | None -> nil)
         | Sexp.List [Sexp.Atom "has"; r; k] ->
           emit (if force (q_has (reg r) (key_of k)) then "(t Ok ())" else nil)
         | Sexp.List [Sexp.Atom "count"; r] -> emit (dump_int (force (q_count (reg r))))
         | Sexp.List [Sexp.Atom "entries"; r] -> emit (dump_list dump_pair (force (q_entries (reg r))))
         | Sexp.List [Sexp.Atom "iter"; r] -> emit (dump_list dump_pair (force (q_iter (reg r))))
         | Sexp.List [Sexp.Atom "keys"; r] -> emit (dump_list dump_key (force (q_keys (reg r))))
         | Sexp.List [Sexp.Atom "values"; r] -> emit (dump_list dump_int (force (q_values (reg r))))
         | Sexp.List [Sexp.Atom "dump"; r] -> emit (dump_dict (reg r))
         | s -> failwith ("bad op " ^ Sexp.to_string s));
        incr step) ops;
    let labels = String.concat " " (List.init !nobs (fun _ -> "-")) in
    "(ok (t - (" ^ labels ^ ")" ^ Buffer.contents obs ^ "))"
  with Out_of_fuel -> Printf.sprintf "(out-of-fuel %d)" !step

let () =
  let hash_mode = Array.length Sys.argv > 1 && Sys.argv.(1) = "--hash" in
  try
    while true do
      let line = input_line stdin in
      if String.length line > 0 && line.[0] <> '#' then begin
        if hash_mode then print_endline (string_of_z (qhash (key_of (Sexp.parse line))))
        else
          match Sexp.parse line with
          | Sexp.List (Sexp.Atom "hist" :: ops) ->
            (try print_endline (run_history ops) with Failure m -> print_endline ("(bad-case " ^ m ^ ")"))
          | _ -> print_endline "(bad-case)"
      end
    done
  with End_of_file -> ()
