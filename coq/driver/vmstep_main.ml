(* Driver for the value-level lock-step correspondence of vm/Vm.v `step` with executor.rs.
   stdin: lines produced by qv_step:
     (steps (prog as-compiled (entry e) (consts (i Z)|b ..) (fns ..) (tuples ..) (nbuiltins n) (ntypes n))
            (trace (st (STACK) (LOCALS) (FRAMES)) ...) (fin ok V | err Class | blocked | limit | cut))
   other lines are echoed as `(skip)`.
   For every pair of consecutive real states S_i, S_{i+1} the extracted `step` is run on S_i with the
   outside inputs (`ext`) read off S_{i+1} (top of stack / is it Ok), followed by the executor's eager
   auto-pop of exhausted frames, and the result must be EXACTLY S_{i+1} (stack, locals, frames with pcs).
   The last state is checked against the final outcome (value, or error class). The comparison stops at
   a Spawn / Select (their completion involves other components: C04, C05).
   stdout per line: `(lockstep ok <pairs> <by-instruction histogram>)` |
                    `(lockstep mismatch <index> (fn f) (pc n) <instr> "<what>")`. *)
open Vmstep_model

let rec nat_of_int n = if n <= 0 then O else S (nat_of_int (n - 1))
let rec int_of_nat = function O -> 0 | S n -> 1 + int_of_nat n
let rec pos_of_int n = if n = 1 then XH else if n land 1 = 0 then XO (pos_of_int (n lsr 1)) else XI (pos_of_int (n lsr 1))
let z_of_int n = if n = 0 then Z0 else if n > 0 then Zpos (pos_of_int n) else Zneg (pos_of_int (-n))
let rec pos_of_bits = function   (* bits LSB first, last bit true *)
  | [] -> failwith "pos_of_bits"
  | [true] -> XH
  | b :: t -> if b then XI (pos_of_bits t) else XO (pos_of_bits t)
let z_of_string (s : string) : z =
  let neg = String.length s > 0 && s.[0] = '-' in
  let s = if neg then String.sub s 1 (String.length s - 1) else s in
  match Sexp.bits_of_decimal s with
  | [] -> Z0
  | bits -> if neg then Zneg (pos_of_bits bits) else Zpos (pos_of_bits bits)

let ios s = int_of_string (Sexp.atom s)

(* large numbers that are only names (ref ids) are interned to small naturals, injectively *)
let names : (string, int) Hashtbl.t = Hashtbl.create 16
let intern (s : string) : nat =
  match int_of_string_opt s with
  | Some n when n >= 0 && n < 5000 -> nat_of_int (2 * n)
  | _ ->
    let k = match Hashtbl.find_opt names s with
      | Some k -> k
      | None -> let k = Hashtbl.length names in Hashtbl.add names s k; k in
    nat_of_int (2 * k + 1)

let instr_of (s : Sexp.t) : instr =
  match s with
  | Sexp.List (Sexp.Atom h :: args) ->
    let a i = ios (List.nth args i) in
    (match h with
     | "const" -> IConstant (nat_of_int (a 0)) | "pop" -> IPop | "dup" -> IDuplicate
     | "pick" -> IPick (nat_of_int (a 0)) | "rot" -> IRotate (nat_of_int (a 0)) | "reset" -> IReset (nat_of_int (a 0))
     | "load" -> ILoad (nat_of_int (a 0)) | "store" -> IStore | "tuple" -> ITuple (nat_of_int (a 0))
     | "get" -> IGet (nat_of_int (a 0)) | "istype" -> IIsType (nat_of_int (a 0))
     | "jmp" -> IJump (z_of_int (a 0)) | "jmpif" -> IJumpIf (z_of_int (a 0)) | "call" -> ICall
     | "tailcall" -> ITailCall (a 0 = 1) | "fn" -> IFunction (nat_of_int (a 0)) | "builtin" -> IBuiltin (nat_of_int (a 0))
     | "equal" -> IEqual (nat_of_int (a 0)) | "not" -> INot | "spawn" -> ISpawn | "send" -> ISend | "self" -> ISelf
     | "select" -> ISelect | "process" -> IProcess (nat_of_int (a 0), nat_of_int (a 1))
     | _ -> failwith ("unknown instruction " ^ h))
  | _ -> failwith "bad instruction"

let show_instr (i : instr) : string =
  match i with
  | IConstant _ -> "const" | IPop -> "pop" | IDuplicate -> "dup" | IPick _ -> "pick" | IRotate _ -> "rot"
  | IReset _ -> "reset" | ILoad _ -> "load" | IStore -> "store" | ITuple _ -> "tuple" | IGet _ -> "get"
  | IIsType _ -> "istype" | IJump _ -> "jmp" | IJumpIf _ -> "jmpif" | ICall -> "call" | ITailCall true -> "tailcall-self"
  | ITailCall false -> "tailcall" | IFunction _ -> "fn" | IBuiltin _ -> "builtin" | IEqual _ -> "equal" | INot -> "not"
  | ISpawn -> "spawn" | ISend -> "send" | ISelf -> "self" | ISelect -> "select" | IProcess _ -> "process"

let field name (l : Sexp.t list) : Sexp.t list =
  let rec go = function
    | Sexp.List (Sexp.Atom n :: rest) :: _ when n = name -> rest
    | _ :: t -> go t
    | [] -> failwith ("missing field " ^ name) in
  go l

let program_of (fields : Sexp.t list) : program =
  let consts = List.map (fun c -> match c with
      | Sexp.List [Sexp.Atom "i"; z] -> CInt (z_of_string (Sexp.atom z))
      | _ -> CBin) (field "consts" fields) in
  let fns = List.map (fun f ->
      match f with
      | Sexp.List [Sexp.Atom "fn"; caps; _ty; Sexp.List (Sexp.Atom "ins" :: ins)] ->
        { f_code = List.map instr_of ins; f_caps = nat_of_int (ios caps) }
      | _ -> failwith "bad fn") (field "fns" fields) in
  let tuples = List.map (fun t -> nat_of_int (ios t)) (field "tuples" fields) in
  let nb = ios (List.hd (field "nbuiltins" fields)) in
  let nt = ios (List.hd (field "ntypes" fields)) in
  { p_consts = consts; p_funcs = fns; p_tuples = tuples; p_nbuiltins = nat_of_int nb; p_ntypes = nat_of_int nt }

let rec value_of (s : Sexp.t) : value =
  match s with
  | Sexp.List (Sexp.Atom h :: args) ->
    (match h, args with
     | "i", [z] -> VInt (z_of_string (Sexp.atom z))
     | "b", [n] -> VBin (nat_of_int (ios n))
     | "r", [n] -> VRef (intern (Sexp.atom n))
     | "t", id :: fs -> VTuple (nat_of_int (ios id), List.map value_of fs)
     | "f", idx :: caps -> VFun (nat_of_int (ios idx), List.map value_of caps)
     | "bi", [b] -> VBuiltin (nat_of_int (ios b))
     | "p", [p; f] -> VProc (intern (Sexp.atom p), nat_of_int (ios f))
     | "rs", [r; t] -> VRes (intern (Sexp.atom r), nat_of_int (ios t))
     | _ -> failwith ("bad value " ^ h))
  | _ -> failwith "bad value"

let state_of (s : Sexp.t) : state =
  match s with
  | Sexp.List [Sexp.Atom "st"; Sexp.List st; Sexp.List lo; Sexp.List fr] ->
    { stack = List.rev_map value_of st;
      locals = List.map value_of lo;
      frames = List.rev_map (fun f -> match f with
          | Sexp.List [fn; base; caps; pc] ->
            { fr_fn = nat_of_int (ios fn); fr_base = nat_of_int (ios base); fr_caps = nat_of_int (ios caps); fr_pc = nat_of_int (ios pc) }
          | _ -> failwith "bad frame") fr;
      persistent = false }
  | _ -> failwith "bad state"

let current_instr (p : program) (s : state) : instr option =
  match s.frames with
  | [] -> None
  | fr :: _ ->
    (match List.nth_opt p.p_funcs (int_of_nat fr.fr_fn) with
     | None -> None
     | Some fd -> List.nth_opt fd.f_code (int_of_nat fr.fr_pc))

let exhausted (p : program) (s : state) : bool =
  match s.frames with
  | [] -> false
  | _ -> current_instr p s = None

(* one real scheduler turn with quantum 1: one instruction, then the auto-pop of exhausted frames *)
let turn (p : program) (s : state) (x : ext) : sres =
  let rec pops r n =
    match r with
    | Next s' when n > 0 && exhausted p s' -> pops (step p s' x) (n - 1)
    | r -> r in
  pops (step p s x) 100000

let fault_name = function
  | FStackUnderflow -> "StackUnderflow" | FFrameUnderflow -> "FrameUnderflow" | FVariableUndefined -> "VariableUndefined"
  | FConstantUndefined -> "ConstantUndefined" | FFunctionUndefined -> "FunctionUndefined" | FBuiltinUndefined -> "BuiltinUndefined"
  | FUnknownTuple -> "UnknownTuple(panic)" | FJumpOut -> "JumpOut(panic)" | FPanicRotate0 -> "Rotate0(panic)"
  | FPanicEqual0 -> "Equal0(panic)" | FNoResult -> "NoResult" | FTypeMismatch -> "TypeMismatch"
  | FFieldAccessInvalid -> "FieldAccessInvalid" | FCallInvalid -> "CallInvalid" | FBuiltinError -> "BuiltinError"

let describe_diff (m : state) (r : state) : string =
  if m.frames <> r.frames then
    Printf.sprintf "frames differ: model %s real %s"
      (String.concat " " (List.rev_map (fun f -> Printf.sprintf "(%d %d %d %d)" (int_of_nat f.fr_fn) (int_of_nat f.fr_base) (int_of_nat f.fr_caps) (int_of_nat f.fr_pc)) m.frames))
      (String.concat " " (List.rev_map (fun f -> Printf.sprintf "(%d %d %d %d)" (int_of_nat f.fr_fn) (int_of_nat f.fr_base) (int_of_nat f.fr_caps) (int_of_nat f.fr_pc)) r.frames))
  else if List.length m.stack <> List.length r.stack then
    Printf.sprintf "stack heights differ: model %d real %d" (List.length m.stack) (List.length r.stack)
  else if m.stack <> r.stack then "stack values differ"
  else if List.length m.locals <> List.length r.locals then
    Printf.sprintf "locals lengths differ: model %d real %d" (List.length m.locals) (List.length r.locals)
  else "locals values differ"

let check (fields : Sexp.t list) : string =
  let p = program_of (match field "prog" fields with _name :: rest -> rest | [] -> failwith "prog") in
  let states = Array.of_list (List.map state_of (field "trace" fields)) in
  let fin = field "fin" fields in
  let n = Array.length states in
  let hist : (string, int) Hashtbl.t = Hashtbl.create 32 in
  let bump k = Hashtbl.replace hist k (1 + (try Hashtbl.find hist k with Not_found -> 0)) in
  let mismatch i what =
    let s = states.(i) in
    let (f, pc) = match s.frames with fr :: _ -> (int_of_nat fr.fr_fn, int_of_nat fr.fr_pc) | [] -> (-1, -1) in
    let ins = match current_instr p s with Some i -> show_instr i | None -> "end" in
    Printf.sprintf "(lockstep mismatch %d (fn %d) (pc %d) %s \"%s\")" i f pc ins (String.escaped what) in
  let result = ref None in
  let pairs = ref 0 in
  let stopped = ref false in
  let i = ref 0 in
  while !result = None && not !stopped && !i < n do
    let s = states.(!i) in
    let ins = current_instr p s in
    (match ins with
     | Some ISpawn | Some ISelect -> stopped := true; bump "stopped-at-concurrency"
     | _ ->
       let name = match ins with Some i -> show_instr i | None -> "end" in
       if !i + 1 < n then begin
         let r = states.(!i + 1) in
         let x = { x_value = (match r.stack with v :: _ -> Some v | [] -> None);
                   x_bool = (match r.stack with v :: _ -> v = vok | [] -> false) } in
         (match turn p s x with
          | Next m ->
            if m.stack = r.stack && m.locals = r.locals && m.frames = r.frames then (incr pairs; bump name)
            else result := Some (mismatch !i (describe_diff m r))
          | Finished (_, _) -> result := Some (mismatch !i "model finishes, the real process continues")
          | Fault f -> result := Some (mismatch !i ("model faults with " ^ fault_name f ^ ", the real process continues")))
       end else begin
         (* last recorded state: compare with the final outcome *)
         match fin with
         | Sexp.Atom "ok" :: [v] ->
           let v = value_of v in
           let x = { x_value = Some v; x_bool = (v = vok) } in
           (* the result value is what is on top when the last frame is popped; for a builtin call /
              IsType / Equal as last instruction it is also the outside input *)
           let rec fin_of r k = match r with
             | Next m when k > 0 && m.frames = [] -> fin_of (step p m x) (k - 1)
             | r -> r in
           (match fin_of (turn p s x) 2 with
            | Finished (mv, _) -> if mv = v then (incr pairs; bump name) else result := Some (mismatch !i "final values differ")
            | Next _ -> result := Some (mismatch !i "the real process finished, the model continues")
            | Fault f -> result := Some (mismatch !i ("the real process finished, the model faults with " ^ fault_name f)))
         | Sexp.Atom "err" :: [cls] ->
           let cls = Sexp.atom cls in
           let x = { x_value = None; x_bool = false } in
           (match turn p s x with
            | Fault f ->
              let fname = fault_name f in
              (* a failing builtin may return any error class *)
              if fname = cls || f = FBuiltinError then (incr pairs; bump (name ^ "/error"))
              else result := Some (mismatch !i (Printf.sprintf "error classes differ: model %s real %s" fname cls))
            | _ -> result := Some (mismatch !i ("the real process failed with " ^ cls ^ ", the model does not fault")))
         | _ -> bump "unfinished"
       end);
    incr i
  done;
  match !result with
  | Some m -> m
  | None ->
    let h = Hashtbl.fold (fun k v acc -> Printf.sprintf "(%s %d)" k v :: acc) hist [] in
    Printf.sprintf "(lockstep ok %d %s)" !pairs (String.concat " " (List.sort compare h))

let () =
  try
    while true do
      let line = input_line stdin in
      match (try Some (Sexp.parse line) with _ -> None) with
      | Some (Sexp.List (Sexp.Atom "steps" :: fields)) ->
        print_endline (try check fields with Failure m -> Printf.sprintf "(lockstep driver-error \"%s\")" (String.escaped m))
      | _ -> print_endline "(skip)"
    done
  with End_of_file -> ()
