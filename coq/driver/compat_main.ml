(* Driver for the runtime type-test table model (Compat.v) and the membership oracle.
   stdin, one case per line, two kinds:
     (input (reg (tuples TU..) (types TY..)) (fns (f TYPE_ID ISTYPE..)..) (builtins (b P R)..) (resources NAME..))
         prints (tables (type (row TAG..)..) (fparams (row ..)..) (bparams (row ..)..))   [same format as qv_compat]
     (member (reg (tuples TU..) (types TY..)) (depth n) (q TYPE_ID VALUE)..)
         prints (m V..), V ::= 1 | 0 | x   (x: the type id is outside closedb)
         VALUE ::= (i) | (b) | (r) | (t NAME (LABEL VALUE)..) | (f TYPE_ID) | (p TYPE_ID) | (res K)
   The relation model used is `current_cfg` (Rel.v). *)
open Compat_model

let rec nat_of_int n = if n <= 0 then O else S (nat_of_int (n - 1))
let rec int_of_nat = function O -> 0 | S n -> 1 + int_of_nat n
let ok_code = 1000

let nat_atom s = nat_of_int (int_of_string (Sexp.atom s))
let name_of s = match Sexp.atom s with "-" -> None | "Ok" -> Some (nat_of_int ok_code) | a -> Some (nat_of_int (int_of_string a))
let opt_id s = match Sexp.atom s with "-" -> None | a -> Some (nat_of_int (int_of_string a))

let tfield s = match s with
  | Sexp.List [l; t] -> (name_of l, nat_atom t)
  | _ -> failwith "bad tuple field"
let pfield s = match s with
  | Sexp.List [l; t] -> (nat_atom l, nat_atom t)
  | _ -> failwith "bad partial field"

let ty_of (s : Sexp.t) : ty =
  match s with
  | Sexp.List (Sexp.Atom h :: a) ->
    (match h, a with
     | "int", [] -> TInteger | "bin", [] -> TBinary | "ref", [] -> TReference
     | "tuple", [t] -> TTuple (nat_atom t)
     | "partial", n :: fs -> TPartial (name_of n, List.map pfield fs)
     | "fn", [p; r; rc] -> TCallable (nat_atom p, nat_atom r, nat_atom rc)
     | "cycle", [d] -> TCycle (nat_atom d)
     | "union", vs -> TUnion (List.map nat_atom vs)
     | "proc", [s; r] -> TProcess (opt_id s, opt_id r)
     | "res", [r] -> TResource (nat_atom r)
     | "var", [v] -> TVariable (nat_atom v)
     | _ -> failwith ("bad type " ^ h))
  | _ -> failwith "bad type"

let tuple_of (s : Sexp.t) : tuple_info =
  match s with
  | Sexp.List (Sexp.Atom "tu" :: n :: fs) -> { tname = name_of n; tfields = List.map tfield fs }
  | _ -> failwith "bad tuple"

let str_name = function None -> "-" | Some n -> let k = int_of_nat n in if k = ok_code then "Ok" else string_of_int k
let str_opt = function None -> "-" | Some n -> string_of_int (int_of_nat n)
let i = int_of_nat

let dump_ty = function
  | TInteger -> "(int)" | TBinary -> "(bin)" | TReference -> "(ref)"
  | TTuple t -> Printf.sprintf "(tuple %d)" (i t)
  | TPartial (n, fs) ->
    Printf.sprintf "(partial %s%s)" (str_name n) (String.concat "" (List.map (fun (l, t) -> Printf.sprintf " (%d %d)" (i l) (i t)) fs))
  | TCallable (p, r, rc) -> Printf.sprintf "(fn %d %d %d)" (i p) (i r) (i rc)
  | TCycle d -> Printf.sprintf "(cycle %d)" (i d)
  | TUnion vs -> "(union" ^ String.concat "" (List.map (fun v -> " " ^ string_of_int (i v)) vs) ^ ")"
  | TProcess (s, r) -> Printf.sprintf "(proc %s %s)" (str_opt s) (str_opt r)
  | TResource r -> Printf.sprintf "(res %d)" (i r)
  | TVariable v -> Printf.sprintf "(var %d)" (i v)

let dump_tuple t =
  Printf.sprintf "(tu %s%s)" (str_name t.tname)
    (String.concat "" (List.map (fun (l, ty) -> Printf.sprintf " (%s %d)" (str_name l) (i ty)) t.tfields))

let dump_reg (p : registry) =
  Printf.sprintf "(reg (tuples %s) (types %s))"
    (String.concat " " (List.map dump_tuple p.tuples)) (String.concat " " (List.map dump_ty p.types))

let rec dump_value = function
  | VInt _ -> "(i 0)" | VBin _ -> "(b)" | VRef _ -> "(r 0)"
  | VTup (n, fs) ->
    Printf.sprintf "(t %s%s)" (str_name n)
      (String.concat "" (List.map (fun (l, v) -> Printf.sprintf " (%s %s)" (str_name l) (dump_value v)) fs))
  | VFun c -> Printf.sprintf "(f %d)" (i c)
  | VProc c -> Printf.sprintf "(p %d)" (i c)
  | VRes r -> Printf.sprintf "(res %d)" (i r)


let fuel = nat_of_int 100000
let walk_fuel = nat_of_int 64

let reg_of = function
  | [Sexp.List (Sexp.Atom "tuples" :: tus); Sexp.List (Sexp.Atom "types" :: tys)] ->
    { tuples = List.map tuple_of tus; types = List.map ty_of tys }
  | _ -> failwith "bad reg"

let dump_tag = function
  | CInteger -> "i" | CBinary -> "b" | CReference -> "r"
  | CTuple n -> Printf.sprintf "(t %d)" (i n) | CFunction n -> Printf.sprintf "(f %d)" (i n)
  | CBuiltin n -> Printf.sprintf "(bi %d)" (i n) | CProcess n -> Printf.sprintf "(p %d)" (i n)
  | CResource n -> Printf.sprintf "(res %d)" (i n)

let dump_rows rows =
  String.concat " " (List.map (fun r -> "(row" ^ String.concat "" (List.map (fun t -> " " ^ dump_tag t) r) ^ ")") rows)

let find key args = List.find_map (function Sexp.List (Sexp.Atom k :: rest) when k = key -> Some rest | _ -> None) args

let run_input args =
  let reg = match find "reg" args with Some r -> reg_of r | None -> failwith "no reg" in
  let fns = match find "fns" args with
    | Some l -> List.map (function
        | Sexp.List (Sexp.Atom "f" :: t :: ops) -> { f_type_id = nat_atom t; f_istypes = List.map nat_atom ops }
        | _ -> failwith "bad fn") l
    | None -> [] in
  let builtins = match find "builtins" args with
    | Some l -> List.map (function
        | Sexp.List [Sexp.Atom "b"; p; r] -> (nat_atom p, nat_atom r)
        | _ -> failwith "bad builtin") l
    | None -> [] in
  let resources = match find "resources" args with Some l -> List.map (fun s -> match name_of s with Some n -> n | None -> O) l | None -> [] in
  let input = { ci_reg = reg; ci_functions = fns; ci_builtins = builtins; ci_resources = resources } in
  let tt = compute_type_compatibility current_cfg fuel input in
  let (fp, bp) = compute_param_compatibility current_cfg fuel input in
  Printf.printf "(tables (type %s) (fparams %s) (bparams %s))\n" (dump_rows tt) (dump_rows fp) (dump_rows bp)

let rec value_of (s : Sexp.t) : value =
  match s with
  | Sexp.List [Sexp.Atom "i"] -> VInt Z0
  | Sexp.List [Sexp.Atom "b"] -> VBin []
  | Sexp.List [Sexp.Atom "r"] -> VRef O
  | Sexp.List (Sexp.Atom "t" :: n :: fs) ->
    VTup (name_of n, List.map (function Sexp.List [l; v] -> (name_of l, value_of v) | _ -> failwith "bad field") fs)
  | Sexp.List [Sexp.Atom "f"; c] -> VFun (nat_atom c)
  | Sexp.List [Sexp.Atom "p"; c] -> VProc (nat_atom c)
  | Sexp.List [Sexp.Atom "res"; r] -> VRes (nat_atom r)
  | _ -> failwith "bad value"

let run_member args =
  let reg = match find "reg" args with Some r -> reg_of r | None -> failwith "no reg" in
  let depth = match find "depth" args with Some [d] -> nat_atom d | _ -> nat_of_int 6 in
  let out = List.filter_map (function
      | Sexp.List [Sexp.Atom "q"; t; v] ->
        let t = nat_atom t in
        Some (if not (closedb reg t) then "x"
              else if inhabb reg walk_fuel (nat_of_int 400) depth [] (value_of v) t then "1" else "0")
      | _ -> None) args in
  Printf.printf "(m %s)\n" (String.concat " " out)

let () =
  try
    while true do
      let line = input_line stdin in
      if String.length line > 0 && line.[0] <> '#' then begin
        (try
           match Sexp.parse line with
           | Sexp.List (Sexp.Atom "input" :: args) -> run_input args
           | Sexp.List (Sexp.Atom "member" :: args) -> run_member args
           | _ -> print_endline "(bad-case)"
         with
         | Stack_overflow -> print_endline "(stack-overflow)"
         | Failure m -> print_endline ("(bad-case " ^ m ^ ")"))
      end
    done
  with End_of_file -> ()
