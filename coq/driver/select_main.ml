(* Driver for the C05 model (sel/Select.v, sel/SelectSpec.v): one case per stdin line, one
   canonical outcome line each.

   (sel (fix 0|1) (srcs S..) (verdicts (r id cls VD)..) (mb (id cls)..) (aw (p -|VAL)..) (evs E..))
       S   = (proc p) | (recv (cls..) 0|1) | (timeout d) | (bad InvalidArgument|TypeMismatch)
       VD  = (t n) | nil | (e Class)          (filter oracle; absent entries are nil)
       VAL = (m id cls) | nil | (v n)
       E   = (step now) | (msg id cls) | (res p VAL) | (fail p) | (active) | (local p VAL|-) | (tick now) | (report p..)
     -> (run D..)   one dump D per event:
        (d (q b) (s b) SEL (mb (id cls)..) (aw (p -|VAL)..) (un p..) (val -|VAL) (err -|(e Class)|(aw p)) (nt -|t) (act -|p..))
        SEL = - | (sel (cur c..) (recv -|(r (id cls))) (start -|t) (nsrc n))
        or (panic site) from the first event that panics on
   (spec (srcs S..) (verdicts ..) (mb ..) (aw ..) (start t) (now t))
     -> (complete VAL (mb ..)) | (fail Class) | (wait)
   (env 0|1 (expected w..) (evs (w (p -|n)..)..) (targets p..))
     -> (outs (upd (p -|n)..)..) (pending 0|1) (delivered (p -|n)..) (latest (p -|n|none)..)
*)
open Select_model

let rec pos_of_bits = function
  | [] -> failwith "pos_of_bits"
  | [true] -> XH
  | b :: t -> if b then XI (pos_of_bits t) else XO (pos_of_bits t)

let z_of_string (s : string) : z =
  let neg = String.length s > 0 && s.[0] = '-' in
  let s' = if neg then String.sub s 1 (String.length s - 1) else s in
  match Sexp.bits_of_decimal s' with
  | [] -> Z0
  | bits -> if neg then Zneg (pos_of_bits bits) else Zpos (pos_of_bits bits)

let rec bits_of_pos = function XH -> [true] | XO p -> false :: bits_of_pos p | XI p -> true :: bits_of_pos p
let string_of_z = function
  | Z0 -> "0"
  | Zpos p -> Sexp.decimal_of_bits (bits_of_pos p)
  | Zneg p -> "-" ^ Sexp.decimal_of_bits (bits_of_pos p)

let rec nat_of_int n = if n <= 0 then O else S (nat_of_int (n - 1))
let rec int_of_nat = function O -> 0 | S n -> 1 + int_of_nat n
let nat_of s = nat_of_int (int_of_string (Sexp.atom s))
let sn n = string_of_int (int_of_nat n)

let err_of = function
  | "InvalidArgument" -> InvalidArgument | "TypeMismatch" -> TypeMismatch
  | "StackUnderflow" -> StackUnderflow | "CallInvalid" -> CallInvalid
  | s -> failwith ("bad error class " ^ s)
let err_name = function
  | InvalidArgument -> "InvalidArgument" | TypeMismatch -> "TypeMismatch" | StackUnderflow -> "StackUnderflow"
  | CallInvalid -> "CallInvalid" | FunctionUndefined -> "FunctionUndefined" | BuiltinUndefined -> "BuiltinUndefined"
  | FrameUnderflow -> "FrameUnderflow" | VariableUndefined -> "VariableUndefined" | ConstantUndefined -> "ConstantUndefined"
  | FieldAccessInvalid -> "FieldAccessInvalid" | ArityMismatch -> "ArityMismatch" | TupleEmpty -> "TupleEmpty"
  | OperationNotAllowed -> "OperationNotAllowed"

let section name (items : Sexp.t list) : Sexp.t list =
  let rec go = function
    | Sexp.List (Sexp.Atom n :: rest) :: _ when n = name -> rest
    | _ :: t -> go t
    | [] -> [] in
  go items

let source_of = function
  | Sexp.List [Sexp.Atom "proc"; p] -> SrcProc (nat_of p)
  | Sexp.List [Sexp.Atom "recv"; Sexp.List cls; ty] -> SrcRecv (List.map nat_of cls, Sexp.atom ty = "1")
  | Sexp.List [Sexp.Atom "timeout"; d] -> SrcTimeout (z_of_string (Sexp.atom d))
  | Sexp.List [Sexp.Atom "bad"; e] -> SrcBad (err_of (Sexp.atom e))
  | s -> failwith ("bad source " ^ Sexp.to_string s)

let msg_of = function
  | Sexp.List [id; cls] -> (nat_of id, nat_of cls)
  | s -> failwith ("bad msg " ^ Sexp.to_string s)

let value_of = function
  | Sexp.Atom "nil" -> VNil
  | Sexp.List [Sexp.Atom "m"; id; cls] -> VMsg (nat_of id, nat_of cls)
  | Sexp.List [Sexp.Atom "v"; n] -> VVal (nat_of n)
  | s -> failwith ("bad value " ^ Sexp.to_string s)

let optval_of = function Sexp.Atom "-" -> None | s -> Some (value_of s)

let verdict_tab items : (int * int * int, verdict) Hashtbl.t =
  let h = Hashtbl.create 16 in
  List.iter (function
      | Sexp.List [r; id; cls; vd] ->
        let v = match vd with
          | Sexp.Atom "nil" -> VdNil
          | Sexp.List [Sexp.Atom "t"; n] -> Truthy (nat_of n)
          | Sexp.List [Sexp.Atom "e"; c] -> VdErr (err_of (Sexp.atom c))
          | s -> failwith ("bad verdict " ^ Sexp.to_string s) in
        Hashtbl.replace h (int_of_string (Sexp.atom r), int_of_string (Sexp.atom id), int_of_string (Sexp.atom cls)) v
      | s -> failwith ("bad verdict entry " ^ Sexp.to_string s)) items;
  h

let verdict_fn h : nat -> msg -> verdict =
  fun r (id, cls) -> match Hashtbl.find_opt h (int_of_nat r, int_of_nat id, int_of_nat cls) with
    | Some v -> v
    | None -> VdNil

let event_of = function
  | Sexp.List [Sexp.Atom "step"; now] -> EStep (z_of_string (Sexp.atom now))
  | Sexp.List [Sexp.Atom "msg"; id; cls] -> EMsg (nat_of id, nat_of cls)
  | Sexp.List [Sexp.Atom "res"; p; v] -> EResult (nat_of p, value_of v)
  | Sexp.List [Sexp.Atom "fail"; p] -> EFail (nat_of p)
  | Sexp.List [Sexp.Atom "active"] -> EActive
  | Sexp.List [Sexp.Atom "local"; p; v] -> ELocal (nat_of p, optval_of v)
  | Sexp.List [Sexp.Atom "tick"; now] -> ETick (z_of_string (Sexp.atom now))
  | Sexp.List (Sexp.Atom "report" :: ps) -> EReport (List.map nat_of ps)
  | s -> failwith ("bad event " ^ Sexp.to_string s)

let dump_msg (id, cls) = "(" ^ sn id ^ " " ^ sn cls ^ ")"
let dump_value = function
  | VNil -> "nil"
  | VMsg (id, cls) -> "(m " ^ sn id ^ " " ^ sn cls ^ ")"
  | VVal n -> "(v " ^ sn n ^ ")"
let dump_optval = function None -> "-" | Some v -> dump_value v
let dump_optz = function None -> "-" | Some z -> string_of_z z
let b2s b = if b then "1" else "0"

let dump_proc (st : proc) : string =
  let sel = match st.p_sel with
    | None -> "-"
    | Some s ->
      "(sel (cur" ^ String.concat "" (List.map (fun c -> " " ^ sn c) s.ss_cursors) ^ ") (recv "
      ^ (match s.ss_receiving with None -> "-" | Some (r, m) -> "(" ^ sn r ^ " " ^ dump_msg m ^ ")")
      ^ ") (start " ^ dump_optz s.ss_start ^ ") (nsrc " ^ string_of_int (List.length s.ss_sources) ^ "))" in
  let aw = List.sort compare (List.map (fun (p, v) -> (int_of_nat p, dump_optval v)) st.p_awaiting) in
  "(d (q " ^ b2s st.p_queued ^ ") (s " ^ b2s st.p_selecting ^ ") " ^ sel
  ^ " (mb" ^ String.concat "" (List.map (fun m -> " " ^ dump_msg m) st.p_mailbox) ^ ")"
  ^ " (aw" ^ String.concat "" (List.map (fun (p, v) -> " (" ^ string_of_int p ^ " " ^ v ^ ")") aw) ^ ")"
  ^ " (un" ^ String.concat "" (List.map (fun p -> " " ^ sn p) st.p_unreported) ^ ")"
  ^ " (val " ^ dump_optval st.p_value ^ ")"
  ^ " (err " ^ (match st.p_error with None -> "-" | Some (PErr e) -> "(e " ^ err_name e ^ ")" | Some (PAwaited p) -> "(aw " ^ sn p ^ ")") ^ ")"
  ^ " (nt " ^ dump_optz (next_timeout st) ^ "))"

let answer_of (items : Sexp.t list) : answer =
  List.map (function
      | Sexp.List [p; Sexp.Atom "-"] -> (nat_of p, None)
      | Sexp.List [p; n] -> (nat_of p, Some (nat_of n))
      | s -> failwith ("bad answer entry " ^ Sexp.to_string s)) items
let dump_answer (a : answer) : string =
  let l = List.sort compare (List.map (fun (p, v) -> (int_of_nat p, match v with None -> "-" | Some n -> sn n)) a) in
  String.concat "" (List.map (fun (p, v) -> " (" ^ string_of_int p ^ " " ^ v ^ ")") l)

let run_case (s : Sexp.t) : string =
  match s with
  | Sexp.List (Sexp.Atom "sel" :: rest) ->
    let fix = (match section "fix" rest with [x] -> Sexp.atom x = "1" | _ -> false) in
    let srcs = List.map source_of (section "srcs" rest) in
    let vf = verdict_fn (verdict_tab (section "verdicts" rest)) in
    let mb = List.map msg_of (section "mb" rest) in
    let aw = List.map (function Sexp.List [p; v] -> (nat_of p, optval_of v) | s -> failwith ("bad aw " ^ Sexp.to_string s))
        (section "aw" rest) in
    let evs = List.map event_of (section "evs" rest) in
    let buf = Buffer.create 256 in
    Buffer.add_string buf "(run";
    let rec go st = function
      | [] -> ()
      | ev :: tl ->
        (* the Action the slice returns (only an EStep can return one) *)
        let act = match ev with
          | EStep now -> (match step_action srcs now st with
              | Some ts -> "(act" ^ String.concat "" (List.map (fun p -> " " ^ sn p) ts) ^ ")"
              | None -> "(act -)")
          | _ -> "(act -)" in
        (match apply_event fix vf srcs ev st with
         | Val st' ->
           let d = dump_proc st' in
           Buffer.add_string buf (" " ^ String.sub d 0 (String.length d - 1) ^ " " ^ act ^ ")"); go st' tl
         | Err e -> Buffer.add_string buf (" (err " ^ err_name e ^ ")")
         | Panic n -> Buffer.add_string buf (" (panic " ^ sn n ^ ")")) in
    go (initial mb aw) evs;
    Buffer.add_string buf ")";
    Buffer.contents buf
  | Sexp.List (Sexp.Atom "spec" :: rest) ->
    let srcs = List.map source_of (section "srcs" rest) in
    let vf = verdict_fn (verdict_tab (section "verdicts" rest)) in
    let mb = List.map msg_of (section "mb" rest) in
    let aw = List.map (function Sexp.List [p; v] -> (nat_of p, optval_of v) | s -> failwith ("bad aw " ^ Sexp.to_string s))
        (section "aw" rest) in
    let z name = match section name rest with [x] -> z_of_string (Sexp.atom x) | _ -> failwith ("missing " ^ name) in
    (match select_spec vf srcs mb aw (z "start") (z "now") with
     | Complete (v, mb') -> "(complete " ^ dump_value v ^ " (mb" ^ String.concat "" (List.map (fun m -> " " ^ dump_msg m) mb') ^ "))"
     | Fail e -> "(fail " ^ err_name e ^ ")"
     | Wait -> "(wait)")
  | Sexp.List (Sexp.Atom "env" :: merge :: rest) ->
    let merge = Sexp.atom merge = "1" in
    let expected = List.map nat_of (section "expected" rest) in
    let evs = List.map (function
        | Sexp.List (w :: a) -> (nat_of w, answer_of a)
        | s -> failwith ("bad env event " ^ Sexp.to_string s)) (section "evs" rest) in
    let targets = List.map nat_of (section "targets" rest) in
    let (pa, outs) = env_run merge evs (Some { pa_expected = expected; pa_responses = [] }) in
    "(outs" ^ String.concat "" (List.map (fun r -> " (upd" ^ dump_answer r ^ ")") outs) ^ ")"
    ^ " (pending " ^ (match pa with None -> "0" | Some _ -> "1") ^ ")"
    ^ " (delivered" ^ dump_answer (delivered outs) ^ ")"
    ^ " (latest" ^ String.concat "" (List.map (fun p ->
        " (" ^ sn p ^ " " ^ (match latest p evs None with None -> "none" | Some None -> "-" | Some (Some n) -> sn n) ^ ")") targets) ^ ")"
  | _ -> "(bad-case)"

let () =
  try
    while true do
      let line = input_line stdin in
      if String.length line > 0 && line.[0] <> '#' then
        print_endline (try run_case (Sexp.parse line) with Failure m -> "(driver-error " ^ m ^ ")")
    done
  with End_of_file -> ()
