(* Driver for the C13 model (Equal.v): one case per stdin line, one canonical outcome line each.

   (eq (consts C..) (heap H..) (tuples T..) (ext (consts C..) (heap H..) (tuples T..)) V W)
       C = (i <int>) | (b x<hex>)          H = (h x<hex> <rope-expr ignored here>)
       T = (tup <name|-> (<label|->..))
       V = (i n) | (bc k) | (bh i) | (r n) | (t tid V..) | (f fid V..) | (bi id) | (p pid fid) | (res rid ty)
     -> (eq <before> <after-ext>) (erase <before> <after-ext>) (wf <bool>) (canon n..) (canon2 n..)
   (refs (workers w..) (sched i..))  -> (refs n..) | (panic)
   (equal (consts ..) (heap ..) (tuples ..) <count> V..)  -> (ok V-erased) | (err Class) | (panic)
   (equal-not ...)  the same followed by Not
*)
open Equal_model

let rec pos_of_bits = function
  | [] -> failwith "pos_of_bits"
  | [true] -> XH
  | b :: t -> if b then XI (pos_of_bits t) else XO (pos_of_bits t)

let z_of_string (s : string) : z =
  let neg = String.length s > 0 && s.[0] = '-' in
  let s' = if neg then String.sub s 1 (String.length s - 1) else s in
  match Sexp.bits_of_decimal s' with
  | [] -> Z0
  | bits -> if neg then Zneg (pos_of_bits bits) else Zpos (pos_of_bits bits)

let rec bits_of_pos = function XH -> [true] | XO p -> false :: bits_of_pos p | XI p -> true :: bits_of_pos p
let string_of_z = function
  | Z0 -> "0"
  | Zpos p -> Sexp.decimal_of_bits (bits_of_pos p)
  | Zneg p -> "-" ^ Sexp.decimal_of_bits (bits_of_pos p)

let rec int_of_pos = function XH -> 1 | XO p -> 2 * int_of_pos p | XI p -> 2 * int_of_pos p + 1
let int_of_z = function Z0 -> 0 | Zpos p -> int_of_pos p | Zneg p -> - (int_of_pos p)
let rec pos_of_int n = if n = 1 then XH else if n land 1 = 0 then XO (pos_of_int (n lsr 1)) else XI (pos_of_int (n lsr 1))
let z_of_int n = if n = 0 then Z0 else if n > 0 then Zpos (pos_of_int n) else Zneg (pos_of_int (-n))

let rec nat_of_int n = if n <= 0 then O else S (nat_of_int (n - 1))
let rec int_of_nat = function O -> 0 | S n -> 1 + int_of_nat n

(* x<hex> *)
let unhex (s : string) : z list =
  let s = String.sub s 1 (String.length s - 1) in
  List.init (String.length s / 2) (fun i -> z_of_int (int_of_string ("0x" ^ String.sub s (2 * i) 2)))
let hex (l : z list) : string = "x" ^ String.concat "" (List.map (fun b -> Printf.sprintf "%02x" (int_of_z b)) l)

let str_of (s : string) : z list = List.init (String.length s) (fun i -> z_of_int (Char.code s.[i]))
let opt_str (s : Sexp.t) : z list option =
  match s with
  | Sexp.Atom "-" -> None
  | _ -> Some (str_of (Sexp.atom s))
let string_of_str (l : z list) : string = String.concat "" (List.map (fun b -> String.make 1 (Char.chr (int_of_z b))) l)

let const_of = function
  | Sexp.List [Sexp.Atom "i"; n] -> CInt (z_of_string (Sexp.atom n))
  | Sexp.List [Sexp.Atom "b"; h] -> CBin (unhex (Sexp.atom h))
  | s -> failwith ("bad constant " ^ Sexp.to_string s)

let heap_of = function
  | Sexp.List (Sexp.Atom "h" :: h :: _) -> unhex (Sexp.atom h)
  | s -> failwith ("bad heap entry " ^ Sexp.to_string s)

let tup_of = function
  | Sexp.List [Sexp.Atom "tup"; name; Sexp.List labels] -> { t_name = opt_str name; t_labels = List.map opt_str labels }
  | s -> failwith ("bad tuple info " ^ Sexp.to_string s)

let rec value_of (s : Sexp.t) : value =
  match s with
  | Sexp.List [Sexp.Atom "i"; n] -> VInt (z_of_string (Sexp.atom n))
  | Sexp.List [Sexp.Atom "bc"; k] -> VBin (BConst (nat_of_int (int_of_string (Sexp.atom k))))
  | Sexp.List [Sexp.Atom "bh"; k] -> VBin (BHeap (nat_of_int (int_of_string (Sexp.atom k))))
  | Sexp.List [Sexp.Atom "r"; n] -> VRef (z_of_string (Sexp.atom n))
  | Sexp.List (Sexp.Atom "t" :: tid :: fs) -> VTuple (nat_of_int (int_of_string (Sexp.atom tid)), List.map value_of fs)
  | Sexp.List (Sexp.Atom "f" :: fid :: cs) -> VFun (z_of_string (Sexp.atom fid), List.map value_of cs)
  | Sexp.List [Sexp.Atom "bi"; n] -> VBuiltin (z_of_string (Sexp.atom n))
  | Sexp.List [Sexp.Atom "p"; pid; fid] -> VProc (z_of_string (Sexp.atom pid), z_of_string (Sexp.atom fid))
  | Sexp.List [Sexp.Atom "res"; rid; ty] -> VRes (z_of_string (Sexp.atom rid), z_of_string (Sexp.atom ty))
  | _ -> failwith ("bad value " ^ Sexp.to_string s)

let section name (items : Sexp.t list) : Sexp.t list =
  let rec go = function
    | Sexp.List (Sexp.Atom n :: rest) :: _ when n = name -> rest
    | _ :: t -> go t
    | [] -> [] in
  go items

let b2s b = if b then "true" else "false"
let canon_line name l = "(" ^ name ^ String.concat "" (List.map (fun n -> " " ^ string_of_int (int_of_nat n)) l) ^ ")"

let opt_name = function None -> "-" | Some s -> string_of_str s
let rec dump_evalue = function
  | EInt z -> "(i " ^ string_of_z z ^ ")"
  | EBytes bs -> "(b " ^ String.concat "" (List.map (fun b -> Printf.sprintf "%02x" (int_of_z b)) bs) ^ ")"
  | ERef r -> "(r " ^ string_of_z r ^ ")"
  | ETuple (n, ls, fs) ->
    "(t " ^ opt_name n ^ " (" ^ String.concat " " (List.map opt_name ls) ^ ")"
    ^ String.concat "" (List.map (fun f -> " " ^ dump_evalue f) fs) ^ ")"
  | EFun (f, cs) -> "(f " ^ string_of_z f ^ String.concat "" (List.map (fun f -> " " ^ dump_evalue f) cs) ^ ")"
  | EBuiltin b -> "(bi " ^ string_of_z b ^ ")"
  | EProc p -> "(p " ^ string_of_z p ^ ")"
  | ERes r -> "(res " ^ string_of_z r ^ ")"
  | EBad -> "(bad)"

let err_name = function
  | InvalidArgument -> "InvalidArgument" | TypeMismatch -> "TypeMismatch" | StackUnderflow -> "StackUnderflow"
  | CallInvalid -> "CallInvalid" | FunctionUndefined -> "FunctionUndefined" | BuiltinUndefined -> "BuiltinUndefined"
  | FrameUnderflow -> "FrameUnderflow" | VariableUndefined -> "VariableUndefined" | ConstantUndefined -> "ConstantUndefined"
  | FieldAccessInvalid -> "FieldAccessInvalid" | ArityMismatch -> "ArityMismatch" | TupleEmpty -> "TupleEmpty"
  | OperationNotAllowed -> "OperationNotAllowed"

let tables_of items =
  let ts = List.map tup_of (section "tuples" items) in
  { constants = List.map const_of (section "consts" items);
    heap = List.map heap_of (section "heap" items);
    tuples = ts;
    canonical = compute_canonical ts }

let run_case (s : Sexp.t) : string =
  match s with
  | Sexp.List (Sexp.Atom "eq" :: rest) ->
    let n = List.length rest in
    let v = value_of (List.nth rest (n - 2)) and w = value_of (List.nth rest (n - 1)) in
    let p = tables_of rest in
    let ext = section "ext" rest in
    let p2 = update_tables p (List.map const_of (section "consts" ext)) (List.map heap_of (section "heap" ext))
        (List.map tup_of (section "tuples" ext)) in
    let e1 = evalue_eqb (erase p v) (erase p w) and e2 = evalue_eqb (erase p2 v) (erase p2 w) in
    (* evalue_eqb is proved to decide Leibniz equality; cross-check with OCaml's structural equality *)
    let e1' = (erase p v = erase p w) in
    if e1 <> e1' then "(model-inconsistent evalue_eqb)" else
    Printf.sprintf "(eq %s %s) (erase %s %s) (wf %s) %s %s"
      (b2s (values_equal p v w)) (b2s (values_equal p2 v w)) (b2s e1) (b2s e2)
      (b2s (wf_valueb p v && wf_valueb p w))
      (canon_line "canon" p.canonical) (canon_line "canon2" p2.canonical)
  | Sexp.List [Sexp.Atom "refs"; Sexp.List (Sexp.Atom "workers" :: ws); Sexp.List (Sexp.Atom "sched" :: sc)] ->
    let sys = List.map (fun w -> { worker_id = z_of_string (Sexp.atom w); next_ref = Z0 }) ws in
    let sched = List.map (fun i -> nat_of_int (int_of_string (Sexp.atom i))) sc in
    (match run_mints Debug sys sched with
     | Val rs -> "(refs" ^ String.concat "" (List.map (fun r -> " " ^ string_of_z r) rs) ^ ")"
     | Err e -> "(err " ^ err_name e ^ ")"
     | Panic _ -> "(panic)")
  | Sexp.List (Sexp.Atom ("equal" | "equal-not" as head) :: rest) ->
    let p = tables_of rest in
    let rec tail = function
      | (Sexp.List (Sexp.Atom ("consts" | "heap" | "tuples") :: _)) :: t -> tail t
      | t -> t in
    (match tail rest with
     | count :: vs ->
       (* values are listed in push order; the model's stack has its top at the head. The harness
          runs the instructions as the entry function of a process, whose stack starts with the nil
          argument (spawn_process pushes it). *)
       let stack = List.rev (List.map value_of vs) @ [nil_value] in
       let r = handle_equal p (nat_of_int (int_of_string (Sexp.atom count))) stack in
       let r = if head = "equal-not" then obind r handle_not else r in
       (match r with
        | Val (top :: _) -> "(ok " ^ dump_evalue (erase p top) ^ ")"
        | Val [] -> "(ok-empty)"
        | Err e -> "(err " ^ err_name e ^ ")"
        | Panic _ -> "(panic)")
     | [] -> "(bad-case)")
  | _ -> "(bad-case)"

let () =
  try
    while true do
      let line = input_line stdin in
      if String.length line > 0 && line.[0] <> '#' then
        print_endline (try run_case (Sexp.parse line) with
            | Failure m -> "(bad-case " ^ m ^ ")"
            | Stack_overflow -> "(model-crash stack-overflow)")
    done
  with End_of_file -> ()
