(* Driver for the builtin models: one case per line `(name <arg>)`, prints one outcome line. *)
open Builtins_model

let rec pos_of_bits = function   (* bits LSB first, last bit true *)
  | [] -> failwith "pos_of_bits"
  | [true] -> XH
  | b :: t -> if b then XI (pos_of_bits t) else XO (pos_of_bits t)

let z_of_string (s : string) : z =
  let neg = String.length s > 0 && s.[0] = '-' in
  let s' = if neg then String.sub s 1 (String.length s - 1) else s in
  match Sexp.bits_of_decimal s' with
  | [] -> Z0
  | bits -> if neg then Zneg (pos_of_bits bits) else Zpos (pos_of_bits bits)

let rec bits_of_pos = function XH -> [true] | XO p -> false :: bits_of_pos p | XI p -> true :: bits_of_pos p
let string_of_z = function
  | Z0 -> "0"
  | Zpos p -> Sexp.decimal_of_bits (bits_of_pos p)
  | Zneg p -> "-" ^ Sexp.decimal_of_bits (bits_of_pos p)

let rec int_of_pos = function XH -> 1 | XO p -> 2 * int_of_pos p | XI p -> 2 * int_of_pos p + 1
let int_of_z = function Z0 -> 0 | Zpos p -> int_of_pos p | Zneg p -> - (int_of_pos p)
let rec pos_of_int n = if n = 1 then XH else if n land 1 = 0 then XO (pos_of_int (n lsr 1)) else XI (pos_of_int (n lsr 1))
let z_of_int n = if n = 0 then Z0 else if n > 0 then Zpos (pos_of_int n) else Zneg (pos_of_int (-n))

let unhex (s : string) : z list =
  List.init (String.length s / 2) (fun i -> z_of_int (int_of_string ("0x" ^ String.sub s (2 * i) 2)))
let hex (l : z list) : string = String.concat "" (List.map (fun b -> Printf.sprintf "%02x" (int_of_z b)) l)

let rec rope_of (s : Sexp.t) : rope =
  match s with
  | Sexp.List [Sexp.Atom "own"; h] -> Owned (unhex (Sexp.atom h))
  | Sexp.List [Sexp.Atom "own"] -> Owned []
  | Sexp.List [Sexp.Atom "zero"; n] -> Zeroed (z_of_string (Sexp.atom n))
  | Sexp.List [Sexp.Atom "cat"; a; b] -> mk_concat (rope_of a) (rope_of b)
  | Sexp.List [Sexp.Atom "slice"; p; o; l] ->
    (match mk_slice (rope_of p) (z_of_string (Sexp.atom o)) (z_of_string (Sexp.atom l)) with
     | Some r -> r | None -> failwith "generator produced an out-of-bounds slice")
  | Sexp.List [Sexp.Atom "tile"; u; c] -> mk_tiled (rope_of u) (z_of_string (Sexp.atom c))
  | _ -> failwith ("bad rope " ^ Sexp.to_string s)

let rec bval_of (s : Sexp.t) : bval =
  match s with
  | Sexp.List [Sexp.Atom "i"; n] -> BInt (z_of_string (Sexp.atom n))
  | Sexp.List [Sexp.Atom "b"; r] -> BBin (rope_of r)
  | Sexp.List (Sexp.Atom "t" :: fs) -> BTup (List.map bval_of fs)
  | Sexp.List [Sexp.Atom "o"] -> BOther
  | _ -> failwith ("bad value " ^ Sexp.to_string s)

let sample_positions len = [0; 1; 2; len / 3; len / 2; len - 2; len - 1]

(* largest node length inside a rope: bytes_of materialises every parent/unit it walks through *)
let rec max_node (r : rope) : int =
  let here = int_of_z (rlen r) in
  match r with
  | Owned _ | Zeroed _ -> here
  | Slice (p, _, _) -> max here (max_node p)
  | Concat (l, rr, _) -> max here (max (max_node l) (max_node rr))
  | Tiled (u, _) -> max here (max_node u)

let dump_rope (r : rope) : string =
  let len = int_of_z (rlen r) in
  if len <= 4096 && max_node r <= 65536 then Printf.sprintf "(b %d %s)" len (hex (bytes_of r))
  else if len <= 4096 then
    (* a small window into a huge lazy rope: read it byte by byte *)
    Printf.sprintf "(b %d %s)" len
      (String.concat "" (List.init len (fun i -> match byte_at r (z_of_int i) with
           | Some b -> Printf.sprintf "%02x" (int_of_z b) | None -> "--")))
  else
    let samples = List.map (fun i -> match byte_at r (z_of_int i) with Some b -> Printf.sprintf "%02x" (int_of_z b) | None -> "--") (sample_positions len) in
    Printf.sprintf "(b %d ~%s)" len (String.concat "" samples)

let rec dump_bval = function
  | BInt z -> "(i " ^ string_of_z z ^ ")"
  | BBin r -> dump_rope r
  | BTup fs -> "(t" ^ String.concat "" (List.map (fun f -> " " ^ dump_bval f) fs) ^ ")"
  | BOther -> "(o)"

let err_name = function
  | InvalidArgument -> "InvalidArgument" | TypeMismatch -> "TypeMismatch" | StackUnderflow -> "StackUnderflow"
  | CallInvalid -> "CallInvalid" | FunctionUndefined -> "FunctionUndefined" | BuiltinUndefined -> "BuiltinUndefined"
  | FrameUnderflow -> "FrameUnderflow" | VariableUndefined -> "VariableUndefined" | ConstantUndefined -> "ConstantUndefined"
  | FieldAccessInvalid -> "FieldAccessInvalid" | ArityMismatch -> "ArityMismatch" | TupleEmpty -> "TupleEmpty"
  | OperationNotAllowed -> "OperationNotAllowed"

let rec shape (r : rope) : string =
  match r with
  | Owned bs -> "O" ^ string_of_int (List.length bs)
  | Zeroed n -> "Z" ^ string_of_z n
  | Slice (p, o, l) -> "S(" ^ shape p ^ "," ^ string_of_z o ^ "," ^ string_of_z l ^ ")"
  | Concat (l, r, _) -> "C(" ^ shape l ^ "," ^ shape r ^ ")"
  | Tiled (u, c) -> "T(" ^ shape u ^ "," ^ string_of_z c ^ ")"

let dump_outcome = function
  | Val (BBin r) -> "(ok " ^ dump_rope r ^ ") #shape=" ^ shape r
  | Val v -> "(ok " ^ dump_bval v ^ ")"
  | Err e -> "(err " ^ err_name e ^ ")"
  | Panic _ -> "(panic)"

let table : (string * (bval -> bval outcome)) list = [
  "integer_abs", impl_integer_abs; "integer_sqrt", impl_integer_sqrt; "integer_add", impl_integer_add;
  "integer_subtract", impl_integer_subtract; "integer_multiply", impl_integer_multiply;
  "integer_gcd", impl_integer_gcd; "integer_divide", impl_integer_divide; "integer_modulo", impl_integer_modulo;
  "integer_compare", impl_integer_compare; "integer_and", impl_integer_and; "integer_or", impl_integer_or;
  "integer_xor", impl_integer_xor; "integer_not", impl_integer_not; "integer_shift", impl_integer_shift;
  "integer_popcount", impl_integer_popcount;
  "binary_new", impl_binary_new; "binary_length", impl_binary_length; "binary_concat", impl_binary_concat;
  "binary_repeat", impl_binary_repeat; "binary_and", impl_binary_and; "binary_or", impl_binary_or;
  "binary_xor", impl_binary_xor; "binary_not", impl_binary_not; "binary_shift", impl_binary_shift;
  "binary_popcount", impl_binary_popcount; "binary_get", impl_binary_get; "binary_set", impl_binary_set;
  "binary_slice", impl_binary_slice; "binary_index", impl_binary_index; "binary_hash32", impl_binary_hash32;
  "binary_hash64", impl_binary_hash64; "binary_append", impl_binary_append;
  "vector_add", impl_vector_add; "vector_subtract", impl_vector_subtract; "vector_multiply", impl_vector_multiply;
  "vector_less_than", impl_vector_less_than; "vector_equal", impl_vector_equal;
  "vector_greater_than", impl_vector_greater_than; "vector_dot", impl_vector_dot; "vector_take", impl_vector_take;
  "vector_get", impl_vector_get; "vector_push", impl_vector_push; "vector_sum", impl_vector_sum;
]

(* reference specs (BuiltinSpec.v) run on the flattened argument *)
let dump_flat (l : z list) : string =
  let len = List.length l in
  if len <= 4096 then Printf.sprintf "(b %d %s)" len (hex l)
  else
    let a = Array.of_list l in
    let samples = List.map (fun i -> Printf.sprintf "%02x" (int_of_z a.(i))) (sample_positions len) in
    Printf.sprintf "(b %d ~%s)" len (String.concat "" samples)

let rec dump_fval = function
  | FInt z -> "(i " ^ string_of_z z ^ ")"
  | FBin l -> dump_flat l
  | FTup fs -> "(t" ^ String.concat "" (List.map (fun f -> " " ^ dump_fval f) fs) ^ ")"
  | FOther -> "(o)"

let dump_fout = function
  | Val v -> "(ok " ^ dump_fval v ^ ")"
  | Err e -> "(err " ^ err_name e ^ ")"
  | Panic _ -> "(panic)"

(* the specs are plain mathematics (2^k, flat lists): skip the cases where running them literally
   would need astronomically large numbers or lists; the theorems cover those *)
let small_z (z : z) (bound : int) : bool =
  match z with Z0 -> true | Zpos p | Zneg p -> List.length (bits_of_pos p) <= 40 && int_of_pos p <= bound
let rec ropes_small (v : bval) : bool =
  match v with
  | BBin r -> small_z (rlen r) 65536 && max_node r <= 65536
  | BTup fs -> List.for_all ropes_small fs
  | _ -> true
let spec_runnable (name : string) (v : bval) : bool =
  ropes_small v &&
  (match name, v with
   | "binary_new", BInt n -> small_z n 65536
   | "binary_repeat", BTup [BBin r; BInt c] -> small_z c 65536 && int_of_z (rlen r) * int_of_z c <= 65536
   | "binary_shift", BTup [BBin r; BInt k] -> small_z k (8 * int_of_z (rlen r) + 64)
   | "integer_shift", BTup [_; BInt k] -> small_z k 200
   | _ -> true)

let mk_spec (f : fval -> fval outcome) : bval -> string = fun v -> dump_fout (f (flatten v))
let spec_table : (string * (bval -> string)) list = [
  "binary_new", mk_spec spec_binary_new; "binary_length", mk_spec spec_binary_length;
  "binary_concat", mk_spec spec_binary_concat; "binary_repeat", mk_spec spec_binary_repeat;
  "binary_and", mk_spec spec_binary_and; "binary_or", mk_spec spec_binary_or; "binary_xor", mk_spec spec_binary_xor;
  "binary_not", mk_spec spec_binary_not; "binary_shift", mk_spec spec_binary_shift;
  "binary_popcount", mk_spec spec_binary_popcount; "binary_get", mk_spec spec_binary_get;
  "binary_set", mk_spec spec_binary_set; "binary_slice", mk_spec spec_binary_slice;
  "binary_index", mk_spec spec_binary_index; "binary_hash32", mk_spec spec_binary_hash32;
  "binary_hash64", mk_spec spec_binary_hash64; "binary_append", mk_spec spec_binary_append;
  "vector_add", mk_spec spec_vector_add; "vector_subtract", mk_spec spec_vector_subtract;
  "vector_multiply", mk_spec spec_vector_multiply; "vector_less_than", mk_spec spec_vector_less_than;
  "vector_equal", mk_spec spec_vector_equal; "vector_greater_than", mk_spec spec_vector_greater_than;
  "vector_dot", mk_spec spec_vector_dot; "vector_take", mk_spec spec_vector_take; "vector_get", mk_spec spec_vector_get;
  "vector_push", mk_spec spec_vector_push; "vector_sum", mk_spec spec_vector_sum;
  "integer_not", mk_spec spec_integer_not; "integer_shift", mk_spec spec_integer_shift;
  "integer_popcount", mk_spec spec_integer_popcount;
]

let () =
  if Array.length Sys.argv > 1 && Sys.argv.(1) = "--names" then
    List.iter (fun (n, _) -> print_endline n) table
  else if Array.length Sys.argv > 1 && Sys.argv.(1) = "--spec-names" then
    List.iter (fun (n, _) -> print_endline n) spec_table
  else if Array.length Sys.argv > 1 && Sys.argv.(1) = "--spec" then
    try
      while true do
        let line = input_line stdin in
        if String.length line > 0 && line.[0] <> '#' then begin
          match Sexp.parse line with
          | Sexp.List [name; arg] ->
            (match List.assoc_opt (Sexp.atom name) spec_table with
             | None -> print_endline "(unspecified)"
             | Some f ->
               let v = bval_of arg in
               print_endline (try (if spec_runnable (Sexp.atom name) v then f v else "(unspecified)") with
                   | Stack_overflow -> "(unspecified)"
                   | Out_of_memory -> "(unspecified)"))
          | _ -> print_endline "(bad-case)"
        end
      done
    with End_of_file -> ()
  else
    try
      while true do
        let line = input_line stdin in
        if String.length line > 0 && line.[0] <> '#' then begin
          match Sexp.parse line with
          | Sexp.List [name; arg] ->
            let name = Sexp.atom name in
            (match List.assoc_opt name table with
             | None -> print_endline "(unmodelled)"
             | Some f ->
               print_endline (try dump_outcome (f (bval_of arg)) with
                   | Stack_overflow -> "(model-crash stack-overflow)"
                   | Out_of_memory -> "(model-crash out-of-memory)"))
          | _ -> print_endline "(bad-case)"
        end
      done
    with End_of_file -> ()
