(* Driver for the C18 termination bounds: measures the recursion depth of the extracted models of
   check_type_relation / intersect_types / compute_complement (minimal sufficient fuel, searched by
   the extracted `rel_depth` / `isect_depth` / `compl_depth` themselves) against the proved bound.
   usage: front_driver [--cfg current|partial]
   stdin, one case per line, the language of harness qv_types / types_main.ml:
       (ops OP..) (qs Q..)     Q ::= (compat a b) | (overlap a b) | (isect a b) | (compl o n)
   stdout per case:
       (n N) (topo 0|1) (closed 0|1) (reldepths (D B)..) (narrowdepths (D NB)..) (rs R..)
     N  = number of registered types after the ops;  topo = the hypothesis `topob` of the theorems
     (D B)  per compat/overlap query: D = minimal fuel for which check_rel answers (`over` when more
            than B is needed), B = rel_bound of the registry the query ran in
     (D NB) per isect/compl query: D = minimal structural fuel (cap 4*NB+64; `over` beyond),
            NB = narrow_bound of the registry the query ran in (proved: C18_intersect_types_terminates,
            C18_complement_bound_suffices); closed = the hypothesis `closed_tuplesb` of those theorems
     R  = the model's answer AT THE PROVED FUEL B (compat/overlap: 0 | 1 | (fuel)); for isect/compl
          (id k) computed as types_main.ml does (fuel 100000) *)
open Front_model

(* tail-recursive: the bounds are unary naturals of several 10^5 constructors *)
let nat_of_int n = let rec go acc k = if k <= 0 then acc else go (S acc) (k - 1) in go O n
let int_of_nat n = let rec go acc = function O -> acc | S m -> go (acc + 1) m in go 0 n
let ok_code = 1000

let nat_atom s = nat_of_int (int_of_string (Sexp.atom s))
let name_of s = match Sexp.atom s with "-" -> None | "Ok" -> Some (nat_of_int ok_code) | a -> Some (nat_of_int (int_of_string a))
let opt_id s = match Sexp.atom s with "-" -> None | a -> Some (nat_of_int (int_of_string a))

let tfield s = match s with
  | Sexp.List [l; t] -> (name_of l, nat_atom t)
  | _ -> failwith "bad tuple field"
let pfield s = match s with
  | Sexp.List [l; t] -> (nat_atom l, nat_atom t)
  | _ -> failwith "bad partial field"

let ty_of (s : Sexp.t) : ty =
  match s with
  | Sexp.List (Sexp.Atom h :: a) ->
    (match h, a with
     | "int", [] -> TInteger | "bin", [] -> TBinary | "ref", [] -> TReference
     | "tuple", [t] -> TTuple (nat_atom t)
     | "partial", n :: fs -> TPartial (name_of n, List.map pfield fs)
     | "fn", [p; r; rc] -> TCallable (nat_atom p, nat_atom r, nat_atom rc)
     | "cycle", [d] -> TCycle (nat_atom d)
     | "union", vs -> TUnion (List.map nat_atom vs)
     | "proc", [s; r] -> TProcess (opt_id s, opt_id r)
     | "res", [r] -> TResource (nat_atom r)
     | "var", [v] -> TVariable (nat_atom v)
     | _ -> failwith ("bad type " ^ h))
  | _ -> failwith "bad type"

let i = int_of_nat
let big = nat_of_int 100000
let cfg = ref current_cfg

let bound_int n = n * n * (4 * n + 5) + 4 * n + 4
let () =
  for n = 0 to 12 do
    if int_of_nat (rel_bound (nat_of_int n)) <> bound_int n then failwith "rel_bound formula mismatch"
  done

let apply_op (p : registry) (op : Sexp.t) : registry * nat =
  match op with
  | Sexp.List (Sexp.Atom "tu" :: n :: fs) -> register_tuple p (name_of n) (List.map tfield fs)
  | _ -> register_type p (ty_of op)

let str_bool = function Some true -> "1" | Some false -> "0" | None -> "(fuel)"
let str_depth = function Some d -> string_of_int (i d) | None -> "over"

let run_case parts =
  let p = ref new_registry in
  let rel = ref [] and nar = ref [] and rs = ref [] in
  let n0 = ref 0 and topo0 = ref false and closed0 = ref false in
  List.iter (fun part ->
      match part with
      | Sexp.List (Sexp.Atom "ops" :: ops) ->
        List.iter (fun op -> let (p', _) = apply_op !p op in p := p') ops;
        n0 := i (ntypes !p); topo0 := topob !p; closed0 := closed_tuplesb !p
      | Sexp.List (Sexp.Atom "qs" :: qs) ->
        List.iter (fun q ->
            match q with
            | Sexp.List (Sexp.Atom h :: a) ->
              let id k = nat_atom (List.nth a k) in
              (* B(n) by its closed form (theorem C18_rel_bound_formula; cross-checked against the
                 extracted rel_bound at start-up): the extracted unary multiplication is not
                 tail-recursive and overflows the OCaml stack for n around 50 *)
              let b = nat_of_int (bound_int (i (ntypes !p))) in
              let nb = narrow_bound (ntypes !p) in
              let ncap = nat_of_int (4 * i nb + 64) in
              (match h with
               | "compat" | "overlap" ->
                 let mode = if h = "compat" then All else Any in
                 let d = rel_depth !cfg !p mode (id 0) (id 1) b in
                 rel := Printf.sprintf "(%s %d)" (str_depth d) (i b) :: !rel;
                 let r = if h = "compat" then is_compatible_with !cfg b !p (id 0) (id 1)
                   else types_overlap_with !cfg b !p (id 0) (id 1) in
                 rs := str_bool r :: !rs
               | "isect" | "compl" ->
                 let d = if h = "isect" then isect_depth !cfg big !p (id 0) (id 1) ncap
                   else compl_depth !cfg big !p (id 0) (id 1) ncap in
                 nar := Printf.sprintf "(%s %d)" (str_depth d) (i nb) :: !nar;
                 let r = if h = "isect" then intersect_types !cfg big big !p (id 0) (id 1)
                   else compute_complement !cfg big big !p (id 0) (id 1) in
                 (match r with
                  | Some (p', rid) -> p := p'; rs := Printf.sprintf "(id %d)" (i rid) :: !rs
                  | None -> rs := "(fuel)" :: !rs)
               | _ -> failwith ("bad query " ^ h))
            | _ -> failwith "bad query") qs
      | _ -> failwith "bad part") parts;
  Printf.printf "(n %d) (topo %d) (closed %d) (reldepths %s) (narrowdepths %s) (rs %s)\n" !n0 (if !topo0 then 1 else 0) (if !closed0 then 1 else 0)
    (String.concat " " (List.rev !rel)) (String.concat " " (List.rev !nar)) (String.concat " " (List.rev !rs))

let () =
  let argv = Array.to_list Sys.argv in
  let rec opts = function
    | "--cfg" :: v :: rest ->
      cfg := (match v with "partial" -> partial_cfg | "current" -> current_cfg | _ -> failwith "bad cfg");
      opts rest
    | _ :: rest -> opts rest
    | [] -> () in
  opts (List.tl argv);
  try
    while true do
      let line = input_line stdin in
      if String.length line > 0 && line.[0] <> '#' then begin
        (try run_case (Sexp.parse_all line)
         with
         | Stack_overflow -> print_endline "(stack-overflow)"
         | Failure m -> print_endline ("(bad-case " ^ m ^ ")"))
      end
    done
  with End_of_file -> ()
