(* Driver for the type-table / relation / narrowing models and the semantic oracle.
   usage: types_driver [--cfg legacy|f7|fixed|partial|current]
   stdin, one case per line, two kinds:
     (ops OP..) (qs Q..)      same language as harness qv_types; prints
                              (ids ..) (rs ..) (reg (tuples ..) (types ..))   [model run]
     (oracle (reg (tuples TU..) (types TY..)) (depth n) (cap c) (checks CHK..))
        CHK ::= (sound a b) | (disjoint a b) | (isect a b r) | (compl o n r) | (filter parent idx must r) | (dom t) | (count t)
        prints (o R..),  R ::= ok | nodom | (cex VALUE) | 0 | 1 | COUNT
   The registry of an oracle line is loaded verbatim (no dedup): it is the dump of the REAL
   Program after the calls. *)
open Types_model

let rec nat_of_int n = if n <= 0 then O else S (nat_of_int (n - 1))
let rec int_of_nat = function O -> 0 | S n -> 1 + int_of_nat n
let ok_code = 1000

let nat_atom s = nat_of_int (int_of_string (Sexp.atom s))
let name_of s = match Sexp.atom s with "-" -> None | "Ok" -> Some (nat_of_int ok_code) | a -> Some (nat_of_int (int_of_string a))
let opt_id s = match Sexp.atom s with "-" -> None | a -> Some (nat_of_int (int_of_string a))

let tfield s = match s with
  | Sexp.List [l; t] -> (name_of l, nat_atom t)
  | _ -> failwith "bad tuple field"
let pfield s = match s with
  | Sexp.List [l; t] -> (nat_atom l, nat_atom t)
  | _ -> failwith "bad partial field"

let ty_of (s : Sexp.t) : ty =
  match s with
  | Sexp.List (Sexp.Atom h :: a) ->
    (match h, a with
     | "int", [] -> TInteger | "bin", [] -> TBinary | "ref", [] -> TReference
     | "tuple", [t] -> TTuple (nat_atom t)
     | "partial", n :: fs -> TPartial (name_of n, List.map pfield fs)
     | "fn", [p; r; rc] -> TCallable (nat_atom p, nat_atom r, nat_atom rc)
     | "cycle", [d] -> TCycle (nat_atom d)
     | "union", vs -> TUnion (List.map nat_atom vs)
     | "proc", [s; r] -> TProcess (opt_id s, opt_id r)
     | "res", [r] -> TResource (nat_atom r)
     | "var", [v] -> TVariable (nat_atom v)
     | _ -> failwith ("bad type " ^ h))
  | _ -> failwith "bad type"

let tuple_of (s : Sexp.t) : tuple_info =
  match s with
  | Sexp.List (Sexp.Atom "tu" :: n :: fs) -> { tname = name_of n; tfields = List.map tfield fs }
  | _ -> failwith "bad tuple"

let str_name = function None -> "-" | Some n -> let k = int_of_nat n in if k = ok_code then "Ok" else string_of_int k
let str_opt = function None -> "-" | Some n -> string_of_int (int_of_nat n)
let i = int_of_nat

let dump_ty = function
  | TInteger -> "(int)" | TBinary -> "(bin)" | TReference -> "(ref)"
  | TTuple t -> Printf.sprintf "(tuple %d)" (i t)
  | TPartial (n, fs) ->
    Printf.sprintf "(partial %s%s)" (str_name n) (String.concat "" (List.map (fun (l, t) -> Printf.sprintf " (%d %d)" (i l) (i t)) fs))
  | TCallable (p, r, rc) -> Printf.sprintf "(fn %d %d %d)" (i p) (i r) (i rc)
  | TCycle d -> Printf.sprintf "(cycle %d)" (i d)
  | TUnion vs -> "(union" ^ String.concat "" (List.map (fun v -> " " ^ string_of_int (i v)) vs) ^ ")"
  | TProcess (s, r) -> Printf.sprintf "(proc %s %s)" (str_opt s) (str_opt r)
  | TResource r -> Printf.sprintf "(res %d)" (i r)
  | TVariable v -> Printf.sprintf "(var %d)" (i v)

let dump_tuple t =
  Printf.sprintf "(tu %s%s)" (str_name t.tname)
    (String.concat "" (List.map (fun (l, ty) -> Printf.sprintf " (%s %d)" (str_name l) (i ty)) t.tfields))

let dump_reg (p : registry) =
  Printf.sprintf "(reg (tuples %s) (types %s))"
    (String.concat " " (List.map dump_tuple p.tuples)) (String.concat " " (List.map dump_ty p.types))

let rec dump_value = function
  | VInt _ -> "(i 0)" | VBin _ -> "(b)" | VRef _ -> "(r 0)"
  | VTup (n, fs) ->
    Printf.sprintf "(t %s%s)" (str_name n)
      (String.concat "" (List.map (fun (l, v) -> Printf.sprintf " (%s %s)" (str_name l) (dump_value v)) fs))
  | VFun c -> Printf.sprintf "(f %d)" (i c)
  | VProc c -> Printf.sprintf "(p %d)" (i c)
  | VRes r -> Printf.sprintf "(res %d)" (i r)

let fuel = nat_of_int 100000
let walk_fuel = nat_of_int 64
let cfg = ref current_cfg
let filter_by_overlap = ref current_filter_by_overlap

let apply_op (p : registry) (op : Sexp.t) : registry * nat =
  match op with
  | Sexp.List (Sexp.Atom "tu" :: n :: fs) -> register_tuple p (name_of n) (List.map tfield fs)
  | _ -> register_type p (ty_of op)

let str_bool = function Some true -> "1" | Some false -> "0" | None -> "(fuel)"
let str_id = function Some (p, id) -> (Some p, Printf.sprintf "(id %d)" (i id)) | None -> (None, "(fuel)")

let run_query (p : registry) (q : Sexp.t) : registry * string =
  match q with
  | Sexp.List (Sexp.Atom h :: a) ->
    let id k = nat_atom (List.nth a k) in
    let upd r = match str_id r with (Some p', s) -> (p', s) | (None, s) -> (p, s) in
    (match h with
     | "compat" -> (p, str_bool (is_compatible_with !cfg fuel p (id 0) (id 1)))
     | "overlap" -> (p, str_bool (types_overlap_with !cfg fuel p (id 0) (id 1)))
     | "isect" -> upd (intersect_types !cfg fuel fuel p (id 0) (id 1))
     | "compl" -> upd (compute_complement !cfg fuel fuel p (id 0) (id 1))
     | "filter" -> upd (filter_variants_by_field !cfg fuel !filter_by_overlap p (id 0) (id 1) (id 2))
     | "unionids" -> upd (Some (union_type_ids p (List.map nat_atom a)))
     | _ -> failwith ("bad query " ^ h))
  | _ -> failwith "bad query"

let run_model parts =
  let p = ref new_registry in
  let ids = ref [] and rs = ref [] in
  List.iter (fun part ->
      match part with
      | Sexp.List (Sexp.Atom "ops" :: ops) ->
        List.iter (fun op -> let (p', id) = apply_op !p op in p := p'; ids := string_of_int (i id) :: !ids) ops
      | Sexp.List (Sexp.Atom "qs" :: qs) ->
        List.iter (fun q -> let (p', s) = run_query !p q in p := p'; rs := s :: !rs) qs
      | _ -> failwith "bad part") parts;
  Printf.printf "(ids %s) (rs %s) %s\n" (String.concat " " (List.rev !ids)) (String.concat " " (List.rev !rs)) (dump_reg !p)

let run_oracle args =
  let find key = List.find_map (function Sexp.List (Sexp.Atom k :: rest) when k = key -> Some rest | _ -> None) args in
  let reg = match find "reg" with
    | Some [Sexp.List (Sexp.Atom "tuples" :: tus); Sexp.List (Sexp.Atom "types" :: tys)] ->
      { tuples = List.map tuple_of tus; types = List.map ty_of tys }
    | _ -> failwith "bad reg" in
  let depth = match find "depth" with Some [d] -> nat_atom d | _ -> nat_of_int 3 in
  let cap = match find "cap" with Some [c] -> nat_atom c | _ -> nat_of_int 400 in
  let checks = match find "checks" with Some c -> c | None -> [] in
  let show = function None -> "ok" | Some v -> "(cex " ^ dump_value v ^ ")" in
  let out = List.map (fun c ->
      match c with
      | Sexp.List (Sexp.Atom h :: a) ->
        let id k = nat_atom (List.nth a k) in
        (* the statements are about the domain `closedb` only; outside it (e.g. unguarded cycles, on
           which the enumeration walk is exponential in its fuel) nothing is enumerated *)
        let indom () = closedb reg (id 0) && closedb reg (id 1) in
        (match h with
         | "sound" -> if indom () then show (cex_sound reg walk_fuel cap depth (id 0) (id 1)) else "nodom"
         | "disjoint" -> if indom () then show (cex_disjoint reg walk_fuel cap depth (id 0) (id 1)) else "nodom"
         | "isect" -> if indom () then show (cex_intersect reg walk_fuel cap depth (id 0) (id 1) (id 2)) else "nodom"
         | "compl" -> if indom () then show (cex_complement reg walk_fuel cap depth (id 0) (id 1) (id 2)) else "nodom"
         | "filter" -> if closedb reg (id 0) && closedb reg (id 2) then show (cex_filter reg walk_fuel cap depth (id 0) (id 1) (id 2) (id 3)) else "nodom"
         | "dom" -> if closedb reg (id 0) then "1" else "0"
         | "count" -> string_of_int (i (count reg walk_fuel cap depth (id 0)))
         | _ -> failwith ("bad check " ^ h))
      | _ -> failwith "bad check") checks in
  Printf.printf "(o %s)\n" (String.concat " " out)

let () =
  let argv = Array.to_list Sys.argv in
  let rec opts = function
    | "--filter-by-overlap" :: rest -> filter_by_overlap := true; opts rest
    | "--cfg" :: v :: rest ->
      cfg := (match v with "legacy" -> legacy_cfg | "f7" -> f7_cfg | "fixed" -> fixed_cfg | "partial" -> partial_cfg | "current" -> current_cfg | _ -> failwith "bad cfg");
      opts rest
    | _ :: rest -> opts rest
    | [] -> () in
  opts (List.tl argv);
  try
    while true do
      let line = input_line stdin in
      if String.length line > 0 && line.[0] <> '#' then begin
        (try
           match Sexp.parse_all line with
           | [Sexp.List (Sexp.Atom "oracle" :: args)] -> run_oracle args
           | parts -> run_model parts
         with
         | Stack_overflow -> print_endline "(stack-overflow)"
         | Failure m -> print_endline ("(bad-case " ^ m ^ ")"))
      end
    done
  with End_of_file -> ()
