(* Driver for the %num model (Num.v): one case per line
     (<op> <operand> ...)     operand ::= nil | (i N) | (r N D) | (s <coef> <coef> N),  coef ::= (i N) | (r N D)
     (lit N D)              literal desugaring (parser.rs reduce_rational)
   prints one outcome line in the format of the harness `qv_eval`:
     (ok <value>) | (err <Class>) | (panic)            value as dumped by qvh::dump_value. *)
open Num_model

let rec pos_of_bits = function   (* bits LSB first, last bit true *)
  | [] -> failwith "pos_of_bits"
  | [true] -> XH
  | b :: t -> if b then XI (pos_of_bits t) else XO (pos_of_bits t)

let z_of_string (s : string) : z =
  let neg = String.length s > 0 && s.[0] = '-' in
  let s' = if neg then String.sub s 1 (String.length s - 1) else s in
  match Sexp.bits_of_decimal s' with
  | [] -> Z0
  | bits -> if neg then Zneg (pos_of_bits bits) else Zpos (pos_of_bits bits)

let rec bits_of_pos = function XH -> [true] | XO p -> false :: bits_of_pos p | XI p -> true :: bits_of_pos p
let string_of_z = function
  | Z0 -> "0"
  | Zpos p -> Sexp.decimal_of_bits (bits_of_pos p)
  | Zneg p -> "-" ^ Sexp.decimal_of_bits (bits_of_pos p)

let zat s = z_of_string (Sexp.atom s)

let coeff_of (s : Sexp.t) : coeff =
  match s with
  | Sexp.List [Sexp.Atom "i"; n] -> CInt (zat n)
  | Sexp.List [Sexp.Atom "r"; n; d] -> CRat (zat n, zat d)
  | _ -> failwith ("bad coefficient " ^ Sexp.to_string s)

let opt_of (s : Sexp.t) : opt =
  match s with
  | Sexp.Atom "nil" -> None
  | Sexp.List [Sexp.Atom "s"; a; b; n] -> Some (NSurd (coeff_of a, coeff_of b, zat n))
  | _ -> Some (NC (coeff_of s))

let dump_int z = "(i " ^ string_of_z z ^ ")"
let dump_coeff = function
  | CInt z -> dump_int z
  | CRat (n, d) -> "(t Rational (- -) " ^ dump_int n ^ " " ^ dump_int d ^ ")"
let dump_num = function
  | NC c -> dump_coeff c
  | NSurd (a, b, n) -> "(t Surd (- - -) " ^ dump_coeff a ^ " " ^ dump_coeff b ^ " " ^ dump_int n ^ ")"
let dump_res = function
  | RNil -> "(t - ())"
  | RNum x -> dump_num x
  | ROk -> "(t Ok ())"

let err_name = function
  | InvalidArgument -> "InvalidArgument" | TypeMismatch -> "TypeMismatch" | StackUnderflow -> "StackUnderflow"
  | CallInvalid -> "CallInvalid" | FunctionUndefined -> "FunctionUndefined" | BuiltinUndefined -> "BuiltinUndefined"
  | FrameUnderflow -> "FrameUnderflow" | VariableUndefined -> "VariableUndefined" | ConstantUndefined -> "ConstantUndefined"
  | FieldAccessInvalid -> "FieldAccessInvalid" | ArityMismatch -> "ArityMismatch" | TupleEmpty -> "TupleEmpty"
  | OperationNotAllowed -> "OperationNotAllowed"

let dump_outcome = function
  | Val v -> "(ok " ^ dump_res v ^ ")"
  | Err e -> "(err " ^ err_name e ^ ")"
  | Panic _ -> "(panic)"

let ops : (string * opname) list = [
  "add", OAdd; "sub", OSub; "mul", OMul; "div", ODiv; "neg", ONeg; "abs", OAbs; "min", OMin; "max", OMax;
  "clamp", OClamp; "sign", OSign; "sqrt", OSqrt; "numer", ONumer; "denom", ODenom; "to_int", OToInt;
  "floor", OFloor; "ceil", OCeil; "round", ORound; "eq?", OEq; "lt?", OLt; "le?", OLe; "gt?", OGt; "ge?", OGe;
  "min_fixed", OMinFixed; "max_fixed", OMaxFixed; "clamp_fixed", OClampFixed;
]

let () =
  if Array.length Sys.argv > 1 && Sys.argv.(1) = "--names" then
    List.iter (fun (n, _) -> print_endline n) ops
  else
    try
      while true do
        let line = input_line stdin in
        if String.length line > 0 && line.[0] <> '#' then begin
          match Sexp.parse line with
          | Sexp.List [Sexp.Atom "lit"; n; d] ->
            let Rat (n', d') = lit_reduce (zat n) (zat d) in
            print_endline ("(ok " ^ dump_coeff (CRat (n', d')) ^ ")")
          | Sexp.List (Sexp.Atom name :: args) ->
            (match List.assoc_opt name ops with
             | None -> print_endline "(unmodelled)"
             | Some o -> print_endline (dump_outcome (run_op o (List.map opt_of args))))
          | _ -> print_endline "(bad-case)"
        end
      done
    with End_of_file -> ()
