#!/usr/bin/env python3
"""Regenerates MANIFEST.json from the per-property table below (kept in one place so that the
manifest is always schema-valid and in step with what ./check implements)."""
import json, os

def load_claimed():
    """Every plugin vplib/props/cXX.py that defines a MANIFEST dict is a claimed property."""
    import importlib, sys
    here = os.path.dirname(os.path.abspath(__file__))
    sys.path.insert(0, here)
    out = {}
    # only properties listed in claimed.txt are registered (work in progress stays out)
    allowed = set(l.strip() for l in open(os.path.join(here, "claimed.txt")) if l.strip() and not l.startswith("#"))
    for f in sorted(os.listdir(os.path.join(here, "vplib", "props"))):
        if f.startswith("c") and f.endswith(".py") and f[:-3].upper() in allowed:
            mod = importlib.import_module("vplib.props." + f[:-3])
            if getattr(mod, "MANIFEST", None):
                out[f[:-3].upper()] = mod.MANIFEST
    return out

CLAIMED = load_claimed()

NOT_APPLICABLE = {}

PENDING_REASON = "not claimed yet: the Coq model/correspondence for this property is still being built (see DESIGN.md §9 staging); no check is registered until it is sound"

def main():
    here = os.path.dirname(os.path.abspath(__file__))
    props = [json.loads(l)["id"] for l in open(os.path.join(here, "properties.jsonl"))]
    checks = []
    for pid in props:
        if pid in CLAIMED:
            c = CLAIMED[pid]
            checks.append({
                "property_id": pid,
                "quick_cmd": "./check %s --tier quick" % pid,
                "thorough_cmd": "./check %s --tier thorough" % pid,
                "evidence_file": "/verif/evidence/%s.json" % pid,
                "replay_cmd_template": "./check %s --replay {path}" % pid,
                "engine": "coq-model+correspondence",
                "level_claimed": {"category": c["category"], "text": c["text"], "design_ref": c["design_ref"]},
                "level_note": c["note"],
                "technique": c["technique"],
            })
    na = []
    for pid in props:
        if pid in CLAIMED:
            continue
        na.append({"property_id": pid, "reason": NOT_APPLICABLE.get(pid, PENDING_REASON)})
    hooks_commits = []
    hp = os.path.join(here, "hooks_commits.txt")
    if os.path.exists(hp):
        hooks_commits = [l.split()[0] for l in open(hp) if l.strip()]
    m = {
        "version": 1,
        "setup_cmd": "./setup.sh",
        "hooks": {
            "guard": "quiver_verif",
            "enable": "RUSTFLAGS=\"--cfg quiver_verif\" cargo build --offline (harness crate /verif/harness, path deps on /repo)",
            "baseline_off_cmd": "cd /repo && cargo test --workspace --no-fail-fast --offline",
            "source_commits": hooks_commits,
            "add_only": True,
        },
        "engines": [{
            "name": "coq-model+correspondence", "path": "/verif/check",
            "serves_properties": sorted(CLAIMED),
            "kind_free_text": "Coq 8.16 theorems about hand-written Gallina models; extracted OCaml models run against the real Rust code through /verif/harness on the same inputs (correspondence); impl-level oracles search for failing inputs",
        }],
        "checks": checks,
        "not_applicable": na,
        "notes": "See DESIGN.md. known_findings.json lists recorded and fixed defects.",
    }
    json.dump(m, open(os.path.join(here, "MANIFEST.json"), "w"), indent=1)

if __name__ == "__main__":
    main()
