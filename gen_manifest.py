#!/usr/bin/env python3
"""Regenerates MANIFEST.json from the per-property table below (kept in one place so that the
manifest is always schema-valid and in step with what ./check implements)."""
import json, os

CLAIMED = {
    "C12": dict(
        category="proof",
        text="Coq theorems: each modelled builtin's implementation model (integer.rs/binary.rs/vector.rs control flow on machine integers and ropes) equals a plain reference spec over unbounded Z / flat byte lists and never panics, for all arguments; the model is tied to the code by differential execution of the extracted model against the real builtin functions (debug and release builds) on boundary-weighted arguments and every rope shape.",
        design_ref="§5 C12",
        note="Trusted: Coq kernel, extraction (ExtrOcamlBasic), OCaml driver, Rust harness, generators. integer_sin/cos go through f64/libm and are only exercised for totality. Model-coverage guard lists unmodelled builtins in the evidence.",
        technique="Coq proof (impl model = reference spec, panic-freedom) + model/code correspondence by differential execution",
    ),
}

NOT_APPLICABLE = {
    "C18": "front-end totality is absence of Rust-level partiality in nom/compiler code; a total Gallina model cannot express it and no Rust-to-Coq translation is available offline (DESIGN.md §6)",
}

PENDING_REASON = "not claimed yet: the Coq model/correspondence for this property is still being built (see DESIGN.md §9 staging); no check is registered until it is sound"

def main():
    here = os.path.dirname(os.path.abspath(__file__))
    props = [json.loads(l)["id"] for l in open(os.path.join(here, "properties.jsonl"))]
    checks = []
    for pid in props:
        if pid in CLAIMED:
            c = CLAIMED[pid]
            checks.append({
                "property_id": pid,
                "quick_cmd": "./check %s --tier quick" % pid,
                "thorough_cmd": "./check %s --tier thorough" % pid,
                "evidence_file": "/verif/evidence/%s.json" % pid,
                "replay_cmd_template": "./check %s --replay {path}" % pid,
                "engine": "coq-model+correspondence",
                "level_claimed": {"category": c["category"], "text": c["text"], "design_ref": c["design_ref"]},
                "level_note": c["note"],
                "technique": c["technique"],
            })
    na = []
    for pid in props:
        if pid in CLAIMED:
            continue
        na.append({"property_id": pid, "reason": NOT_APPLICABLE.get(pid, PENDING_REASON)})
    hooks_commits = []
    hp = os.path.join(here, "hooks_commits.txt")
    if os.path.exists(hp):
        hooks_commits = [l.split()[0] for l in open(hp) if l.strip()]
    m = {
        "version": 1,
        "setup_cmd": "./setup.sh",
        "hooks": {
            "guard": "quiver_verif",
            "enable": "RUSTFLAGS=\"--cfg quiver_verif\" cargo build --offline (harness crate /verif/harness, path deps on /repo)",
            "baseline_off_cmd": "cd /repo && cargo test --workspace --no-fail-fast --offline",
            "source_commits": hooks_commits,
            "add_only": True,
        },
        "engines": [{
            "name": "coq-model+correspondence", "path": "/verif/check",
            "serves_properties": sorted(CLAIMED),
            "kind_free_text": "Coq 8.16 theorems about hand-written Gallina models; extracted OCaml models run against the real Rust code through /verif/harness on the same inputs (correspondence); impl-level oracles search for failing inputs",
        }],
        "checks": checks,
        "not_applicable": na,
        "notes": "See DESIGN.md. known_findings.json lists recorded and fixed defects.",
    }
    json.dump(m, open(os.path.join(here, "MANIFEST.json"), "w"), indent=1)

if __name__ == "__main__":
    main()
