//! Minimal s-expression reader/printer (atoms, "strings" with \" \\ \n escapes, lists).
#[derive(Debug, Clone, PartialEq)]
pub enum Sexp {
    Atom(String),
    Str(String),
    List(Vec<Sexp>),
}

impl Sexp {
    pub fn atom(&self) -> &str {
        match self {
            Sexp::Atom(s) | Sexp::Str(s) => s,
            _ => panic!("expected atom, got {:?}", self),
        }
    }
    pub fn list(&self) -> &[Sexp] {
        match self {
            Sexp::List(l) => l,
            _ => panic!("expected list, got {:?}", self),
        }
    }
    /// head atom of a list, e.g. `i` for `(i 5)`
    pub fn head(&self) -> &str {
        self.list()[0].atom()
    }
    pub fn args(&self) -> &[Sexp] {
        &self.list()[1..]
    }
    pub fn usize(&self) -> usize {
        self.atom().parse().unwrap()
    }
    pub fn i64(&self) -> i64 {
        self.atom().parse().unwrap()
    }
}

pub fn parse(s: &str) -> Sexp {
    let chars: Vec<char> = s.chars().collect();
    let mut pos = 0;
    let r = parse_at(&chars, &mut pos);
    r
}

/// Parse every top-level s-expression of a line.
pub fn parse_all(s: &str) -> Vec<Sexp> {
    let chars: Vec<char> = s.chars().collect();
    let mut pos = 0;
    let mut out = vec![];
    loop {
        skip_ws(&chars, &mut pos);
        if pos >= chars.len() {
            break;
        }
        out.push(parse_at(&chars, &mut pos));
    }
    out
}

fn skip_ws(c: &[char], pos: &mut usize) {
    while *pos < c.len() && c[*pos].is_whitespace() {
        *pos += 1;
    }
}

fn parse_at(c: &[char], pos: &mut usize) -> Sexp {
    skip_ws(c, pos);
    if *pos >= c.len() {
        panic!("unexpected end of s-expression");
    }
    match c[*pos] {
        '(' => {
            *pos += 1;
            let mut items = vec![];
            loop {
                skip_ws(c, pos);
                if *pos >= c.len() {
                    panic!("unterminated list");
                }
                if c[*pos] == ')' {
                    *pos += 1;
                    break;
                }
                items.push(parse_at(c, pos));
            }
            Sexp::List(items)
        }
        '"' => {
            *pos += 1;
            let mut s = String::new();
            while *pos < c.len() && c[*pos] != '"' {
                if c[*pos] == '\\' && *pos + 1 < c.len() {
                    *pos += 1;
                    match c[*pos] {
                        'n' => s.push('\n'),
                        't' => s.push('\t'),
                        'r' => s.push('\r'),
                        other => s.push(other),
                    }
                } else {
                    s.push(c[*pos]);
                }
                *pos += 1;
            }
            *pos += 1;
            Sexp::Str(s)
        }
        _ => {
            let start = *pos;
            while *pos < c.len() && !c[*pos].is_whitespace() && c[*pos] != '(' && c[*pos] != ')' {
                *pos += 1;
            }
            Sexp::Atom(c[start..*pos].iter().collect())
        }
    }
}

pub fn quote(s: &str) -> String {
    let mut o = String::from("\"");
    for ch in s.chars() {
        match ch {
            '"' => o.push_str("\\\""),
            '\\' => o.push_str("\\\\"),
            '\n' => o.push_str("\\n"),
            '\t' => o.push_str("\\t"),
            '\r' => o.push_str("\\r"),
            c => o.push(c),
        }
    }
    o.push('"');
    o
}

impl std::fmt::Display for Sexp {
    fn fmt(&self, f: &mut std::fmt::Formatter<'_>) -> std::fmt::Result {
        match self {
            Sexp::Atom(a) => write!(f, "{}", a),
            Sexp::Str(s) => write!(f, "{}", quote(s)),
            Sexp::List(l) => {
                write!(f, "(")?;
                for (i, x) in l.iter().enumerate() {
                    if i > 0 {
                        write!(f, " ")?;
                    }
                    write!(f, "{}", x)?;
                }
                write!(f, ")")
            }
        }
    }
}
