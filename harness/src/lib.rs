//! Shared helpers for the verification harness binaries (src/bin/qv_*.rs).
//!
//! Everything here drives the *real* quiver crates (path deps on /repo) and prints canonical,
//! line-oriented dumps that the Python driver diffs against the extracted Coq models.
pub mod sexp;

use num_bigint::BigInt;
use quiver_compiler::compiler::ModuleCache;
use quiver_compiler::{Compiler, PackageResolver, parse};
use quiver_core::builtins::BuiltinRegistry;
use quiver_core::bytecode::{Bytecode, Constant};
use quiver_core::effects::Effect;
use quiver_core::program::Program;
use quiver_core::types::{Type, TypeLookup};
use quiver_core::value::{Binary, ResourceId, Value};
use quiver_core::{Error, Executor};
use serde::{Deserialize, Serialize};
use std::collections::HashMap;
use std::panic::{AssertUnwindSafe, catch_unwind};

/// Effect type used by the harness. `Op(rid, n)` operates on a resource; `Open(n)` creates one.
#[derive(Debug, Clone, Serialize, Deserialize, PartialEq)]
pub enum TestEffect {
    Open(u64),
    Op(ResourceId, u64),
}

impl Effect for TestEffect {
    fn resource_id(&self) -> Option<ResourceId> {
        match self {
            TestEffect::Open(_) => None,
            TestEffect::Op(r, _) => Some(*r),
        }
    }
}

pub fn registry() -> BuiltinRegistry<TestEffect> {
    BuiltinRegistry::<TestEffect>::with_modules(&quiver_core::builtins::core_modules())
}

/// Install a panic hook that records `file:line` of the last panic (and keeps stderr quiet).
pub fn quiet_panics() {
    std::panic::set_hook(Box::new(|info| {
        let loc = info
            .location()
            .map(|l| format!("{}:{}", l.file(), l.line()))
            .unwrap_or_else(|| "?".to_string());
        LAST_PANIC.with(|p| *p.borrow_mut() = loc);
    }));
}

thread_local! {
    pub static LAST_PANIC: std::cell::RefCell<String> = const { std::cell::RefCell::new(String::new()) };
}

pub fn last_panic() -> String {
    LAST_PANIC.with(|p| {
        let s = p.borrow().clone();
        // strip the /repo prefix so dumps are stable
        s.rsplit("/repo/").next().unwrap_or(&s).to_string()
    })
}

/// Run `f`, mapping a panic to `Err(file:line)`.
pub fn guarded<T>(f: impl FnOnce() -> T) -> Result<T, String> {
    catch_unwind(AssertUnwindSafe(f)).map_err(|_| last_panic())
}

/// Small enum of error classes (canonicalised error output; messages are not compared).
pub fn error_class(e: &Error) -> &'static str {
    match e {
        Error::InvalidArgument(_) => "InvalidArgument",
        Error::TypeMismatch { .. } => "TypeMismatch",
        Error::StackUnderflow => "StackUnderflow",
        Error::CallInvalid => "CallInvalid",
        Error::FunctionUndefined(_) => "FunctionUndefined",
        Error::BuiltinUndefined(_) => "BuiltinUndefined",
        Error::FrameUnderflow => "FrameUnderflow",
        Error::VariableUndefined(_) => "VariableUndefined",
        Error::ConstantUndefined(_) => "ConstantUndefined",
        Error::FieldAccessInvalid(_) => "FieldAccessInvalid",
        Error::ArityMismatch { .. } => "ArityMismatch",
        Error::TupleEmpty => "TupleEmpty",
        Error::OperationNotAllowed { .. } => "OperationNotAllowed",
        Error::ScopeCountInvalid { .. } => "ScopeCountInvalid",
        Error::ScopeUnderflow => "ScopeUnderflow",
    }
}

pub fn hex(bytes: &[u8]) -> String {
    let mut s = String::with_capacity(bytes.len() * 2);
    for b in bytes {
        s.push_str(&format!("{:02x}", b));
    }
    s
}

pub fn unhex(s: &str) -> Vec<u8> {
    (0..s.len() / 2)
        .map(|i| u8::from_str_radix(&s[2 * i..2 * i + 2], 16).unwrap())
        .collect()
}

/// Where binaries of a dumped value live.
pub enum Bins<'a> {
    /// Heap of an executor (Binary::Heap) + constants table (Binary::Constant).
    Exec(&'a Executor<TestEffect>, &'a [Constant]),
    /// Extracted heap data (Binary::Heap(i) indexes `heap`) + constants.
    Extracted(&'a [Vec<u8>], &'a [Constant]),
}

impl Bins<'_> {
    pub fn bytes(&self, b: &Binary) -> Option<Vec<u8>> {
        let consts = match self {
            Bins::Exec(_, c) | Bins::Extracted(_, c) => *c,
        };
        match b {
            Binary::Constant(i) => match consts.get(*i) {
                Some(Constant::Binary(v)) => Some(v.clone()),
                _ => None,
            },
            Binary::Heap(i) => match self {
                Bins::Exec(ex, _) => ex.get_heap_binary(*i).map(|d| d.to_vec()),
                Bins::Extracted(h, _) => h.get(*i).cloned(),
            },
        }
    }
}

/// Canonical *erased* dump of a value: tuple ids become `"Name" (labels)`, binaries their
/// content. `(i n) (b hex) (r n) (t "Name" (l1 l2 ..) v..) (f fid v..) (bi id) (p pid fid) (res rid ty)`.
/// Unnamed tuples have name `-`; unnamed fields have label `-`.
pub fn dump_value(v: &Value, lookup: &impl TypeLookup, bins: &Bins) -> String {
    match v {
        Value::Integer(n) => format!("(i {})", n),
        Value::Binary(b) => match bins.bytes(b) {
            Some(bytes) => format!("(b {})", hex(&bytes)),
            None => "(b ?)".to_string(),
        },
        Value::Reference(r) => format!("(r {})", r),
        Value::Tuple(tid, fields) => {
            let (name, labels) = match lookup.lookup_tuple(*tid) {
                Some(info) => (
                    info.name.clone().unwrap_or_else(|| "-".to_string()),
                    info.fields
                        .iter()
                        .map(|(l, _)| l.clone().unwrap_or_else(|| "-".to_string()))
                        .collect::<Vec<_>>(),
                ),
                None => (format!("?{}", tid), vec![]),
            };
            let mut s = format!("(t {} ({})", name, labels.join(" "));
            for f in fields.iter() {
                s.push(' ');
                s.push_str(&dump_value(f, lookup, bins));
            }
            s.push(')');
            s
        }
        Value::Function(fid, caps) => {
            let mut s = format!("(f {}", fid);
            for c in caps.iter() {
                s.push(' ');
                s.push_str(&dump_value(c, lookup, bins));
            }
            s.push(')');
            s
        }
        Value::Builtin(id) => format!("(bi {})", id),
        Value::Process(pid, fid) => format!("(p {} {})", pid, fid),
        Value::Resource(rid, ty) => format!("(res {} {})", rid, ty),
    }
}

/// Result of compiling + running one source text synchronously on one executor.
pub enum EvalOutcome {
    ParseError(String),
    CompileError(String),
    /// value dump, result type (formatted), the bytecode that ran
    Ok(String, String),
    RuntimeError(&'static str, String),
    Panic(String),
}

impl EvalOutcome {
    pub fn line(&self) -> String {
        match self {
            EvalOutcome::ParseError(_) => "(parse-error)".to_string(),
            EvalOutcome::CompileError(e) => format!("(compile-error {})", e),
            EvalOutcome::Ok(v, _) => format!("(ok {})", v),
            EvalOutcome::RuntimeError(c, _) => format!("(err {})", c),
            EvalOutcome::Panic(loc) => format!("(panic \"{}\")", loc),
        }
    }
}

pub struct CompiledSource {
    pub program: Program,
    pub entry: usize,
    pub result_type: usize,
}

/// Compile `source` as a top-level program (as `quiv run`/the CLI does, without executing it)
/// with in-memory `modules` (path -> source) available beside the bundled std.
pub fn compile_source(
    source: &str,
    modules: HashMap<Vec<String>, String>,
) -> Result<CompiledSource, EvalOutcome> {
    let builtins = registry();
    let ast = match parse(source) {
        Ok(a) => a,
        Err(e) => return Err(EvalOutcome::ParseError(format!("{:?}", e))),
    };
    let mut program = Program::new();
    let mut module_cache = ModuleCache::new();
    let resolver = PackageResolver::memory(modules);
    // as quiv run (after the F58 repair): the parameter is the nil *type*, not the NIL tuple id
    let entry_param_type = program.register_type(quiver_core::types::Type::nil());
    let compiled = Compiler::compile(
        ast,
        &HashMap::new(),
        &mut module_cache,
        &resolver,
        &mut program,
        entry_param_type,
        &HashMap::new(),
        &builtins,
        None,
    );
    let compiled = match compiled {
        Ok(c) => c,
        Err(e) => {
            let s = format!("{:?}", e.error);
            let kind = s.split(['(', ' ', '{']).next().unwrap_or("").to_string();
            return Err(EvalOutcome::CompileError(kind));
        }
    };
    let nil_type_id = program.register_type(Type::nil());
    let callable = program.register_type(Type::Callable {
        parameter: nil_type_id,
        result: compiled.result_type,
        receive: compiled.receive_type,
    });
    let entry = program.register_function(quiver_core::bytecode::Function {
        instructions: compiled.instructions,
        captures: 0,
        type_id: callable,
    });
    Ok(CompiledSource {
        program,
        entry,
        result_type: compiled.result_type,
    })
}

/// `execute_bytecode_sync` with a step budget: the original loops forever when the process blocks
/// (a receive with no sender, an await of a process that is never started, a parked spawner), so
/// the harness runs the same sequence of calls itself and reports `Blocked` / `StepLimit` as
/// runtime-error classes instead of hanging. Timeouts fire on a virtual clock.
pub fn execute_bounded(
    bytecode: Bytecode,
    max_steps: usize,
) -> Result<(Value, Executor<TestEffect>), Result<Error, &'static str>> {
    execute_bounded_with(bytecode, max_steps, false)
}

/// As [`execute_bounded`]; `profile` turns on the executor's peak stack/locals/frames statistics.
pub fn execute_bounded_with(
    bytecode: Bytecode,
    max_steps: usize,
    profile: bool,
) -> Result<(Value, Executor<TestEffect>), Result<Error, &'static str>> {
    use quiver_core::compatibility::{
        CompatibilityInput, compute_canonical_tuples, compute_param_compatibility,
        compute_type_compatibility,
    };
    use quiver_core::executor::ProgramUpdate;
    let builtins = registry();
    let entry = bytecode.entry.ok_or(Err("NoEntry"))?;
    let mut executor = Executor::new(builtins, profile, 0);
    let input = CompatibilityInput {
        types: &bytecode.types,
        tuples: &bytecode.tuples,
        functions: &bytecode.functions,
        builtins: &bytecode.builtins,
        resource_names: &bytecode.resources,
    };
    let type_compatibility = compute_type_compatibility(&input);
    let canonical_tuples = compute_canonical_tuples(&bytecode.tuples);
    let (function_param_compatibility, builtin_param_compatibility) =
        compute_param_compatibility(&input);
    let update = ProgramUpdate {
        constants: bytecode.constants,
        functions: bytecode.functions,
        tuples: bytecode.tuples[2..].to_vec(),
        types: bytecode.types,
        builtins: bytecode.builtins,
        resources: bytecode.resources,
        type_compatibility,
        function_param_compatibility,
        builtin_param_compatibility,
        canonical_tuples,
    };
    executor.update_program(update);
    executor
        .spawn_process(0, Some(entry), vec![], Value::nil(), vec![], false)
        .map_err(Ok)?;
    let mut now: u64 = 0;
    for _ in 0..max_steps {
        let (did_work, _action) = executor.step(1000, now);
        let process = executor.get_process(0).ok_or(Err("ProcessDisappeared"))?;
        if let Some(result) = &process.result {
            return match result {
                Ok(v) => {
                    let v = v.clone();
                    if cfg!(debug_assertions)
                        && let Err(e) = executor.check_refcounts()
                    {
                        panic!("refcount invariant violated after sync execution: {e}");
                    }
                    Ok((v, executor))
                }
                Err(e) => Err(Ok(e.clone())),
            };
        }
        if !did_work {
            match executor.next_timeout_ms() {
                Some(t) if t > now => now = t,
                Some(_) => now += 1,
                None => return Err(Err("Blocked")),
            }
        }
    }
    Err(Err("StepLimit"))
}

/// Run bytecode synchronously (one executor, as `execute_bytecode_sync`, but bounded) under
/// catch_unwind.
pub fn run_bytecode(bytecode: Bytecode) -> EvalOutcome {
    let bc = bytecode.clone();
    let r = guarded(move || execute_bounded(bytecode, 200_000));
    match r {
        Err(loc) => EvalOutcome::Panic(loc),
        Ok(Err(Ok(e))) => EvalOutcome::RuntimeError(error_class(&e), format!("{:?}", e)),
        Ok(Err(Err(why))) => EvalOutcome::RuntimeError(why, why.to_string()),
        Ok(Ok((value, executor))) => {
            let bins = Bins::Exec(&executor, &bc.constants);
            let v = dump_value(&value, &bc, &bins);
            EvalOutcome::Ok(v, String::new())
        }
    }
}

/// Compile and run a source text; the outcome line is canonical.
pub fn eval_source(source: &str, modules: HashMap<Vec<String>, String>) -> EvalOutcome {
    let src = source.to_string();
    let compiled = match guarded(move || compile_source(&src, modules)) {
        Err(loc) => return EvalOutcome::Panic(loc),
        Ok(Err(e)) => return e,
        Ok(Ok(c)) => c,
    };
    let bytecode = compiled.program.to_bytecode(Some(compiled.entry));
    let ty = quiver_core::format::format_type_by_id(&compiled.program, compiled.result_type);
    match run_bytecode(bytecode) {
        EvalOutcome::Ok(v, _) => EvalOutcome::Ok(v, ty),
        o => o,
    }
}

pub fn bigint(s: &str) -> BigInt {
    s.parse::<BigInt>().expect("integer")
}

/// Read all lines of stdin (one case per line; empty lines and `#` comments skipped).
pub fn stdin_cases() -> Vec<String> {
    use std::io::BufRead;
    std::io::stdin()
        .lock()
        .lines()
        .map(|l| l.unwrap())
        .filter(|l| !l.trim().is_empty() && !l.starts_with('#'))
        .collect()
}
