//! qv_compile: compile Quiver sources with the real compiler and dump the emitted bytecode.
//! stdin: one case per line: `"<source>" (mod "a/b" "<source>")*`.
//! stdout per case, one line: `(compiled <variant>*)` | `(parse-error)` | `(compile-error K)` | `(panic ..)`
//! where each variant is `(prog <name> (entry e) (consts ..) (fns (fn caps type (ins ..))..)
//! (tuples arity..) (nbuiltins n) (ntypes n))` for name in: `as-compiled`, `tree-shaken`.
//! `--std`: instead of stdin, compile every bundled std module (via `%name` imports).
use qvh::sexp::{self, Sexp};
use qvh::TestEffect;
use quiver_core::bytecode::{Bytecode, Constant, Instruction};
use quiver_environment::{Command, Environment, EnvironmentError, Event, WorkerHandle};
use std::collections::HashMap;
use std::sync::{Arc, Mutex};

/// A worker handle that only records the commands the environment sends (no worker behind it).
struct Recorder(Arc<Mutex<Vec<Command<TestEffect>>>>);
impl WorkerHandle<TestEffect> for Recorder {
    fn send(&mut self, command: Command<TestEffect>) -> Result<(), EnvironmentError> {
        self.0.lock().unwrap().push(command);
        Ok(())
    }
    fn try_recv(&mut self) -> Result<Option<Event<TestEffect>>, EnvironmentError> {
        Ok(None)
    }
}

/// Environment that accumulates merged programs (`--merge N`: reset after N programs).
struct Merger {
    env: Environment<TestEffect>,
    log: Arc<Mutex<Vec<Command<TestEffect>>>>,
    count: usize,
}
impl Merger {
    fn new() -> Self {
        let log = Arc::new(Mutex::new(Vec::new()));
        let env = Environment::<TestEffect>::new(vec![Box::new(Recorder(log.clone()))]);
        Merger { env, log, count: 0 }
    }
    /// Merge `bc` behind whatever was merged before; returns the whole merged program with the
    /// remapped entry.
    fn merge(&mut self, bc: Bytecode) -> Result<Bytecode, String> {
        self.log.lock().unwrap().clear();
        self.env.start_process(Some(bc)).map_err(|e| format!("{:?}", e))?;
        self.count += 1;
        let entry = self.log.lock().unwrap().iter().find_map(|c| match c {
            Command::StartProcess { function_index, .. } => *function_index,
            _ => None,
        });
        let entry = entry.ok_or("no StartProcess command")?;
        Ok(self.env.get_program().to_bytecode(Some(entry)))
    }
}

pub fn dump_instr(i: &Instruction) -> String {
    match i {
        Instruction::Constant(k) => format!("(const {})", k),
        Instruction::Pop => "(pop)".into(),
        Instruction::Duplicate => "(dup)".into(),
        Instruction::Pick(n) => format!("(pick {})", n),
        Instruction::Rotate(n) => format!("(rot {})", n),
        Instruction::Reset(n) => format!("(reset {})", n),
        Instruction::Load(n) => format!("(load {})", n),
        Instruction::Store => "(store)".into(),
        Instruction::Tuple(t) => format!("(tuple {})", t),
        Instruction::Get(n) => format!("(get {})", n),
        Instruction::IsType(t) => format!("(istype {})", t),
        Instruction::Jump(o) => format!("(jmp {})", o),
        Instruction::JumpIf(o) => format!("(jmpif {})", o),
        Instruction::Call => "(call)".into(),
        Instruction::TailCall(r) => format!("(tailcall {})", if *r { 1 } else { 0 }),
        Instruction::Function(f) => format!("(fn {})", f),
        Instruction::Builtin(b) => format!("(builtin {})", b),
        Instruction::Equal(n) => format!("(equal {})", n),
        Instruction::Not => "(not)".into(),
        Instruction::Spawn => "(spawn)".into(),
        Instruction::Send => "(send)".into(),
        Instruction::Self_ => "(self)".into(),
        Instruction::Select => "(select)".into(),
        Instruction::Process(p, f) => format!("(process {} {})", p, f),
    }
}

pub fn dump_program(name: &str, bc: &Bytecode) -> String {
    let mut s = format!("(prog {} (entry {})", name, bc.entry.map(|e| e as i64).unwrap_or(-1));
    s.push_str(" (consts");
    for c in &bc.constants {
        match c {
            Constant::Integer(_) => s.push_str(" i"),
            Constant::Binary(_) => s.push_str(" b"),
        }
    }
    s.push_str(") (fns");
    for f in &bc.functions {
        s.push_str(&format!(" (fn {} {} (ins", f.captures, f.type_id));
        for i in &f.instructions {
            s.push(' ');
            s.push_str(&dump_instr(i));
        }
        s.push_str("))");
    }
    s.push_str(") (tuples");
    for t in &bc.tuples {
        s.push_str(&format!(" {}", t.fields.len()));
    }
    s.push_str(&format!(") (nbuiltins {}) (ntypes {})", bc.builtins.len(), bc.types.len()));
    // table cross-references (for the "every index is in range" part of C07): per type the type
    // ids and tuple ids it mentions, per tuple its field type ids, per builtin its param/result
    s.push_str(" (tyrefs");
    for t in &bc.types {
        use quiver_core::types::Type;
        let (tys, tups): (Vec<usize>, Vec<usize>) = match t {
            Type::Integer | Type::Binary | Type::Reference | Type::Resource(_) | Type::Variable(_) | Type::Cycle(_) => (vec![], vec![]),
            Type::Tuple(id) => (vec![], vec![*id]),
            Type::Partial { fields, .. } => (fields.iter().map(|(_, t)| *t).collect(), vec![]),
            Type::Callable { parameter, result, receive } => (vec![*parameter, *result, *receive], vec![]),
            Type::Union(v) => (v.clone(), vec![]),
            Type::Process { send, receive } => (send.iter().chain(receive.iter()).copied().collect(), vec![]),
        };
        s.push_str(&format!(
            " (ty ({}) ({}))",
            tys.iter().map(|x| x.to_string()).collect::<Vec<_>>().join(" "),
            tups.iter().map(|x| x.to_string()).collect::<Vec<_>>().join(" ")
        ));
    }
    s.push_str(") (tuprefs");
    for t in &bc.tuples {
        s.push_str(&format!(" ({})", t.fields.iter().map(|(_, x)| x.to_string()).collect::<Vec<_>>().join(" ")));
    }
    s.push_str(") (birefs");
    for b in &bc.builtins {
        s.push_str(&format!(" ({} {})", b.param_type, b.result_type));
    }
    s.push_str("))");
    s
}

/// Run the as-compiled program on one executor with the per-instruction trace hook on; returns
/// `(trace <outcome> (fn pc stack_len locals_len locals_base frames_len)...)` (first `limit` entries
/// of process 0).
fn trace_line(bc: Bytecode, limit: usize) -> String {
    use quiver_core::executor::verif;
    verif::set_tracing(true);
    let outcome = qvh::run_bytecode(bc);
    let entries = verif::take_trace();
    verif::set_tracing(false);
    let mut s = format!("(trace {}", match outcome {
        qvh::EvalOutcome::Ok(..) => "ok".to_string(),
        qvh::EvalOutcome::RuntimeError(c, _) => format!("err-{}", c),
        qvh::EvalOutcome::Panic(_) => "panic".to_string(),
        _ => "other".to_string(),
    });
    for e in entries.iter().filter(|e| e.pid == 0).take(limit) {
        s.push_str(&format!(
            " ({} {} {} {} {} {})",
            e.function_index, e.pc, e.stack_len, e.locals_len, e.locals_base, e.frames_len
        ));
    }
    s.push(')');
    s
}

fn compile_line(src: &str, modules: HashMap<Vec<String>, String>, merger: Option<&mut Merger>) -> String {
    let src = src.to_string();
    match qvh::guarded(move || qvh::compile_source(&src, modules)) {
        Err(loc) => format!("(panic \"{}\")", loc),
        Ok(Err(e)) => e.line(),
        Ok(Ok(c)) => {
            let full = c.program.to_bytecode(Some(c.entry));
            let shaken = qvh::guarded(|| c.program.to_bytecode_optimized(c.entry));
            let mut s = String::from("(compiled ");
            s.push_str(&dump_program("as-compiled", &full));
            match shaken {
                Ok(b) => {
                    s.push(' ');
                    s.push_str(&dump_program("tree-shaken", &b));
                }
                Err(loc) => s.push_str(&format!(" (panic \"{}\")", loc)),
            }
            if let Some(m) = merger {
                let before = m.count;
                let bc = c.program.to_bytecode_optimized(c.entry);
                match qvh::guarded(|| m.merge(bc)) {
                    Ok(Ok(b)) => {
                        s.push(' ');
                        s.push_str(&dump_program(&format!("merged-behind-{}", before), &b));
                    }
                    Ok(Err(e)) => s.push_str(&format!(" (merge-error {})", sexp::quote(&e))),
                    Err(loc) => s.push_str(&format!(" (panic \"{}\")", loc)),
                }
            }
            s.push(')');
            s
        }
    }
}

fn main() {
    qvh::quiet_panics();
    if std::env::args().any(|a| a == "--std") {
        for m in ["bin", "dict", "dns", "file", "fs", "int", "iter", "list", "num", "path", "range", "ref", "str", "vec"] {
            println!("{}", compile_line(&format!("%{}", m), HashMap::new(), None));
        }
        return;
    }
    let args: Vec<String> = std::env::args().collect();
    let merge_every: Option<usize> = args.iter().position(|a| a == "--merge").map(|i| args[i + 1].parse().unwrap());
    let mut merger = merge_every.map(|_| Merger::new());
    let trace_limit: Option<usize> = args.iter().position(|a| a == "--trace").map(|i| args[i + 1].parse().unwrap());
    for line in qvh::stdin_cases() {
        if let (Some(n), Some(m)) = (merge_every, merger.as_mut())
            && m.count >= n
        {
            *m = Merger::new();
        }
        let items = sexp::parse_all(&line);
        let src = items[0].atom().to_string();
        let mut modules = HashMap::new();
        for m in &items[1..] {
            if let Sexp::List(l) = m {
                let path: Vec<String> = l[1].atom().split('/').map(|s| s.to_string()).collect();
                modules.insert(path, l[2].atom().to_string());
            }
        }
        println!("{}", compile_line(&src, modules.clone(), merger.as_mut()));
        if let Some(limit) = trace_limit {
            let src2 = src.clone();
            match qvh::guarded(move || qvh::compile_source(&src2, modules)) {
                Ok(Ok(c)) => println!("{}", trace_line(c.program.to_bytecode(Some(c.entry)), limit)),
                _ => println!("(trace none)"),
            }
        }
    }
}
