//! qv_compile: compile Quiver sources with the real compiler and dump the emitted bytecode.
//! stdin: one case per line: `"<source>" (mod "a/b" "<source>")*`.
//! stdout per case, one line: `(compiled <variant>*)` | `(parse-error)` | `(compile-error K)` | `(panic ..)`
//! where each variant is `(prog <name> (entry e) (consts ..) (fns (fn caps type (ins ..))..)
//! (tuples arity..) (nbuiltins n) (ntypes n))` for name in: `as-compiled`, `tree-shaken`.
//! `--std`: instead of stdin, compile every bundled std module (via `%name` imports).
use qvh::sexp::{self, Sexp};
use quiver_core::bytecode::{Bytecode, Constant, Instruction};
use std::collections::HashMap;

pub fn dump_instr(i: &Instruction) -> String {
    match i {
        Instruction::Constant(k) => format!("(const {})", k),
        Instruction::Pop => "(pop)".into(),
        Instruction::Duplicate => "(dup)".into(),
        Instruction::Pick(n) => format!("(pick {})", n),
        Instruction::Rotate(n) => format!("(rot {})", n),
        Instruction::Reset(n) => format!("(reset {})", n),
        Instruction::Load(n) => format!("(load {})", n),
        Instruction::Store => "(store)".into(),
        Instruction::Tuple(t) => format!("(tuple {})", t),
        Instruction::Get(n) => format!("(get {})", n),
        Instruction::IsType(t) => format!("(istype {})", t),
        Instruction::Jump(o) => format!("(jmp {})", o),
        Instruction::JumpIf(o) => format!("(jmpif {})", o),
        Instruction::Call => "(call)".into(),
        Instruction::TailCall(r) => format!("(tailcall {})", if *r { 1 } else { 0 }),
        Instruction::Function(f) => format!("(fn {})", f),
        Instruction::Builtin(b) => format!("(builtin {})", b),
        Instruction::Equal(n) => format!("(equal {})", n),
        Instruction::Not => "(not)".into(),
        Instruction::Spawn => "(spawn)".into(),
        Instruction::Send => "(send)".into(),
        Instruction::Self_ => "(self)".into(),
        Instruction::Select => "(select)".into(),
        Instruction::Process(p, f) => format!("(process {} {})", p, f),
    }
}

pub fn dump_program(name: &str, bc: &Bytecode) -> String {
    let mut s = format!("(prog {} (entry {})", name, bc.entry.map(|e| e as i64).unwrap_or(-1));
    s.push_str(" (consts");
    for c in &bc.constants {
        match c {
            Constant::Integer(_) => s.push_str(" i"),
            Constant::Binary(_) => s.push_str(" b"),
        }
    }
    s.push_str(") (fns");
    for f in &bc.functions {
        s.push_str(&format!(" (fn {} {} (ins", f.captures, f.type_id));
        for i in &f.instructions {
            s.push(' ');
            s.push_str(&dump_instr(i));
        }
        s.push_str("))");
    }
    s.push_str(") (tuples");
    for t in &bc.tuples {
        s.push_str(&format!(" {}", t.fields.len()));
    }
    s.push_str(&format!(") (nbuiltins {}) (ntypes {}))", bc.builtins.len(), bc.types.len()));
    s
}

fn compile_line(src: &str, modules: HashMap<Vec<String>, String>) -> String {
    let src = src.to_string();
    match qvh::guarded(move || qvh::compile_source(&src, modules)) {
        Err(loc) => format!("(panic \"{}\")", loc),
        Ok(Err(e)) => e.line(),
        Ok(Ok(c)) => {
            let full = c.program.to_bytecode(Some(c.entry));
            let shaken = qvh::guarded(|| c.program.to_bytecode_optimized(c.entry));
            let mut s = String::from("(compiled ");
            s.push_str(&dump_program("as-compiled", &full));
            match shaken {
                Ok(b) => {
                    s.push(' ');
                    s.push_str(&dump_program("tree-shaken", &b));
                }
                Err(loc) => s.push_str(&format!(" (panic \"{}\")", loc)),
            }
            s.push(')');
            s
        }
    }
}

fn main() {
    qvh::quiet_panics();
    if std::env::args().any(|a| a == "--std") {
        for m in ["bin", "dict", "dns", "file", "fs", "int", "iter", "list", "num", "path", "range", "ref", "str", "vec"] {
            println!("{}", compile_line(&format!("%{}", m), HashMap::new()));
        }
        return;
    }
    for line in qvh::stdin_cases() {
        let items = sexp::parse_all(&line);
        let src = items[0].atom().to_string();
        let mut modules = HashMap::new();
        for m in &items[1..] {
            if let Sexp::List(l) = m {
                let path: Vec<String> = l[1].atom().split('/').map(|s| s.to_string()).collect();
                modules.insert(path, l[2].atom().to_string());
            }
        }
        println!("{}", compile_line(&src, modules));
    }
}
