//! Canonical text for values, commands, events and full state dumps (see SIM_FORMAT.md).
use crate::backend::effect_text;
use crate::transport::{E, LogItem};
use quiver_core::bytecode::Constant;
use quiver_core::error::Error;
use quiver_core::program::Program;
use quiver_core::types::TypeLookup;
use quiver_core::value::Value;
use quiver_environment::{Command, Event};
use qvh::{Bins, hex};
use std::collections::HashMap;

/// Renaming context for the *canonical* (schedule-independent) form of the summary line:
/// pids -> spawn-tree paths, refs / resource ids -> first-occurrence rank.
#[derive(Default)]
pub struct Canon {
    pub paths: HashMap<usize, String>,
    pub refs: HashMap<u64, usize>,
    pub rids: HashMap<usize, usize>,
}

impl Canon {
    pub fn pid(&self, pid: usize) -> String {
        self.paths
            .get(&pid)
            .cloned()
            .unwrap_or_else(|| format!("?{}", pid))
    }
    pub fn rid(&mut self, rid: usize) -> usize {
        let n = self.rids.len();
        *self.rids.entry(rid).or_insert(n)
    }
}

/// Dump a value. With `canon = None` this is exactly `qvh::dump_value`; with a renaming context
/// pids become `(p <path> <fid>)`, refs `(r #k)`, resources `(res #k <ty>)`.
pub fn dump_val(v: &Value, lookup: &Program, bins: &Bins, canon: &mut Option<&mut Canon>) -> String {
    if canon.is_none() {
        return qvh::dump_value(v, lookup, bins);
    }
    match v {
        Value::Integer(n) => format!("(i {})", n),
        Value::Binary(b) => match bins.bytes(b) {
            Some(bytes) => format!("(b {})", hex(&bytes)),
            None => "(b ?)".to_string(),
        },
        Value::Reference(r) => {
            let c = canon.as_mut().unwrap();
            let n = c.refs.len();
            let k = *c.refs.entry(*r).or_insert(n);
            format!("(r #{})", k)
        }
        Value::Tuple(tid, fields) => {
            let (name, labels) = match lookup.lookup_tuple(*tid) {
                Some(info) => (
                    info.name.clone().unwrap_or_else(|| "-".to_string()),
                    info.fields
                        .iter()
                        .map(|(l, _)| l.clone().unwrap_or_else(|| "-".to_string()))
                        .collect::<Vec<_>>(),
                ),
                None => (format!("?{}", tid), vec![]),
            };
            let mut s = format!("(t {} ({})", name, labels.join(" "));
            for f in fields.iter() {
                s.push(' ');
                s.push_str(&dump_val(f, lookup, bins, canon));
            }
            s.push(')');
            s
        }
        Value::Function(fid, caps) => {
            let mut s = format!("(f {}", fid);
            for c in caps.iter() {
                s.push(' ');
                s.push_str(&dump_val(c, lookup, bins, canon));
            }
            s.push(')');
            s
        }
        Value::Builtin(id) => format!("(bi {})", id),
        Value::Process(pid, fid) => format!("(p {} {})", canon.as_ref().unwrap().pid(*pid), fid),
        Value::Resource(rid, ty) => {
            let k = canon.as_mut().unwrap().rid(*rid);
            format!("(res #{} {})", k, ty)
        }
    }
}

/// Replace digit runs by `#` so that messages embedding pids/indices compare equal.
pub fn sanitize(msg: &str) -> String {
    let mut out = String::new();
    let mut in_digits = false;
    for ch in msg.chars() {
        if ch.is_ascii_digit() {
            if !in_digits {
                out.push('#');
            }
            in_digits = true;
        } else {
            in_digits = false;
            out.push(ch);
        }
    }
    out
}

/// `(err <Class> "<sanitized debug text>")`
pub fn err_text(e: &Error) -> String {
    format!(
        "(err {} {})",
        qvh::error_class(e),
        qvh::sexp::quote(&sanitize(&format!("{:?}", e)))
    )
}

pub struct Fmt<'a> {
    pub program: &'a Program,
    pub consts: &'a [Constant],
}

impl Fmt<'_> {
    fn xval(&self, v: &Value, heap: &[Vec<u8>]) -> String {
        let bins = Bins::Extracted(heap, self.consts);
        qvh::dump_value(v, self.program, &bins)
    }

    fn results(&self, results: &quiver_environment_results::Map) -> String {
        let mut items: Vec<(usize, String)> = results
            .iter()
            .map(|(t, r)| {
                let s = match r {
                    None => "-".to_string(),
                    Some(Ok((v, heap))) => format!("(ok {})", self.xval(v, heap)),
                    Some(Err(e)) => err_text(e),
                };
                (*t, s)
            })
            .collect();
        items.sort();
        items
            .iter()
            .map(|(t, s)| format!("({} {})", t, s))
            .collect::<Vec<_>>()
            .join(" ")
    }

    pub fn command(&self, c: &Command<E>) -> String {
        match c {
            Command::WatchProcess { process_id } => format!("(WatchProcess {})", process_id),
            Command::UpdateProgram(u) => format!(
                "(UpdateProgram (consts {}) (fns {}) (tuples {}) (types {}) (builtins {}))",
                u.constants.len(),
                u.functions.len(),
                u.tuples.len(),
                u.types.len(),
                u.builtins.len()
            ),
            Command::StartProcess { id, function_index } => format!(
                "(StartProcess {} {})",
                id,
                function_index.map(|f| f.to_string()).unwrap_or("-".to_string())
            ),
            Command::SpawnProcess {
                id,
                function_index,
                captures,
                argument,
                heap_data,
            } => format!(
                "(SpawnProcess {} {} (caps{}) (arg {}))",
                id,
                function_index,
                captures
                    .iter()
                    .map(|v| format!(" {}", self.xval(v, heap_data)))
                    .collect::<String>(),
                self.xval(argument, heap_data)
            ),
            Command::ResumeProcess { id, function_index } => {
                format!("(ResumeProcess {} {})", id, function_index)
            }
            Command::QueryAndAwait { awaiter, targets } => format!(
                "(QueryAndAwait {} ({}))",
                awaiter,
                targets.iter().map(|t| t.to_string()).collect::<Vec<_>>().join(" ")
            ),
            Command::UpdateAwaitResults { awaiter, results } => {
                format!("(UpdateAwaitResults {} ({}))", awaiter, self.results(results))
            }
            Command::DeliverMessage { target, message, heap } => {
                format!("(DeliverMessage {} {})", target, self.xval(message, heap))
            }
            Command::NotifySpawn {
                process_id,
                spawned_pid,
                function_index,
            } => format!("(NotifySpawn {} {} {})", process_id, spawned_pid, function_index),
            Command::GetResult {
                request_id,
                process_id,
                keep_locals,
            } => format!(
                "(GetResult {} {} {})",
                request_id,
                process_id,
                match keep_locals {
                    None => "-".to_string(),
                    Some(k) => format!(
                        "(keep{})",
                        k.iter().map(|i| format!(" {}", i)).collect::<String>()
                    ),
                }
            ),
            Command::CompactLocals {
                process_id,
                keep_indices,
            } => format!(
                "(CompactLocals {} ({}))",
                process_id,
                keep_indices.iter().map(|i| i.to_string()).collect::<Vec<_>>().join(" ")
            ),
            Command::EffectCompletion { process_id, result, heap } => format!(
                "(EffectCompletion {} {})",
                process_id,
                match result {
                    Ok(v) => format!("(ok {})", self.xval(v, heap)),
                    Err(m) => format!("(err {})", qvh::sexp::quote(&sanitize(m))),
                }
            ),
            Command::GetStatuses { request_id } => format!("(GetStatuses {})", request_id),
            Command::GetWorkerInfo { request_id } => format!("(GetWorkerInfo {})", request_id),
            Command::GetProcessTypes { request_id } => format!("(GetProcessTypes {})", request_id),
            Command::GetProcessInfo { request_id, process_id } => {
                format!("(GetProcessInfo {} {})", request_id, process_id)
            }
            Command::GetLocals {
                request_id,
                process_id,
                indices,
            } => format!(
                "(GetLocals {} {} ({}))",
                request_id,
                process_id,
                indices.iter().map(|i| i.to_string()).collect::<Vec<_>>().join(" ")
            ),
            Command::GetExecutionStats { request_id } => format!("(GetExecutionStats {})", request_id),
            Command::Subscribe { subscription_id, .. } => format!("(Subscribe {})", subscription_id),
            Command::Unsubscribe { subscription_id } => format!("(Unsubscribe {})", subscription_id),
            Command::_Phantom(_) => "(Phantom)".to_string(),
        }
    }

    pub fn event(&self, e: &Event<E>) -> String {
        match e {
            Event::ProcessTerminated { process_id } => format!("(ProcessTerminated {})", process_id),
            Event::SpawnAction {
                caller,
                function_index,
                captures,
                argument,
                heap,
            } => format!(
                "(SpawnAction {} {} (caps{}) (arg {}))",
                caller,
                function_index,
                captures
                    .iter()
                    .map(|v| format!(" {}", self.xval(v, heap)))
                    .collect::<String>(),
                self.xval(argument, heap)
            ),
            Event::DeliverAction { target, message, heap, .. } => {
                format!("(DeliverAction {} {})", target, self.xval(message, heap))
            }
            Event::AwaitAction { awaiter, targets } => format!(
                "(AwaitAction {} ({}))",
                awaiter,
                targets.iter().map(|t| t.to_string()).collect::<Vec<_>>().join(" ")
            ),
            Event::ProcessResults { awaiter, results } => {
                format!("(ProcessResults {} ({}))", awaiter, self.results(results))
            }
            Event::ResultResponse { request_id, result, .. } => format!(
                "(ResultResponse {} {})",
                request_id,
                match result {
                    Ok((v, heap)) => format!("(ok {})", self.xval(v, heap)),
                    Err(e) => err_text(e),
                }
            ),
            Event::EffectRequest { process_id, effect } => {
                format!("(EffectRequest {} {})", process_id, effect_text(effect))
            }
            Event::ProcessTypesResponse { request_id, result } => format!(
                "(ProcessTypesResponse {} ({}))",
                request_id,
                match result {
                    Ok(m) => {
                        let mut v: Vec<(usize, usize)> = m.iter().map(|(p, f)| (*p, *f)).collect();
                        v.sort();
                        v.iter().map(|(p, f)| format!("({} {})", p, f)).collect::<Vec<_>>().join(" ")
                    }
                    Err(_) => "err".to_string(),
                }
            ),
            Event::StatusesResponse { request_id, .. } => format!("(StatusesResponse {})", request_id),
            Event::WorkerInfoResponse { request_id, .. } => format!("(WorkerInfoResponse {})", request_id),
            Event::InfoResponse { request_id, .. } => format!("(InfoResponse {})", request_id),
            Event::LocalsResponse { request_id, .. } => format!("(LocalsResponse {})", request_id),
            Event::StatsResponse { request_id, .. } => format!("(StatsResponse {})", request_id),
            Event::SubscriptionUpdate { subscription_id, .. } => {
                format!("(SubscriptionUpdate {})", subscription_id)
            }
            Event::WorkerError { error } => {
                format!("(WorkerError {})", qvh::sexp::quote(&sanitize(&format!("{}", error))))
            }
            Event::_Phantom(_) => "(Phantom)".to_string(),
        }
    }

    pub fn log_item(&self, item: &LogItem) -> String {
        match item {
            LogItem::CmdSent(w, c) => format!("(send-cmd {} {})", w, self.command(c)),
            LogItem::CmdRecv(w, c) => format!("(recv-cmd {} {})", w, self.command(c)),
            LogItem::EvtSent(w, e) => format!("(send-evt {} {})", w, self.event(e)),
            LogItem::EvtRecv(w, e) => format!("(recv-evt {} {})", w, self.event(e)),
            LogItem::Execute(pid, eff, out) => format!("(execute {} {} {})", pid, effect_text(eff), out),
            LogItem::Close(rid, was_open) => format!("(close-resource {} {})", rid, was_open),
            LogItem::Completion(pid, out) => format!("(completion {} {})", pid, out),
        }
    }
}

/// Local alias module so the signature above stays readable.
pub mod quiver_environment_results {
    use quiver_core::error::Error;
    use quiver_core::value::Value;
    use std::collections::HashMap;
    pub type Map = HashMap<usize, Option<Result<(Value, Vec<Vec<u8>>), Error>>>;
}

