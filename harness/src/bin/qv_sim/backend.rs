//! Test effect builtins (`__test_open__`, `__test_use__`, `__test_read__`, `__test_close__`) over
//! `qvh::TestEffect`, and the instrumented `EffectBackend` that logs every call.
//!
//! Quiver-level signatures (resource type `\TestRes`):
//!   __test_open__  : 'int              -> \TestRes     effect Open(n)
//!   __test_use__   : [\TestRes, 'int]  -> 'int         effect Op(rid, n)            (n < 1_000_000)
//!   __test_read__  : [\TestRes, 'int]  -> 'bin         effect Op(rid, 1_000_000+n)  (n bytes, heap transfer)
//!   __test_close__ : \TestRes          -> Ok           effect Op(rid, CLOSE)
//! Backend behaviour (deterministic):
//!   Open(13)            -> EffectError::PermissionDenied          (effect error at creation)
//!   Open(n)             -> fresh resource id (1, 2, ...) of type TestRes
//!   Op(r, _) r not open -> EffectError::NotFound
//!   Op(r, 666)          -> EffectError::IO("injected failure")    (effect error on an open resource)
//!   Op(r, 667)          -> Err(Error::InvalidArgument) from `execute` itself (submission failure)
//!   Op(r, CLOSE)        -> closes r, returns Ok
//!   Op(r, 1_000_000+n)  -> a heap binary of n bytes (byte i = (i*7+n) mod 256)
//!   Op(r, n)            -> integer n+1
//! In `async` mode every completion is deferred to the next `process_completions()` (i.e. the next
//! Environment::step) instead of being returned from `execute`.
use crate::transport::{E, LogItem, SharedRef};
use num_bigint::BigInt;
use num_traits::ToPrimitive;
use quiver_core::builtins::{BuiltinRegistry, BuiltinResult, TypeSpec};
use quiver_core::effects::{EffectBackend, EffectError, EffectResult, ResultTupleInfo};
use quiver_core::error::Error;
use quiver_core::executor::Executor;
use quiver_core::process::{Action, ProcessId};
use quiver_core::value::{Binary, ResourceId, Value};
use qvh::TestEffect;
use std::cell::RefCell;
use std::collections::{BTreeSet, VecDeque};
use std::rc::Rc;

pub const CLOSE: u64 = 999;
pub const READ_BASE: u64 = 1_000_000;

fn int_arg(v: &Value) -> Result<u64, Error> {
    match v {
        Value::Integer(n) => n
            .to_u64()
            .ok_or_else(|| Error::InvalidArgument(format!("test effect argument {n} out of range"))),
        other => Err(Error::TypeMismatch {
            expected: "integer".to_string(),
            found: other.type_name().to_string(),
        }),
    }
}

fn res_int(v: &Value) -> Result<(ResourceId, u64), Error> {
    let Value::Tuple(_, fields) = v else {
        return Err(Error::TypeMismatch {
            expected: "tuple".to_string(),
            found: v.type_name().to_string(),
        });
    };
    if fields.len() != 2 {
        return Err(Error::ArityMismatch {
            expected: 2,
            found: fields.len(),
        });
    }
    let rid = match &fields[0] {
        Value::Resource(id, _) => *id,
        other => {
            return Err(Error::TypeMismatch {
                expected: "resource".to_string(),
                found: other.type_name().to_string(),
            });
        }
    };
    Ok((rid, int_arg(&fields[1])?))
}

fn builtin_test_open(
    process_id: ProcessId,
    value: &Value,
    _ex: &mut Executor<E>,
) -> Result<BuiltinResult<E>, Error> {
    let n = int_arg(value)?;
    Ok(BuiltinResult::Action(Action::RequestEffect {
        process_id,
        effect: TestEffect::Open(n),
    }))
}

fn builtin_test_use(
    process_id: ProcessId,
    value: &Value,
    _ex: &mut Executor<E>,
) -> Result<BuiltinResult<E>, Error> {
    let (rid, n) = res_int(value)?;
    if n >= READ_BASE {
        return Err(Error::InvalidArgument("test_use argument too large".to_string()));
    }
    Ok(BuiltinResult::Action(Action::RequestEffect {
        process_id,
        effect: TestEffect::Op(rid, n),
    }))
}

fn builtin_test_read(
    process_id: ProcessId,
    value: &Value,
    _ex: &mut Executor<E>,
) -> Result<BuiltinResult<E>, Error> {
    let (rid, n) = res_int(value)?;
    if n > 4096 {
        return Err(Error::InvalidArgument("test_read length too large".to_string()));
    }
    Ok(BuiltinResult::Action(Action::RequestEffect {
        process_id,
        effect: TestEffect::Op(rid, READ_BASE + n),
    }))
}

fn builtin_test_close(
    process_id: ProcessId,
    value: &Value,
    _ex: &mut Executor<E>,
) -> Result<BuiltinResult<E>, Error> {
    let rid = match value {
        Value::Resource(id, _) => *id,
        other => {
            return Err(Error::TypeMismatch {
                expected: "resource".to_string(),
                found: other.type_name().to_string(),
            });
        }
    };
    Ok(BuiltinResult::Action(Action::RequestEffect {
        process_id,
        effect: TestEffect::Op(rid, CLOSE),
    }))
}

/// The registry the simulator uses everywhere (compiler, REPL, workers): core builtins + test effects.
pub fn sim_registry() -> BuiltinRegistry<E> {
    let mut r = qvh::registry();
    let res = TypeSpec::Resource("TestRes".to_string());
    let res_int = TypeSpec::Tuple(None, vec![(None, res.clone()), (None, TypeSpec::Integer)]);
    r.register(
        "test_open".to_string(),
        builtin_test_open,
        TypeSpec::Integer,
        res.clone(),
    );
    r.register(
        "test_use".to_string(),
        builtin_test_use,
        res_int.clone(),
        TypeSpec::Integer,
    );
    r.register(
        "test_read".to_string(),
        builtin_test_read,
        res_int,
        TypeSpec::Binary,
    );
    r.register(
        "test_close".to_string(),
        builtin_test_close,
        res,
        TypeSpec::Tuple(Some("Ok"), vec![]),
    );
    r
}

pub struct BackendState {
    pub next_rid: ResourceId,
    pub open: BTreeSet<ResourceId>,
    pub async_mode: bool,
    pub pending: VecDeque<(ProcessId, EffectResult)>,
    pub res_type_id: usize,
}

pub type BackendRef = Rc<RefCell<BackendState>>;

pub fn new_backend_state(async_mode: bool) -> BackendRef {
    Rc::new(RefCell::new(BackendState {
        next_rid: 1,
        open: BTreeSet::new(),
        async_mode,
        pending: VecDeque::new(),
        res_type_id: 0,
    }))
}

pub struct SimBackend {
    pub state: BackendRef,
    pub shared: SharedRef,
}

// SAFETY: single-threaded simulator; see SimHandle.
unsafe impl Send for SimBackend {}

pub fn effect_text(e: &TestEffect) -> String {
    match e {
        TestEffect::Open(n) => format!("(Open {})", n),
        TestEffect::Op(r, n) if *n == CLOSE => format!("(Close {})", r),
        TestEffect::Op(r, n) if *n >= READ_BASE => format!("(Read {} {})", r, n - READ_BASE),
        TestEffect::Op(r, n) => format!("(Use {} {})", r, n),
    }
}

pub fn effect_error_class(e: &EffectError) -> &'static str {
    match e {
        EffectError::NotFound(_) => "NotFound",
        EffectError::PermissionDenied(_) => "PermissionDenied",
        EffectError::AlreadyExists(_) => "AlreadyExists",
        EffectError::ConnectionRefused(_) => "ConnectionRefused",
        EffectError::WouldBlock => "WouldBlock",
        EffectError::Interrupted => "Interrupted",
        EffectError::InvalidArgument(_) => "InvalidArgument",
        EffectError::IO(_) => "IO",
        EffectError::Other(_) => "Other",
    }
}

fn result_text(r: &EffectResult) -> String {
    match r {
        Ok((Value::Resource(rid, _), _)) => format!("(ok (res {}))", rid),
        Ok((Value::Integer(n), _)) => format!("(ok (i {}))", n),
        Ok((Value::Binary(_), heap)) => format!(
            "(ok (b {}))",
            heap.first().map(|b| qvh::hex(b)).unwrap_or_default()
        ),
        Ok((v, _)) if v.is_ok() => "(ok Ok)".to_string(),
        Ok(_) => "(ok ?)".to_string(),
        Err(e) => format!("(err {})", effect_error_class(e)),
    }
}

impl SimBackend {
    fn compute(&mut self, effect: &TestEffect) -> Result<EffectResult, Error> {
        let mut st = self.state.borrow_mut();
        Ok(match effect {
            TestEffect::Open(13) => Err(EffectError::PermissionDenied("injected open failure".to_string())),
            TestEffect::Open(_) => {
                let rid = st.next_rid;
                st.next_rid += 1;
                st.open.insert(rid);
                Ok((Value::Resource(rid, st.res_type_id), vec![]))
            }
            TestEffect::Op(r, n) => {
                if !st.open.contains(r) {
                    Err(EffectError::NotFound(format!("resource {} is not open", r)))
                } else if *n == 666 {
                    Err(EffectError::IO("injected failure".to_string()))
                } else if *n == 667 {
                    return Err(Error::InvalidArgument("injected submission failure".to_string()));
                } else if *n == CLOSE {
                    st.open.remove(r);
                    Ok((Value::ok(), vec![]))
                } else if *n >= READ_BASE {
                    let len = (*n - READ_BASE) as usize;
                    let bytes: Vec<u8> = (0..len).map(|i| ((i * 7 + len) % 256) as u8).collect();
                    Ok((Value::Binary(Binary::Heap(0)), vec![bytes]))
                } else {
                    Ok((Value::Integer(BigInt::from(*n + 1)), vec![]))
                }
            }
        })
    }
}

impl EffectBackend for SimBackend {
    type E = E;

    fn execute(&mut self, process_id: ProcessId, effect: E) -> Result<Option<EffectResult>, Error> {
        let computed = self.compute(&effect);
        let text = match &computed {
            Ok(r) => result_text(r),
            Err(_) => "(submit-error)".to_string(),
        };
        self.shared
            .borrow_mut()
            .log
            .push(LogItem::Execute(process_id, effect, text));
        let result = computed?;
        let async_mode = self.state.borrow().async_mode;
        if async_mode {
            self.state.borrow_mut().pending.push_back((process_id, result));
            Ok(None)
        } else {
            Ok(Some(result))
        }
    }

    fn process_completions(&mut self) -> Vec<(ProcessId, EffectResult)> {
        let done: Vec<(ProcessId, EffectResult)> = self.state.borrow_mut().pending.drain(..).collect();
        let mut s = self.shared.borrow_mut();
        for (pid, r) in &done {
            s.log.push(LogItem::Completion(*pid, result_text(r)));
        }
        done
    }

    fn close_resource(&mut self, resource_id: ResourceId) {
        let was_open = self.state.borrow_mut().open.remove(&resource_id);
        self.shared
            .borrow_mut()
            .log
            .push(LogItem::Close(resource_id, was_open));
    }

    fn set_type_ids(&mut self, resources: &[String], _results: &[(String, ResultTupleInfo)]) {
        if let Some(i) = resources.iter().position(|n| n == "TestRes") {
            self.state.borrow_mut().res_type_id = i;
        }
    }
}
