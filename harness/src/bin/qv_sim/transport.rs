//! In-memory transports for the single-threaded simulator: one command queue and one event queue
//! per worker, with optional *visibility limits* (the receiver exposes only the first k queued
//! items during the current step), plus the global protocol log. Everything the Environment and
//! the Workers exchange passes through these wrappers, so the log is complete without any hook.
use quiver_environment::{Command, CommandReceiver, EnvironmentError, Event, EventSender, WorkerHandle};
use std::cell::RefCell;
use std::collections::VecDeque;
use std::rc::Rc;

pub type E = qvh::TestEffect;

/// One entry of the global protocol log, in the order things happened.
#[derive(Clone)]
pub enum LogItem {
    /// environment appended a command to worker i's queue
    CmdSent(usize, Command<E>),
    /// worker i took a command from its queue
    CmdRecv(usize, Command<E>),
    /// worker i appended an event to its event queue
    EvtSent(usize, Event<E>),
    /// environment took an event of worker i
    EvtRecv(usize, Event<E>),
    /// backend.execute(pid, effect) -> outcome text (already formatted)
    Execute(usize, E, String),
    /// backend.close_resource(rid); bool = the resource was open
    Close(usize, bool),
    /// backend.process_completions() delivered a deferred completion for pid
    Completion(usize, String),
}

pub struct Shared {
    pub cmds: Vec<VecDeque<Command<E>>>,
    pub evts: Vec<VecDeque<Event<E>>>,
    /// remaining number of commands worker i may still take in the current step (None = all)
    pub cmd_limit: Vec<Option<usize>>,
    /// remaining number of events the environment may still take from worker i (None = all)
    pub evt_limit: Vec<Option<usize>>,
    pub log: Vec<LogItem>,
}

impl Shared {
    pub fn new(n: usize) -> Self {
        Shared {
            cmds: (0..n).map(|_| VecDeque::new()).collect(),
            evts: (0..n).map(|_| VecDeque::new()).collect(),
            cmd_limit: vec![None; n],
            evt_limit: vec![None; n],
            log: Vec::new(),
        }
    }
}

pub type SharedRef = Rc<RefCell<Shared>>;

pub struct SimReceiver {
    pub shared: SharedRef,
    pub id: usize,
}

impl CommandReceiver<E> for SimReceiver {
    fn try_recv(&mut self) -> Result<Option<Command<E>>, EnvironmentError> {
        let mut s = self.shared.borrow_mut();
        if let Some(k) = s.cmd_limit[self.id] {
            if k == 0 {
                return Ok(None);
            }
            s.cmd_limit[self.id] = Some(k - 1);
        }
        match s.cmds[self.id].pop_front() {
            Some(c) => {
                s.log.push(LogItem::CmdRecv(self.id, c.clone()));
                Ok(Some(c))
            }
            None => Ok(None),
        }
    }
}

pub struct SimSender {
    pub shared: SharedRef,
    pub id: usize,
}

impl EventSender<E> for SimSender {
    fn send(&mut self, event: Event<E>) -> Result<(), EnvironmentError> {
        let mut s = self.shared.borrow_mut();
        s.log.push(LogItem::EvtSent(self.id, event.clone()));
        s.evts[self.id].push_back(event);
        Ok(())
    }
}

pub struct SimHandle {
    pub shared: SharedRef,
    pub id: usize,
}

// SAFETY: the simulator is strictly single-threaded; `Send` is only demanded by the trait bound of
// `WorkerHandle` (the real handles are moved to the environment thread). Nothing here ever crosses
// a thread boundary.
unsafe impl Send for SimHandle {}

impl WorkerHandle<E> for SimHandle {
    fn send(&mut self, command: Command<E>) -> Result<(), EnvironmentError> {
        let mut s = self.shared.borrow_mut();
        s.log.push(LogItem::CmdSent(self.id, command.clone()));
        s.cmds[self.id].push_back(command);
        Ok(())
    }

    fn try_recv(&mut self) -> Result<Option<Event<E>>, EnvironmentError> {
        let mut s = self.shared.borrow_mut();
        if let Some(k) = s.evt_limit[self.id] {
            if k == 0 {
                return Ok(None);
            }
            s.evt_limit[self.id] = Some(k - 1);
        }
        match s.evts[self.id].pop_front() {
            Some(e) => {
                s.log.push(LogItem::EvtRecv(self.id, e.clone()));
                Ok(Some(e))
            }
            None => Ok(None),
        }
    }
}
