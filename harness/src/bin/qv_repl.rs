//! qv_repl: drive the real `Repl::evaluate` line by line (C11).
//!
//! A real `Environment` with W real `Worker`s over in-memory queues, stepped round-robin on this
//! thread (the runner of qv_equal `--run`), a real `Repl` on top of it; process types are fetched
//! before every line exactly as quiver-tests/tests/common.rs does.
//!
//! stdin, one case per line:
//!   (hist W (mods (mod "a/b" "<src>")..) "<line 1>" "<line 2>" ..)
//!     -> (session L1 L2 ..)   with, per line,
//!        L = (line <outcome> (binds (x i)..) (aliases a..) (types (x "ty")..) (vars (x <val>)..) (locals <val>..)
//!                  (last <val>|-) (lrtnil true|false) (rc ok|"msg") (stack n) (quiet true|false))
//!        outcome = (ok <val>) | (none) | (err Class) | (parse-error) | (compile-error Kind)
//!                | (env-error ..) | (timeout) | (panic "file:line")
//!        binds-raw = Repl's binding map right after the line (hook `Repl::verif_bindings`), variables only
//!        binds   = the same after one `request_variable` of an unbound name (which makes the REPL forget
//!                  the variables the line bound but never stored); everything below is dumped after it
//!        types   = `get_variables()`: (x "<formatted static type>") in index order
//!        vars    = `get_variables()` order, each value fetched with `request_variable`
//!        locals  = the REPL process's whole locals vector read through `Worker::verif_executor`
//!        last    = the process's stored result (what the next `resume` pushes)
//!        rc      = `Executor::check_refcounts()` of every worker
//!   (one W (mods ..) "<program>")
//!     -> (ok <val>) | (err Class) | (parse-error) | (compile-error Kind) | (timeout) | (panic ..)
//!        the program compiled stand-alone and run as an ordinary process on the same runner.
//!
//! Values are dumped erased: tuple ids as name + labels, binaries by content, function ids and
//! process ids dropped (`(f _ caps..)`, `(p _)`): they are table positions, not values.
use quiver_compiler::PackageResolver;
use quiver_core::bytecode::Constant;
use quiver_core::process::ProcessId;
use quiver_core::types::{Type, TypeLookup};
use quiver_core::value::Value;
use quiver_environment::{
    Command, CommandReceiver, Environment, EnvironmentError, Event, EventSender, Repl, ReplError,
    RequestResult, Worker, WorkerHandle,
};
use qvh::sexp::{self, Sexp};
use qvh::{Bins, TestEffect, error_class, guarded, hex};
use std::collections::{HashMap, VecDeque};
use std::sync::{Arc, Mutex};

type Q<T> = Arc<Mutex<VecDeque<T>>>;
struct Rx(Q<Command<TestEffect>>);
struct Tx(Q<Event<TestEffect>>);
struct Handle {
    cmd: Q<Command<TestEffect>>,
    evt: Q<Event<TestEffect>>,
}
impl CommandReceiver<TestEffect> for Rx {
    fn try_recv(&mut self) -> Result<Option<Command<TestEffect>>, EnvironmentError> {
        Ok(self.0.lock().unwrap().pop_front())
    }
}
impl EventSender<TestEffect> for Tx {
    fn send(&mut self, event: Event<TestEffect>) -> Result<(), EnvironmentError> {
        self.0.lock().unwrap().push_back(event);
        Ok(())
    }
}
impl WorkerHandle<TestEffect> for Handle {
    fn send(&mut self, command: Command<TestEffect>) -> Result<(), EnvironmentError> {
        self.cmd.lock().unwrap().push_back(command);
        Ok(())
    }
    fn try_recv(&mut self) -> Result<Option<Event<TestEffect>>, EnvironmentError> {
        Ok(self.evt.lock().unwrap().pop_front())
    }
}

type W = Worker<TestEffect, Rx, Tx>;

struct Sim {
    workers: Vec<W>,
    env: Environment<TestEffect>,
    now: u64,
}

impl Sim {
    fn new(nworkers: usize) -> Sim {
        let registry = qvh::registry();
        let mut workers = Vec::new();
        let mut handles: Vec<Box<dyn WorkerHandle<TestEffect>>> = Vec::new();
        for i in 0..nworkers {
            let cmd: Q<Command<TestEffect>> = Arc::new(Mutex::new(VecDeque::new()));
            let evt: Q<Event<TestEffect>> = Arc::new(Mutex::new(VecDeque::new()));
            workers.push(Worker::new(Rx(cmd.clone()), Tx(evt.clone()), registry.clone(), false, i as u16));
            handles.push(Box::new(Handle { cmd, evt }));
        }
        Sim { workers, env: Environment::<TestEffect>::new(handles), now: 0 }
    }

    /// One round: every worker steps once, then the environment. Err = a step failed.
    fn round(&mut self) -> Result<bool, String> {
        let mut did = false;
        for w in self.workers.iter_mut() {
            did |= w.step(self.now).map_err(|e| format!("{:?}", e))?;
        }
        did |= self.env.step().map_err(|e| format!("{:?}", e))?;
        if !did {
            self.now += 1;
        }
        Ok(did)
    }

    /// Run rounds until `req` is answered.
    fn wait(&mut self, req: u64, budget: usize) -> Result<Option<RequestResult>, String> {
        for _ in 0..budget {
            self.round()?;
            match self.env.poll_request(req) {
                Ok(Some(r)) => return Ok(Some(r)),
                Ok(None) => {}
                Err(e) => return Err(format!("{:?}", e)),
            }
        }
        Ok(None)
    }

    /// Run rounds until nothing moves (queued commands such as CompactLocals are consumed).
    fn settle(&mut self) -> bool {
        for _ in 0..64 {
            match self.round() {
                Ok(false) => return true,
                Ok(true) => {}
                Err(_) => return false,
            }
        }
        false
    }
}

fn clean(s: String) -> String {
    s.replace(['\n', '"'], " ")
}

/// Erased dump (see the header): like `qvh::dump_value` with function/process ids dropped.
fn dump(v: &Value, lookup: &impl TypeLookup, bins: &Bins) -> String {
    match v {
        Value::Integer(n) => format!("(i {})", n),
        Value::Binary(b) => match bins.bytes(b) {
            Some(bytes) => format!("(b {})", hex(&bytes)),
            None => "(b ?)".to_string(),
        },
        Value::Reference(r) => format!("(r {})", r),
        Value::Tuple(tid, fields) => {
            let (name, labels) = match lookup.lookup_tuple(*tid) {
                Some(info) => (
                    info.name.clone().unwrap_or_else(|| "-".to_string()),
                    info.fields
                        .iter()
                        .map(|(l, _)| l.clone().unwrap_or_else(|| "-".to_string()))
                        .collect::<Vec<_>>(),
                ),
                None => (format!("?{}", tid), vec![]),
            };
            let mut s = format!("(t {} ({})", name, labels.join(" "));
            for f in fields.iter() {
                s.push(' ');
                s.push_str(&dump(f, lookup, bins));
            }
            s.push(')');
            s
        }
        Value::Function(_, caps) => {
            let mut s = "(f _".to_string();
            for c in caps.iter() {
                s.push(' ');
                s.push_str(&dump(c, lookup, bins));
            }
            s.push(')');
            s
        }
        Value::Builtin(id) => format!("(bi {})", id),
        Value::Process(_, _) => "(p _)".to_string(),
        Value::Resource(rid, ty) => format!("(res {} {})", rid, ty),
    }
}

fn dump_extracted(sim: &Sim, value: &Value, heap: &[Vec<u8>]) -> String {
    let program = sim.env.get_program();
    let consts: Vec<Constant> = program.get_constants().to_vec();
    dump(value, program, &Bins::Extracted(heap, &consts))
}

fn modules_of(s: &Sexp) -> HashMap<Vec<String>, String> {
    let mut modules = HashMap::new();
    for m in s.args() {
        let l = m.list();
        let path: Vec<String> = l[1].atom().split('/').map(|s| s.to_string()).collect();
        modules.insert(path, l[2].atom().to_string());
    }
    modules
}

fn compile_error_kind(e: &quiver_compiler::compiler::Error) -> String {
    let s = format!("{:?}", e);
    s.split(['(', ' ', '{']).next().unwrap_or("").to_string()
}

/// The state of the session as the user and the verifier can observe it, after a line.
fn dump_state(sim: &mut Sim, repl: &mut Repl<TestEffect>, pid: ProcessId, out: &mut String) {
    let quiet = sim.settle();
    // the binding map as the compiler returned it and `evaluate` committed it (hook) ...
    out.push_str(" (binds-raw");
    for (name, idx) in repl.verif_bindings().iter() {
        if let Some(i) = idx {
            out.push_str(&format!(" ({} {})", name, i));
        }
    }
    out.push(')');
    // ... and after the REPL has looked a variable up once: `request_variable` (like `compact`)
    // first forgets the variables beyond the locals count reported with the line's result
    let _ = repl.request_variable(&mut sim.env, "__no_such_variable__");
    let binds = repl.verif_bindings();
    out.push_str(" (binds");
    for (name, idx) in binds.iter() {
        if let Some(i) = idx {
            out.push_str(&format!(" ({} {})", name, i));
        }
    }
    out.push_str(") (aliases");
    for (name, idx) in binds.iter() {
        if idx.is_none() {
            out.push_str(&format!(" {}", name));
        }
    }
    out.push(')');
    // variables through the public accessors
    out.push_str(" (types");
    for (name, ty) in repl.get_variables() {
        out.push_str(&format!(" ({} \"{}\")", name, ty.replace('\\', "\\\\").replace('"', "\\\"").replace('\n', " ")));
    }
    out.push(')');
    out.push_str(" (vars");
    let names: Vec<String> = repl.get_variables().into_iter().map(|(n, _)| n).collect();
    for name in names {
        let v = match repl.request_variable(&mut sim.env, &name) {
            Err(e) => format!("(env-error {})", clean(format!("{:?}", e))),
            Ok(req) => match sim.wait(req, 2000) {
                Ok(Some(RequestResult::Locals(vals))) if vals.len() == 1 => {
                    dump_extracted(sim, &vals[0].0, &vals[0].1)
                }
                Ok(Some(_)) => "(unexpected)".to_string(),
                Ok(None) => "(timeout)".to_string(),
                Err(e) => format!("(env-error {})", clean(e)),
            },
        };
        out.push_str(&format!(" ({} {})", name, v));
    }
    out.push(')');
    // raw locals / stored result / stack of the process, refcount oracle on every worker
    let program = sim.env.get_program();
    let consts: Vec<Constant> = program.get_constants().to_vec();
    let mut rc = "ok".to_string();
    let mut found = false;
    for w in sim.workers.iter() {
        let ex = w.verif_executor();
        if let Err(e) = ex.check_refcounts() {
            rc = format!("\"{}\"", clean(e));
        }
        if let Some(p) = ex.get_process(pid) {
            found = true;
            let bins = Bins::Exec(ex, &consts);
            out.push_str(" (locals");
            for v in p.locals.iter() {
                out.push(' ');
                out.push_str(&dump(v, program, &bins));
            }
            out.push_str(") (last ");
            match &p.result {
                Some(Ok(v)) => out.push_str(&dump(v, program, &bins)),
                Some(Err(e)) => out.push_str(&format!("(err {})", error_class(e))),
                None => out.push('-'),
            }
            out.push_str(&format!(") (stack {})", p.stack.len()));
        }
    }
    if !found {
        out.push_str(" (locals) (last -) (stack 0)");
    }
    out.push_str(&format!(
        " (lrtnil {}) (rc {}) (quiet {})",
        *repl.get_last_result_type() == Type::nil(),
        rc,
        quiet
    ));
}

fn run_history(nworkers: usize, modules: HashMap<Vec<String>, String>, lines: Vec<String>) -> String {
    let mut sim = Sim::new(nworkers);
    let resolver = Box::new(PackageResolver::memory(modules));
    let mut repl = match Repl::new(&mut sim.env, resolver, qvh::registry()) {
        Ok(r) => r,
        Err(e) => return format!("(session (repl-new-failed {}))", clean(format!("{}", e))),
    };
    let pid = repl.process_id();
    let mut out = String::from("(session");
    for src in lines {
        // process types first, as tests/common.rs does
        let types = match sim.env.request_process_types() {
            Err(e) => {
                out.push_str(&format!(" (line (env-error {}))", clean(format!("{:?}", e))));
                break;
            }
            Ok(req) => match sim.wait(req, 2000) {
                Ok(Some(RequestResult::ProcessTypes(t))) => t,
                _ => {
                    out.push_str(" (line (env-error process-types))");
                    break;
                }
            },
        };
        let evaluated = {
            let (r, e) = (&mut repl, &mut sim.env);
            guarded(move || r.evaluate(e, &src, types))
        };
        let mut fatal = false;
        let outcome = match evaluated {
            Err(loc) => {
                fatal = true;
                format!("(panic \"{}\")", loc)
            }
            Ok(Err(ReplError::Parser(_))) => "(parse-error)".to_string(),
            Ok(Err(ReplError::Compiler(e))) => format!("(compile-error {})", compile_error_kind(&e)),
            Ok(Err(ReplError::Runtime(e))) => format!("(err {})", error_class(&e)),
            Ok(Err(ReplError::Environment(e))) => format!("(env-error {})", clean(format!("{:?}", e))),
            Ok(Ok(None)) => "(none)".to_string(),
            Ok(Ok(Some(req))) => {
                let waited = {
                    let s = &mut sim;
                    guarded(move || s.wait(req, 400_000))
                };
                match waited {
                    Err(loc) => {
                        fatal = true;
                        format!("(panic \"{}\")", loc)
                    }
                    Ok(Err(e)) => {
                        fatal = true;
                        format!("(env-error {})", clean(e))
                    }
                    Ok(Ok(None)) => {
                        fatal = true;
                        "(timeout)".to_string()
                    }
                    Ok(Ok(Some(RequestResult::Result(Ok((value, heap)), _)))) => {
                        format!("(ok {})", dump_extracted(&sim, &value, &heap))
                    }
                    Ok(Ok(Some(RequestResult::Result(Err(e), _)))) => format!("(err {})", error_class(&e)),
                    Ok(Ok(Some(_))) => "(env-error unexpected-result)".to_string(),
                }
            }
        };
        out.push_str(" (line ");
        out.push_str(&outcome);
        if fatal {
            out.push(')');
            break;
        }
        let dumped = {
            let (s, r, o) = (&mut sim, &mut repl, &mut out);
            guarded(move || dump_state(s, r, pid, o))
        };
        if let Err(loc) = dumped {
            out.push_str(&format!(" (panic \"{}\"))", loc));
            break;
        }
        out.push(')');
    }
    out.push(')');
    out
}

fn run_one(nworkers: usize, modules: HashMap<Vec<String>, String>, src: String) -> String {
    let compiled = match guarded(move || qvh::compile_source(&src, modules)) {
        Err(loc) => return format!("(panic \"{}\")", loc),
        Ok(Err(e)) => return e.line(),
        Ok(Ok(c)) => c,
    };
    let bytecode = compiled.program.to_bytecode(Some(compiled.entry));
    let r = guarded(move || {
        let mut sim = Sim::new(nworkers);
        let pid = match sim.env.start_process(Some(bytecode)) {
            Ok(p) => p,
            Err(e) => return format!("(env-error {})", clean(format!("{:?}", e))),
        };
        let req = match sim.env.request_result(pid, None) {
            Ok(r) => r,
            Err(e) => return format!("(env-error {})", clean(format!("{:?}", e))),
        };
        match sim.wait(req, 400_000) {
            Err(e) => format!("(env-error {})", clean(e)),
            Ok(None) => "(timeout)".to_string(),
            Ok(Some(RequestResult::Result(Ok((value, heap)), _))) => {
                format!("(ok {})", dump_extracted(&sim, &value, &heap))
            }
            Ok(Some(RequestResult::Result(Err(e), _))) => format!("(err {})", error_class(&e)),
            Ok(Some(_)) => "(env-error unexpected-result)".to_string(),
        }
    });
    match r {
        Ok(s) => s,
        Err(loc) => format!("(panic \"{}\")", loc),
    }
}

fn main() {
    qvh::quiet_panics();
    for line in qvh::stdin_cases() {
        let case = sexp::parse(&line);
        let l = case.list();
        let nworkers = l[1].usize().max(1);
        let modules = modules_of(&l[2]);
        match l[0].atom() {
            "hist" => {
                let lines: Vec<String> = l[3..].iter().map(|s| s.atom().to_string()).collect();
                println!("{}", run_history(nworkers, modules, lines));
            }
            "one" => println!("{}", run_one(nworkers, modules, l[3].atom().to_string())),
            _ => println!("(bad-case)"),
        }
    }
}
