//! qv_types: drive the real type registry, `is_compatible` / `types_overlap` and the narrowing
//! primitives on a type graph built through the public `Program::register_*` API.
//!
//! stdin, one case per line:  `(ops <op>*) (qs <q>*)`
//!   op  ::= (tu <name|-> (<label|-> <type-id>)*)            -> Program::register_tuple
//!         | (int) | (bin) | (ref) | (tuple <tuple-id>) | (partial <name|-> (<label> <type-id>)*)
//!         | (fn <p> <r> <rc>) | (cycle <d>) | (union <type-id>*) | (proc <s|-> <r|->)
//!         | (res <k>) | (var <k>)                           -> Program::register_type
//!   q   ::= (compat a b) | (overlap a b) | (isect a b) | (compl o n) | (filter p idx must)
//!         | (unionids t*)
//! names/labels/resource/variable identifiers are small naturals, rendered as "N<k>", "l<k>", ...
//! stdout per case: `(ids <returned id>*) (rs <r>*) (reg (tuples <tu-op>*) (types <type-op>*))`
//!   r ::= 0 | 1 | (id <type-id>) | (panic "file:line")
//! A fresh `Program::new()` is used per case (tuple 0 = nil `[]`, tuple 1 = `Ok`).
use qvh::sexp::{self, Sexp};
use qvh::guarded;
use quiver_compiler::compiler::verif as cv;
use quiver_core::program::Program;
use quiver_core::types::{Type, is_compatible, types_overlap};

fn opt_name(s: &Sexp, prefix: &str) -> Option<String> {
    match s.atom() {
        "-" => None,
        "Ok" => Some("Ok".to_string()),
        a => Some(format!("{}{}", prefix, a)),
    }
}

fn opt_id(s: &Sexp) -> Option<usize> {
    if s.atom() == "-" { None } else { Some(s.usize()) }
}

fn apply_op(p: &mut Program, op: &Sexp) -> usize {
    let a = op.args();
    match op.head() {
        "tu" => {
            let name = opt_name(&a[0], "N");
            let fields = a[1..]
                .iter()
                .map(|f| {
                    let l = f.list();
                    (opt_name(&l[0], "l"), l[1].usize())
                })
                .collect();
            p.register_tuple(name, fields)
        }
        "int" => p.register_type(Type::Integer),
        "bin" => p.register_type(Type::Binary),
        "ref" => p.register_type(Type::Reference),
        "tuple" => p.register_type(Type::Tuple(a[0].usize())),
        "partial" => {
            let name = opt_name(&a[0], "N");
            let fields = a[1..]
                .iter()
                .map(|f| {
                    let l = f.list();
                    (format!("l{}", l[0].atom()), l[1].usize())
                })
                .collect();
            p.register_type(Type::Partial { name, fields })
        }
        "fn" => p.register_type(Type::Callable {
            parameter: a[0].usize(),
            result: a[1].usize(),
            receive: a[2].usize(),
        }),
        "cycle" => p.register_type(Type::Cycle(a[0].usize())),
        "union" => p.register_type(Type::Union(a.iter().map(|x| x.usize()).collect())),
        "proc" => p.register_type(Type::Process {
            send: opt_id(&a[0]),
            receive: opt_id(&a[1]),
        }),
        "res" => p.register_type(Type::Resource(format!("R{}", a[0].atom()))),
        "var" => p.register_type(Type::Variable(format!("v{}", a[0].atom()))),
        other => panic!("bad op {}", other),
    }
}

fn strip<'a>(s: &'a str, prefix: &str) -> &'a str {
    s.strip_prefix(prefix).unwrap_or(s)
}

fn dump_name(n: &Option<String>, prefix: &str) -> String {
    match n {
        None => "-".to_string(),
        Some(s) => strip(s, prefix).to_string(),
    }
}

fn dump_type(t: &Type) -> String {
    match t {
        Type::Integer => "(int)".into(),
        Type::Binary => "(bin)".into(),
        Type::Reference => "(ref)".into(),
        Type::Tuple(id) => format!("(tuple {})", id),
        Type::Partial { name, fields } => {
            let fs: String = fields
                .iter()
                .map(|(l, t)| format!(" ({} {})", strip(l, "l"), t))
                .collect();
            format!("(partial {}{})", dump_name(name, "N"), fs)
        }
        Type::Callable { parameter, result, receive } => format!("(fn {} {} {})", parameter, result, receive),
        Type::Cycle(d) => format!("(cycle {})", d),
        Type::Union(v) => {
            let vs: String = v.iter().map(|x| format!(" {}", x)).collect();
            format!("(union{})", vs)
        }
        Type::Process { send, receive } => format!(
            "(proc {} {})",
            send.map(|x| x.to_string()).unwrap_or("-".into()),
            receive.map(|x| x.to_string()).unwrap_or("-".into())
        ),
        Type::Resource(r) => format!("(res {})", strip(r, "R")),
        Type::Variable(v) => format!("(var {})", strip(v, "v")),
    }
}

fn dump_reg(p: &Program) -> String {
    let tuples: Vec<String> = p
        .get_tuples()
        .iter()
        .map(|t| {
            let fs: String = t
                .fields
                .iter()
                .map(|(l, ty)| format!(" ({} {})", dump_name(l, "l"), ty))
                .collect();
            format!("(tu {}{})", dump_name(&t.name, "N"), fs)
        })
        .collect();
    let types: Vec<String> = p.get_types().iter().map(dump_type).collect();
    format!("(reg (tuples {}) (types {}))", tuples.join(" "), types.join(" "))
}

fn run_query(p: &mut Program, q: &Sexp) -> String {
    let a = q.args();
    let id = |i: usize| a[i].usize();
    let r: Result<String, String> = match q.head() {
        "compat" => guarded(|| (is_compatible(id(0), id(1), &*p) as u8).to_string()),
        "overlap" => guarded(|| (types_overlap(id(0), id(1), &*p) as u8).to_string()),
        "isect" => guarded(|| format!("(id {})", cv::intersect_types(id(0), id(1), p))),
        "compl" => guarded(|| format!("(id {})", cv::compute_complement(id(0), id(1), p))),
        "filter" => guarded(|| format!("(id {})", cv::filter_variants_by_field(id(0), id(1), id(2), p))),
        "unionids" => {
            let ids: Vec<usize> = a.iter().map(|x| x.usize()).collect();
            guarded(|| format!("(id {})", cv::union_type_ids(p, ids)))
        }
        other => panic!("bad query {}", other),
    };
    match r {
        Ok(s) => s,
        Err(site) => format!("(panic {})", sexp::quote(&site)),
    }
}

fn main() {
    qvh::quiet_panics();
    // deep recursion on adversarial graphs must not kill the process silently
    let child = std::thread::Builder::new()
        .stack_size(256 * 1024 * 1024)
        .spawn(|| {
            for line in qvh::stdin_cases() {
                let parts = sexp::parse_all(&line);
                let mut p = Program::new();
                let mut ids = vec![];
                let mut rs = vec![];
                for part in &parts {
                    match part.head() {
                        "ops" => {
                            for op in part.args() {
                                ids.push(apply_op(&mut p, op).to_string());
                            }
                        }
                        "qs" => {
                            for q in part.args() {
                                rs.push(run_query(&mut p, q));
                            }
                        }
                        other => panic!("bad part {}", other),
                    }
                }
                println!("(ids {}) (rs {}) {}", ids.join(" "), rs.join(" "), dump_reg(&p));
            }
        })
        .unwrap();
    child.join().unwrap();
}
