//! qv_builtin: call the real builtin implementations directly.
//! stdin: one case per line `(name <arg>)`; arg: `(i n) | (b <rope>) | (t args..) | (o)`;
//! rope: `(own hex) | (zero n) | (cat r r) | (slice r off len) | (tile r n)` built with the real
//! BinaryData constructors and placed on the executor heap.
//! stdout per case: `(ok <val>) | (err Class) | (panic "file:line")`; val: `(i n) | (b len hex) | (t ..)`;
//! a binary result is followed by ` #shape=<rope shape>` (O/Z/S/C/T constructors of the result rope).
//! `--names`: list registered builtin names with their signatures. `--via-program`: additionally
//! not supported here (see qv_eval for the compiled path).
use num_bigint::BigInt;
use qvh::sexp::{self, Sexp};
use qvh::{TestEffect, error_class, guarded, hex, unhex};
use quiver_core::binary::BinaryData;
use quiver_core::builtins::BuiltinResult;
use quiver_core::value::{Binary, Value};
use quiver_core::Executor;
use std::rc::Rc;

fn rope_of(s: &Sexp) -> BinaryData {
    let l = s.list();
    match l[0].atom() {
        "own" => BinaryData::new(if l.len() > 1 { unhex(l[1].atom()) } else { vec![] }),
        "zero" => BinaryData::zeroed(l[1].usize()),
        "cat" => BinaryData::concat(Rc::new(rope_of(&l[1])), Rc::new(rope_of(&l[2]))),
        "slice" => BinaryData::slice(Rc::new(rope_of(&l[1])), l[2].usize(), l[3].usize())
            .expect("generator produced an out-of-bounds slice"),
        "tile" => BinaryData::tiled(Rc::new(rope_of(&l[1])), l[2].usize()),
        other => panic!("bad rope {}", other),
    }
}

fn value_of(s: &Sexp, ex: &mut Executor<TestEffect>) -> Value {
    let l = s.list();
    match l[0].atom() {
        "i" => Value::Integer(l[1].atom().parse::<BigInt>().unwrap()),
        "b" => Value::Binary(ex.allocate_binary_data(rope_of(&l[1])).expect("allocate")),
        "t" => {
            let fields: Vec<Value> = l[1..].iter().map(|f| value_of(f, ex)).collect();
            Value::tuple(if fields.is_empty() { 0 } else { 2 }, fields)
        }
        "o" => Value::Reference(7),
        other => panic!("bad value {}", other),
    }
}

/// Structural shape of a rope: O<len> | Z<len> | S(<parent>,off,len) | C(<l>,<r>) | T(<unit>,count).
/// Iterative on the left spine of Concat so that deep push-built ropes do not overflow the stack.
fn shape(d: &BinaryData, out: &mut String) {
    match d {
        BinaryData::Owned(v) => out.push_str(&format!("O{}", v.len())),
        BinaryData::Zeroed(n) => out.push_str(&format!("Z{}", n)),
        BinaryData::Slice { parent, offset, length } => {
            out.push_str("S(");
            shape(parent, out);
            out.push_str(&format!(",{},{})", offset, length));
        }
        BinaryData::Concat { left, right, .. } => {
            out.push_str("C(");
            shape(left, out);
            out.push(',');
            shape(right, out);
            out.push(')');
        }
        BinaryData::Tiled { unit, count } => {
            out.push_str("T(");
            shape(unit, out);
            out.push_str(&format!(",{})", count));
        }
    }
}

/// `#shape=` suffix for a binary result (the model also predicts the rope shape the builtin builds).
fn shape_suffix(v: &Value, ex: &Executor<TestEffect>) -> String {
    if let Value::Binary(Binary::Heap(i)) = v {
        let mut s = String::from(" #shape=");
        shape(ex.get_heap_binary(*i).unwrap(), &mut s);
        s
    } else {
        String::new()
    }
}

fn dump(v: &Value, ex: &Executor<TestEffect>) -> String {
    match v {
        Value::Integer(n) => format!("(i {})", n),
        Value::Binary(Binary::Heap(i)) => {
            let d = ex.get_heap_binary(*i).unwrap();
            let len = d.len();
            if len <= 4096 {
                format!("(b {} {})", len, hex(&d.to_vec()))
            } else {
                let pos = [0, 1, 2, len / 3, len / 2, len - 2, len - 1];
                let s: String = pos
                    .iter()
                    .map(|&p| d.byte_at(p).map(|b| format!("{:02x}", b)).unwrap_or("--".into()))
                    .collect();
                format!("(b {} ~{})", len, s)
            }
        }
        Value::Tuple(_, fs) => {
            let mut s = String::from("(t");
            for f in fs.iter() {
                s.push(' ');
                s.push_str(&dump(f, ex));
            }
            s.push(')');
            s
        }
        _ => "(o)".to_string(),
    }
}

fn spec(t: &quiver_core::builtins::TypeSpec) -> String {
    use quiver_core::builtins::TypeSpec as T;
    match t {
        T::Integer => "int".into(),
        T::Binary => "bin".into(),
        T::Reference => "ref".into(),
        T::Tuple(name, fs) => format!(
            "(tuple {} {})",
            name.unwrap_or("-"),
            fs.iter().map(|(l, s)| format!("({} {})", l.unwrap_or("-"), spec(s))).collect::<Vec<_>>().join(" ")
        ),
        T::Union(vs) => format!("(union {})", vs.iter().map(spec).collect::<Vec<_>>().join(" ")),
        T::Process(_, _) => "(process)".into(),
        T::Resource(n) => format!("(resource {})", n),
    }
}

fn main() {
    qvh::quiet_panics();
    let reg = qvh::registry();
    if std::env::args().any(|a| a == "--names") {
        for n in reg.get_function_names() {
            let (p, r) = reg.get_specs(&n).unwrap();
            println!("(sig {} {} {})", n, spec(p), spec(r));
        }
        println!("(max_binary_size {})", quiver_core::MAX_BINARY_SIZE);
        return;
    }
    for line in qvh::stdin_cases() {
        let case = sexp::parse(&line);
        let name = case.list()[0].atom().to_string();
        let Some(f) = reg.get_implementation(&name) else {
            println!("(unregistered)");
            continue;
        };
        let out = guarded(|| {
            let mut ex = Executor::<TestEffect>::new(reg.clone(), false, 0);
            let arg = value_of(&case.list()[1], &mut ex);
            match f(0, &arg, &mut ex) {
                Ok(BuiltinResult::Value(v)) => format!("(ok {}){}", dump(&v, &ex), shape_suffix(&v, &ex)),
                Ok(BuiltinResult::Action(_)) => "(action)".to_string(),
                Err(e) => format!("(err {})", error_class(&e)),
            }
        });
        match out {
            Ok(s) => println!("{}", s),
            Err(loc) => println!("(panic \"{}\")", loc),
        }
    }
}
