//! qv_equal: drive the real `values_equal`, `compute_canonical_tuples`, `create_ref` (C13).
//!
//! Default mode — one case per stdin line, one canonical outcome line per case:
//!   (eq (consts C..) (heap H..) (tuples T..) (ext (consts C..) (heap H..) (tuples T..)) V W)
//!       C = (i <int>) | (b x<hex>)     H = (h x<hex> <rope>)    T = (tup <name|-> (<label|->..))
//!       rope = (own hex) | (zero n) | (cat r r) | (slice r off len) | (tile r n)  (real constructors)
//!       V = (i n) | (bc k) | (bh i) | (r n) | (t tid V..) | (f fid V..) | (bi id) | (p pid fid) | (res rid ty)
//!     builds a real Executor, installs the tables with `update_program` (canonical table from the
//!     real `compute_canonical_tuples`), allocates the heap ropes, calls `verif_values_equal`; then
//!     installs the `ext` update (append) and calls it again.
//!     -> (eq <before> <after>) (canon n..) (canon2 n..)
//!   (refs (workers w..) (sched i..)): one Executor per worker id, mint per schedule entry
//!     -> (refs n..)
//!   (equal (consts ..) (heap ..) (tuples ..) <count> V..): runs real bytecode that pushes the values
//!     and executes `Equal(count)`; values limited to ints, constant binaries, tuples
//!     -> (ok <erased value>) | (err Class) | (panic "file:line")
//!   (equal-not ...): the same followed by `Not` (what the compiler emits after every Equal)
//!
//! `--run <workers>`: each stdin line `"<quiver source>" (mod "a/b" "<source>")*` is compiled as a
//!   top-level program and run on a real `Environment` with <workers> real `Worker`s over in-memory
//!   queues, stepped round-robin on this thread (so spawn/send/await/effects work, unlike qv_eval).
//!   `__file_open__` is backed by a test effect backend that hands out fresh resource ids.
//!   -> (ok <erased value>) | (err Class) | (compile-error Kind) | (parse-error) | (panic ..) | (timeout)
use num_bigint::BigInt;
use quiver_core::binary::BinaryData;
use quiver_core::builtins::BuiltinResult;
use quiver_core::bytecode::{Bytecode, Constant, Function, Instruction};
use quiver_core::compatibility::compute_canonical_tuples;
use quiver_core::effects::{EffectBackend, EffectResult, ResultTupleInfo};
use quiver_core::executor::ProgramUpdate;
use quiver_core::process::{Action, ProcessId};
use quiver_core::types::{TupleTypeInfo, Type};
use quiver_core::value::{Binary, ResourceId, Value};
use quiver_core::{Error, Executor};
use quiver_environment::{
    Command, CommandReceiver, Environment, EnvironmentError, Event, EventSender, RequestResult,
    Worker, WorkerHandle,
};
use qvh::sexp::{self, Sexp};
use qvh::{Bins, TestEffect, error_class, guarded, hex, unhex};
use std::collections::{HashMap, VecDeque};
use std::rc::Rc;
use std::sync::{Arc, Mutex};

// ------------------------------------------------------------------ case parsing

fn xhex(s: &str) -> Vec<u8> {
    unhex(&s[1..])
}

fn rope_of(s: &Sexp) -> BinaryData {
    let l = s.list();
    match l[0].atom() {
        "own" => BinaryData::new(if l.len() > 1 { unhex(l[1].atom()) } else { vec![] }),
        "zero" => BinaryData::zeroed(l[1].usize()),
        "cat" => BinaryData::concat(Rc::new(rope_of(&l[1])), Rc::new(rope_of(&l[2]))),
        "slice" => BinaryData::slice(Rc::new(rope_of(&l[1])), l[2].usize(), l[3].usize())
            .expect("generator produced an out-of-bounds slice"),
        "tile" => BinaryData::tiled(Rc::new(rope_of(&l[1])), l[2].usize()),
        other => panic!("bad rope {}", other),
    }
}

fn section<'a>(items: &'a [Sexp], name: &str) -> &'a [Sexp] {
    for it in items {
        if let Sexp::List(l) = it
            && !l.is_empty()
            && matches!(&l[0], Sexp::Atom(a) if a == name)
        {
            return &l[1..];
        }
    }
    &[]
}

fn opt_str(s: &Sexp) -> Option<String> {
    match s.atom() {
        "-" => None,
        a => Some(a.to_string()),
    }
}

fn const_of(s: &Sexp) -> Constant {
    let l = s.list();
    match l[0].atom() {
        "i" => Constant::Integer(l[1].atom().parse::<BigInt>().unwrap()),
        "b" => Constant::Binary(xhex(l[1].atom())),
        other => panic!("bad constant {}", other),
    }
}

fn tup_of(s: &Sexp) -> TupleTypeInfo {
    let l = s.list();
    TupleTypeInfo {
        name: opt_str(&l[1]),
        // field *types* are irrelevant to compute_canonical_tuples / values_equal: type id 0
        fields: l[2].list().iter().map(|f| (opt_str(f), 0)).collect(),
    }
}

fn value_of(s: &Sexp) -> Value {
    let l = s.list();
    let big = |i: usize| l[i].atom().parse::<BigInt>().unwrap();
    let us = |i: usize| l[i].atom().parse::<usize>().unwrap();
    match l[0].atom() {
        "i" => Value::Integer(big(1)),
        "bc" => Value::Binary(Binary::Constant(us(1))),
        "bh" => Value::Binary(Binary::Heap(us(1))),
        "r" => Value::Reference(l[1].atom().parse::<u64>().unwrap()),
        "t" => Value::tuple(us(1), l[2..].iter().map(value_of).collect()),
        "f" => Value::Function(us(1), Arc::new(l[2..].iter().map(value_of).collect())),
        "bi" => Value::Builtin(us(1)),
        "p" => Value::Process(us(1), us(2)),
        "res" => Value::Resource(us(1), us(2)),
        other => panic!("bad value {}", other),
    }
}

fn empty_update() -> ProgramUpdate {
    ProgramUpdate {
        constants: vec![],
        functions: vec![],
        tuples: vec![],
        types: vec![],
        builtins: vec![],
        resources: vec![],
        type_compatibility: vec![],
        function_param_compatibility: vec![],
        builtin_param_compatibility: vec![],
        canonical_tuples: vec![],
    }
}

/// Allocate the heap entries `(h x<hex> <rope>)`; checks that slot numbers are 0.. in order and
/// that the rope really denotes the stated bytes (otherwise the case itself is wrong).
fn install_heap(ex: &mut Executor<TestEffect>, entries: &[Sexp], base: usize) -> Result<(), String> {
    for (k, h) in entries.iter().enumerate() {
        let l = h.list();
        let want = xhex(l[1].atom());
        let rope = rope_of(&l[2]);
        if rope.to_vec() != want {
            return Err(format!("(bad-case rope-content {})", k));
        }
        match ex.allocate_binary_data(rope) {
            Ok(Binary::Heap(i)) if i == base + k => {}
            other => return Err(format!("(bad-case heap-slot {:?})", other)),
        }
    }
    Ok(())
}

fn canon_line(name: &str, c: &[usize]) -> String {
    let mut s = format!("({}", name);
    for n in c {
        s.push_str(&format!(" {}", n));
    }
    s.push(')');
    s
}

fn run_eq(items: &[Sexp]) -> String {
    let n = items.len();
    let v = value_of(&items[n - 2]);
    let w = value_of(&items[n - 1]);
    let mut ex = Executor::<TestEffect>::new(qvh::registry(), false, 0);
    // full tuple table (entries 0 and 1 are NIL and OK, which the executor is pre-initialised with)
    let mut all_tuples: Vec<TupleTypeInfo> = section(items, "tuples").iter().map(tup_of).collect();
    if all_tuples.len() < 2 {
        return "(bad-case tuples)".into();
    }
    let mut up = empty_update();
    up.constants = section(items, "consts").iter().map(const_of).collect();
    up.tuples = all_tuples[2..].to_vec();
    up.canonical_tuples = compute_canonical_tuples(&all_tuples);
    ex.update_program(up);
    let heap1 = section(items, "heap");
    if let Err(e) = install_heap(&mut ex, heap1, 0) {
        return e;
    }
    let r1 = ex.verif_values_equal(&v, &w);
    let (_, canon1) = ex.verif_tables();
    // the update: constants/tuples appended, canonical table recomputed over the whole table
    let ext = section(items, "ext");
    let new_tuples: Vec<TupleTypeInfo> = section(ext, "tuples").iter().map(tup_of).collect();
    all_tuples.extend(new_tuples.iter().cloned());
    let mut up2 = empty_update();
    up2.constants = section(ext, "consts").iter().map(const_of).collect();
    up2.tuples = new_tuples;
    up2.canonical_tuples = compute_canonical_tuples(&all_tuples);
    ex.update_program(up2);
    if let Err(e) = install_heap(&mut ex, section(ext, "heap"), heap1.len()) {
        return e;
    }
    let r2 = ex.verif_values_equal(&v, &w);
    let (arities, canon2) = ex.verif_tables();
    if arities.len() != all_tuples.len() {
        return "(bad-case arities)".into();
    }
    format!(
        "(eq {} {}) {} {}",
        r1,
        r2,
        canon_line("canon", &canon1),
        canon_line("canon2", &canon2)
    )
}

fn run_refs(items: &[Sexp]) -> String {
    let workers = section(items, "workers");
    let sched = section(items, "sched");
    let mut execs: Vec<Executor<TestEffect>> = workers
        .iter()
        .map(|w| Executor::<TestEffect>::new(qvh::registry(), false, w.atom().parse::<u16>().unwrap()))
        .collect();
    let mut out = String::from("(refs");
    for s in sched {
        let i = s.usize();
        if let Some(ex) = execs.get_mut(i) {
            match ex.verif_create_ref() {
                Value::Reference(r) => out.push_str(&format!(" {}", r)),
                _ => out.push_str(" ?"),
            }
        }
    }
    out.push(')');
    out
}

/// Instructions that push `v` (ints and constant binaries through the constants table, tuples with
/// `Tuple(tid)`).
fn push_instructions(v: &Sexp, consts: &mut Vec<Constant>, out: &mut Vec<Instruction>) -> Result<(), String> {
    let l = v.list();
    match l[0].atom() {
        "i" => {
            consts.push(Constant::Integer(l[1].atom().parse::<BigInt>().unwrap()));
            out.push(Instruction::Constant(consts.len() - 1));
        }
        "bc" => out.push(Instruction::Constant(l[1].usize())),
        "t" => {
            for f in &l[2..] {
                push_instructions(f, consts, out)?;
            }
            out.push(Instruction::Tuple(l[1].usize()));
        }
        other => return Err(format!("(bad-case equal-value {})", other)),
    }
    Ok(())
}

fn run_equal(items: &[Sexp], then_not: bool) -> String {
    let mut consts: Vec<Constant> = section(items, "consts").iter().map(const_of).collect();
    let tuples: Vec<TupleTypeInfo> = section(items, "tuples").iter().map(tup_of).collect();
    let rest: Vec<&Sexp> = items
        .iter()
        .filter(|s| !matches!(s, Sexp::List(l) if !l.is_empty() && matches!(&l[0], Sexp::Atom(a) if a == "consts" || a == "heap" || a == "tuples")))
        .collect();
    let count = rest[0].usize();
    let mut ins = Vec::new();
    for v in &rest[1..] {
        if let Err(e) = push_instructions(v, &mut consts, &mut ins) {
            return e;
        }
    }
    ins.push(Instruction::Equal(count));
    if then_not {
        ins.push(Instruction::Not);
    }
    let types = vec![Type::nil(), Type::Callable { parameter: 0, result: 0, receive: 0 }];
    let bytecode = Bytecode {
        constants: consts,
        functions: vec![Function { instructions: ins, captures: 0, type_id: 1 }],
        builtins: vec![],
        entry: Some(0),
        tuples,
        types,
        resources: vec![],
    };
    qvh::run_bytecode(bytecode).line()
}

// ------------------------------------------------------------------ in-memory environment runner

type Q<T> = Arc<Mutex<VecDeque<T>>>;
struct Rx(Q<Command<TestEffect>>);
struct Tx(Q<Event<TestEffect>>);
struct Handle {
    cmd: Q<Command<TestEffect>>,
    evt: Q<Event<TestEffect>>,
}
impl CommandReceiver<TestEffect> for Rx {
    fn try_recv(&mut self) -> Result<Option<Command<TestEffect>>, EnvironmentError> {
        Ok(self.0.lock().unwrap().pop_front())
    }
}
impl EventSender<TestEffect> for Tx {
    fn send(&mut self, event: Event<TestEffect>) -> Result<(), EnvironmentError> {
        self.0.lock().unwrap().push_back(event);
        Ok(())
    }
}
impl WorkerHandle<TestEffect> for Handle {
    fn send(&mut self, command: Command<TestEffect>) -> Result<(), EnvironmentError> {
        self.cmd.lock().unwrap().push_back(command);
        Ok(())
    }
    fn try_recv(&mut self) -> Result<Option<Event<TestEffect>>, EnvironmentError> {
        Ok(self.evt.lock().unwrap().pop_front())
    }
}

/// `__file_open__` for the harness: requests `TestEffect::Open`, answered by `Backend` below.
fn test_file_open(
    process_id: ProcessId,
    _value: &Value,
    _executor: &mut Executor<TestEffect>,
) -> Result<BuiltinResult<TestEffect>, Error> {
    Ok(BuiltinResult::Action(Action::RequestEffect {
        process_id,
        effect: TestEffect::Open(0),
    }))
}

struct Backend {
    next: ResourceId,
    file_type: usize,
}
impl EffectBackend for Backend {
    type E = TestEffect;
    fn execute(&mut self, _pid: ProcessId, effect: TestEffect) -> Result<Option<EffectResult>, Error> {
        match effect {
            TestEffect::Open(_) => {
                self.next += 1;
                Ok(Some(Ok((Value::Resource(self.next, self.file_type), vec![]))))
            }
            TestEffect::Op(_, _) => Ok(Some(Ok((Value::ok(), vec![])))),
        }
    }
    fn process_completions(&mut self) -> Vec<(ProcessId, EffectResult)> {
        vec![]
    }
    fn close_resource(&mut self, _resource_id: ResourceId) {}
    fn set_type_ids(&mut self, resources: &[String], _results: &[(String, ResultTupleInfo)]) {
        if let Some(i) = resources.iter().position(|r| r == "File") {
            self.file_type = i;
        }
    }
}

fn run_source(src: &str, modules: HashMap<Vec<String>, String>, nworkers: usize) -> String {
    let s = src.to_string();
    let compiled = match guarded(move || qvh::compile_source(&s, modules)) {
        Err(loc) => return format!("(panic \"{}\")", loc),
        Ok(Err(e)) => return e.line(),
        Ok(Ok(c)) => c,
    };
    let bytecode = compiled.program.to_bytecode(Some(compiled.entry));
    let r = guarded(move || {
        let mut registry = qvh::registry();
        registry.attach_implementation("file_open", test_file_open);
        let mut workers = Vec::new();
        let mut handles: Vec<Box<dyn WorkerHandle<TestEffect>>> = Vec::new();
        for i in 0..nworkers {
            let cmd: Q<Command<TestEffect>> = Arc::new(Mutex::new(VecDeque::new()));
            let evt: Q<Event<TestEffect>> = Arc::new(Mutex::new(VecDeque::new()));
            workers.push(Worker::new(Rx(cmd.clone()), Tx(evt.clone()), registry.clone(), false, i as u16));
            handles.push(Box::new(Handle { cmd, evt }));
        }
        let mut env = Environment::<TestEffect>::new(handles);
        env.set_effect_backend(Box::new(Backend { next: 0, file_type: 0 }));
        let pid = match env.start_process(Some(bytecode)) {
            Ok(p) => p,
            Err(e) => return format!("(env-error {:?})", e).replace('\n', " "),
        };
        let req = match env.request_result(pid, None) {
            Ok(r) => r,
            Err(e) => return format!("(env-error {:?})", e).replace('\n', " "),
        };
        let mut now: u64 = 0;
        for _ in 0..400_000usize {
            let mut did = false;
            for w in workers.iter_mut() {
                match w.step(now) {
                    Ok(d) => did |= d,
                    Err(e) => return format!("(env-error {:?})", e).replace('\n', " "),
                }
            }
            match env.step() {
                Ok(d) => did |= d,
                Err(e) => return format!("(env-error {:?})", e).replace('\n', " "),
            }
            if !did {
                now += 1;
            }
            match env.poll_request(req) {
                Ok(Some(RequestResult::Result(Ok((value, heap)), _))) => {
                    let program = env.get_program();
                    let consts = program.get_constants().to_vec();
                    let bins = Bins::Extracted(&heap, &consts);
                    return format!("(ok {})", qvh::dump_value(&value, program, &bins));
                }
                Ok(Some(RequestResult::Result(Err(e), _))) => return format!("(err {})", error_class(&e)),
                Ok(Some(_)) => return "(env-error unexpected-result)".into(),
                Ok(None) => {}
                Err(e) => return format!("(env-error {:?})", e).replace('\n', " "),
            }
        }
        "(timeout)".to_string()
    });
    match r {
        Ok(s) => s,
        Err(loc) => format!("(panic \"{}\")", loc),
    }
}

fn main() {
    qvh::quiet_panics();
    let args: Vec<String> = std::env::args().collect();
    if let Some(p) = args.iter().position(|a| a == "--run") {
        let nworkers: usize = args.get(p + 1).and_then(|s| s.parse().ok()).unwrap_or(2);
        for line in qvh::stdin_cases() {
            let items = sexp::parse_all(&line);
            let src = items[0].atom().to_string();
            let mut modules = HashMap::new();
            for m in &items[1..] {
                if let Sexp::List(l) = m {
                    let path: Vec<String> = l[1].atom().split('/').map(|s| s.to_string()).collect();
                    modules.insert(path, l[2].atom().to_string());
                }
            }
            println!("{}", run_source(&src, modules, nworkers));
        }
        return;
    }
    for line in qvh::stdin_cases() {
        let case = sexp::parse(&line);
        let l = case.list().to_vec();
        let out = guarded(|| match l[0].atom() {
            "eq" => run_eq(&l[1..]),
            "refs" => run_refs(&l[1..]),
            "equal" => run_equal(&l[1..], false),
            "equal-not" => run_equal(&l[1..], true),
            _ => "(bad-case)".to_string(),
        });
        match out {
            Ok(s) => println!("{}", s),
            Err(loc) => println!("(panic \"{}\")", loc),
        }
    }
    let _ = hex(&[]);
}
