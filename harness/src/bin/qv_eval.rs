//! qv_eval: one case per stdin line: a quoted source string `"..."`, optionally followed by
//! module definitions `(mod "a/b" "source")`. Prints one canonical outcome line per case:
//! `(ok <value>) | (err <Class>) | (panic "<file:line>") | (compile-error <Kind>) | (parse-error)`.
//! With `--types`, appends ` :: <result type>` on success.
use qvh::sexp::{self, Sexp};
use std::collections::HashMap;

fn main() {
    qvh::quiet_panics();
    let with_types = std::env::args().any(|a| a == "--types");
    for line in qvh::stdin_cases() {
        let items = sexp::parse_all(&line);
        let src = items[0].atom().to_string();
        let mut modules = HashMap::new();
        for m in &items[1..] {
            if let Sexp::List(l) = m {
                let path: Vec<String> = l[1].atom().split('/').map(|s| s.to_string()).collect();
                modules.insert(path, l[2].atom().to_string());
            }
        }
        let out = qvh::eval_source(&src, modules);
        match (&out, with_types) {
            (qvh::EvalOutcome::Ok(_, ty), true) => println!("{} :: {}", out.line(), ty),
            _ => println!("{}", out.line()),
        }
    }
}
