//! qv_compat: dump the REAL runtime type-test tables of compiled programs, in three configurations.
//! stdin: one case per line: `"<source>" (mod "a/b" "<source>")*`   (`--merge N`: keep merging the
//! tree-shaken programs into one Environment, reset after N programs).
//! `--run`: instead of the tables, execute each configuration:
//!   (ran (as-compiled <outcome>) (tree-shaken <outcome>) (merged-behind-<k> <outcome>))
//! stdout per case, one line:
//!   (compiled <cfg>*) | (parse-error) | (compile-error K) | (panic "file:line")
//!   cfg ::= (cfg <name> <input> <tables> <struct>)      name: as-compiled | tree-shaken | merged-behind-<k>
//!   input  ::= (input (entry <function index>) (reg (tuples <tu>*) (types <ty>*)) (fns (f <type_id> <istype operand>*)*)
//!                     (builtins (b <param> <result>)*) (resources <name code>*))
//!              -- the CompatibilityInput, names interned to small naturals per configuration
//!              -- (same `tu`/`ty` syntax as qv_types)
//!   tables ::= (tables (type (row <tag>*)*) (fparams (row <tag>*)*) (bparams (row <tag>*)*))
//!              -- compute_type_compatibility / compute_param_compatibility, rows in index order,
//!              -- tags sorted: i b r (t n) (f n) (bi n) (p n) (res n)
//!   struct ::= (struct (tags "<key>"*) (builds "<tuple key>"*)   -- a key starts with '!' when no tag of that image has a type entry (pat "<pattern key>" "<accepted tag key>"*)*)
//!              -- the type table on structural images (ids erased), for the cross-configuration
//!              -- invariance check: one `pat` per IsType operand
use qvh::sexp::{self, Sexp};
use qvh::TestEffect;
use quiver_core::bytecode::{Bytecode, ConcreteType, Instruction};
use quiver_core::compatibility::{CompatibilityInput, compute_param_compatibility, compute_type_compatibility};
use quiver_core::types::Type;
use quiver_environment::{Command, Environment, EnvironmentError, Event, WorkerHandle};
use std::collections::{BTreeSet, HashMap, HashSet};
use std::sync::{Arc, Mutex};

struct Recorder(Arc<Mutex<Vec<Command<TestEffect>>>>);
impl WorkerHandle<TestEffect> for Recorder {
    fn send(&mut self, command: Command<TestEffect>) -> Result<(), EnvironmentError> {
        self.0.lock().unwrap().push(command);
        Ok(())
    }
    fn try_recv(&mut self) -> Result<Option<Event<TestEffect>>, EnvironmentError> {
        Ok(None)
    }
}

struct Merger {
    env: Environment<TestEffect>,
    log: Arc<Mutex<Vec<Command<TestEffect>>>>,
    count: usize,
}
impl Merger {
    fn new() -> Self {
        let log = Arc::new(Mutex::new(Vec::new()));
        let env = Environment::<TestEffect>::new(vec![Box::new(Recorder(log.clone()))]);
        Merger { env, log, count: 0 }
    }
    fn merge(&mut self, bc: Bytecode) -> Result<Bytecode, String> {
        self.log.lock().unwrap().clear();
        self.env.start_process(Some(bc)).map_err(|e| format!("{:?}", e))?;
        self.count += 1;
        let entry = self.log.lock().unwrap().iter().find_map(|c| match c {
            Command::StartProcess { function_index, .. } => *function_index,
            _ => None,
        });
        let entry = entry.ok_or("no StartProcess command")?;
        Ok(self.env.get_program().to_bytecode(Some(entry)))
    }
}

#[derive(Default)]
struct Interner {
    map: HashMap<String, usize>,
}
impl Interner {
    fn code(&mut self, s: &str) -> String {
        if s == "Ok" {
            return "Ok".to_string();
        }
        let n = self.map.len();
        self.map.entry(s.to_string()).or_insert(n).to_string()
    }
    fn opt(&mut self, s: &Option<String>) -> String {
        match s {
            None => "-".into(),
            Some(x) => self.code(x),
        }
    }
}

fn dump_type(t: &Type, names: &mut Interner, labels: &mut Interner, res: &mut Interner, vars: &mut Interner) -> String {
    match t {
        Type::Integer => "(int)".into(),
        Type::Binary => "(bin)".into(),
        Type::Reference => "(ref)".into(),
        Type::Tuple(id) => format!("(tuple {})", id),
        Type::Partial { name, fields } => {
            let fs: String = fields.iter().map(|(l, t)| format!(" ({} {})", labels.code(l), t)).collect();
            format!("(partial {}{})", names.opt(name), fs)
        }
        Type::Callable { parameter, result, receive } => format!("(fn {} {} {})", parameter, result, receive),
        Type::Cycle(d) => format!("(cycle {})", d),
        Type::Union(v) => format!("(union{})", v.iter().map(|x| format!(" {}", x)).collect::<String>()),
        Type::Process { send, receive } => format!(
            "(proc {} {})",
            send.map(|x| x.to_string()).unwrap_or("-".into()),
            receive.map(|x| x.to_string()).unwrap_or("-".into())
        ),
        Type::Resource(r) => format!("(res {})", res.code(r)),
        Type::Variable(v) => format!("(var {})", vars.code(v)),
    }
}

fn tag_order(t: &ConcreteType) -> (u8, usize) {
    match t {
        ConcreteType::Integer => (0, 0),
        ConcreteType::Binary => (1, 0),
        ConcreteType::Reference => (2, 0),
        ConcreteType::Tuple(n) => (3, *n),
        ConcreteType::Function(n) => (4, *n),
        ConcreteType::Builtin(n) => (5, *n),
        ConcreteType::Process(n) => (6, *n),
        ConcreteType::Resource(n) => (7, *n),
    }
}

fn dump_tag(t: &ConcreteType) -> String {
    match t {
        ConcreteType::Integer => "i".into(),
        ConcreteType::Binary => "b".into(),
        ConcreteType::Reference => "r".into(),
        ConcreteType::Tuple(n) => format!("(t {})", n),
        ConcreteType::Function(n) => format!("(f {})", n),
        ConcreteType::Builtin(n) => format!("(bi {})", n),
        ConcreteType::Process(n) => format!("(p {})", n),
        ConcreteType::Resource(n) => format!("(res {})", n),
    }
}

fn dump_rows(rows: &[HashSet<ConcreteType>]) -> String {
    rows.iter()
        .map(|set| {
            let mut v: Vec<&ConcreteType> = set.iter().collect();
            v.sort_by_key(|t| tag_order(t));
            format!("(row{})", v.iter().map(|t| format!(" {}", dump_tag(t))).collect::<String>())
        })
        .collect::<Vec<_>>()
        .join(" ")
}

/// structural image of a type id (ids erased; the id graph is a DAG, `Cycle` prints as ^d)
fn expand(bc: &Bytecode, t: usize, depth: usize) -> String {
    if depth > 40 {
        return "...".into();
    }
    match bc.types.get(t) {
        None => "?".into(),
        Some(Type::Integer) => "int".into(),
        Some(Type::Binary) => "bin".into(),
        Some(Type::Reference) => "ref".into(),
        Some(Type::Tuple(id)) => expand_tuple(bc, *id, depth),
        Some(Type::Partial { name, fields }) => format!(
            "{}({})",
            name.clone().unwrap_or_default(),
            fields.iter().map(|(l, t)| format!("{}:{}", l, expand(bc, *t, depth + 1))).collect::<Vec<_>>().join(",")
        ),
        Some(Type::Callable { parameter, result, receive }) => format!(
            "#({}->{}!{})",
            expand(bc, *parameter, depth + 1),
            expand(bc, *result, depth + 1),
            expand(bc, *receive, depth + 1)
        ),
        Some(Type::Cycle(d)) => format!("^{}", d),
        Some(Type::Union(v)) => format!("<{}>", v.iter().map(|x| expand(bc, *x, depth + 1)).collect::<Vec<_>>().join("|")),
        Some(Type::Process { send, receive }) => format!(
            "@({};{})",
            send.map(|x| expand(bc, x, depth + 1)).unwrap_or("-".into()),
            receive.map(|x| expand(bc, x, depth + 1)).unwrap_or("-".into())
        ),
        Some(Type::Resource(r)) => format!("res:{}", r),
        Some(Type::Variable(v)) => format!("var:{}", v),
    }
}

fn expand_tuple(bc: &Bytecode, id: usize, depth: usize) -> String {
    match bc.tuples.get(id) {
        None => "?tuple".into(),
        Some(info) => format!(
            "{}[{}]",
            info.name.clone().unwrap_or_default(),
            info.fields
                .iter()
                .map(|(l, t)| format!("{}:{}", l.clone().unwrap_or_default(), expand(bc, *t, depth + 1)))
                .collect::<Vec<_>>()
                .join(",")
        ),
    }
}

fn tag_key(bc: &Bytecode, t: &ConcreteType) -> String {
    match t {
        ConcreteType::Integer => "int".into(),
        ConcreteType::Binary => "bin".into(),
        ConcreteType::Reference => "ref".into(),
        ConcreteType::Tuple(n) => format!("tuple {}", expand_tuple(bc, *n, 0)),
        ConcreteType::Function(n) => format!("fn {}", bc.functions.get(*n).map(|f| expand(bc, f.type_id, 0)).unwrap_or("?".into())),
        ConcreteType::Builtin(n) => format!("builtin {}", bc.builtins.get(*n).map(|b| b.name.clone()).unwrap_or("?".into())),
        ConcreteType::Process(n) => format!("proc {}", bc.functions.get(*n).map(|f| expand(bc, f.type_id, 0)).unwrap_or("?".into())),
        ConcreteType::Resource(n) => format!("res {}", bc.resources.get(*n).cloned().unwrap_or("?".into())),
    }
}

/// does the tag have a type entry (TypeIndex lookup succeeds)? Without one no row can contain it.
fn has_type_entry(bc: &Bytecode, t: &ConcreteType) -> bool {
    match t {
        ConcreteType::Integer | ConcreteType::Binary | ConcreteType::Reference | ConcreteType::Function(_) => true,
        ConcreteType::Tuple(n) => bc.types.iter().any(|ty| matches!(ty, Type::Tuple(id) if id == n)),
        ConcreteType::Builtin(n) => bc.builtins.get(*n).is_some_and(|b| {
            bc.types.iter().any(|ty| {
                matches!(ty, Type::Callable { parameter, result, receive }
                    if *parameter == b.param_type && *result == b.result_type
                        && bc.types.get(*receive).is_some_and(|r| r.is_never()))
            })
        }),
        // since 5eb967d (fix of F70) the tables are computed with the process type of every function of a
        // callable type appended to the program's types, so such a process tag always has an entry
        ConcreteType::Process(n) => bc.functions.get(*n).is_some_and(|f| match bc.types.get(f.type_id) {
            Some(Type::Callable { .. }) => true,
            _ => bc.types.iter().any(|ty| matches!(ty, Type::Process { send: None, receive: None })),
        }),
        ConcreteType::Resource(n) => bc.resources.get(*n).is_some_and(|name| {
            bc.types.iter().any(|ty| matches!(ty, Type::Resource(x) if x == name))
        }),
    }
}

fn dump_cfg(name: &str, bc: &Bytecode) -> String {
    let (mut names, mut labels, mut res, mut vars) = (Interner::default(), Interner::default(), Interner::default(), Interner::default());
    let tuples: Vec<String> = bc
        .tuples
        .iter()
        .map(|t| {
            let fs: String = t.fields.iter().map(|(l, ty)| format!(" ({} {})", labels.opt(l), ty)).collect();
            format!("(tu {}{})", names.opt(&t.name), fs)
        })
        .collect();
    let types: Vec<String> = bc.types.iter().map(|t| dump_type(t, &mut names, &mut labels, &mut res, &mut vars)).collect();
    let fns: Vec<String> = bc
        .functions
        .iter()
        .map(|f| {
            let ops: String = f
                .instructions
                .iter()
                .filter_map(|i| if let Instruction::IsType(t) = i { Some(format!(" {}", t)) } else { None })
                .collect();
            format!("(f {}{})", f.type_id, ops)
        })
        .collect();
    let builtins: Vec<String> = bc.builtins.iter().map(|b| format!("(b {} {})", b.param_type, b.result_type)).collect();
    let resources: Vec<String> = bc.resources.iter().map(|r| res.code(r)).collect();
    let input = CompatibilityInput {
        types: &bc.types,
        tuples: &bc.tuples,
        functions: &bc.functions,
        builtins: &bc.builtins,
        resource_names: &bc.resources,
    };
    let tt = compute_type_compatibility(&input);
    let (fp, bp) = compute_param_compatibility(&input);
    // structural image
    // a key is listed plain when SOME tag with that structural image has a type entry, with a
    // leading '!' when none has (then no row can contain it in this configuration)
    let mut with_entry: BTreeSet<String> = BTreeSet::new();
    let mut every: BTreeSet<String> = BTreeSet::new();
    let mut note = |t: ConcreteType| {
        let k = tag_key(bc, &t);
        if has_type_entry(bc, &t) {
            with_entry.insert(k.clone());
        }
        every.insert(k);
    };
    for t in [ConcreteType::Integer, ConcreteType::Binary, ConcreteType::Reference] {
        note(t);
    }
    for i in 0..bc.tuples.len() {
        note(ConcreteType::Tuple(i));
    }
    for i in 0..bc.functions.len() {
        note(ConcreteType::Function(i));
        note(ConcreteType::Process(i));
    }
    for i in 0..bc.builtins.len() {
        note(ConcreteType::Builtin(i));
    }
    for i in 0..bc.resources.len() {
        note(ConcreteType::Resource(i));
    }
    let all_tags: BTreeSet<String> =
        every.iter().map(|k| if with_entry.contains(k) { k.clone() } else { format!("!{}", k) }).collect();
    let mut pats: BTreeSet<usize> = BTreeSet::new();
    for f in &bc.functions {
        for i in &f.instructions {
            if let Instruction::IsType(t) = i {
                pats.insert(*t);
            }
        }
    }
    // tuple shapes some function of this configuration constructs (operands of Instruction::Tuple)
    let mut builds: BTreeSet<String> = BTreeSet::new();
    for f in &bc.functions {
        for i in &f.instructions {
            if let Instruction::Tuple(t) = i {
                builds.insert(tag_key(bc, &ConcreteType::Tuple(*t)));
            }
        }
    }
    let mut pat_lines: BTreeSet<String> = BTreeSet::new();
    for p in pats {
        if let Some(set) = tt.get(p) {
            let keys: BTreeSet<String> = set.iter().map(|t| tag_key(bc, t)).collect();
            pat_lines.insert(format!(
                "(pat {}{})",
                sexp::quote(&expand(bc, p, 0)),
                keys.iter().map(|k| format!(" {}", sexp::quote(k))).collect::<String>()
            ));
        }
    }
    format!(
        "(cfg {} (input (entry {}) (reg (tuples {}) (types {})) (fns {}) (builtins {}) (resources {})) (tables (type {}) (fparams {}) (bparams {})) (struct (tags{}) (builds{}) {}))",
        name,
        bc.entry.map(|e| e as i64).unwrap_or(-1),
        tuples.join(" "),
        types.join(" "),
        fns.join(" "),
        builtins.join(" "),
        resources.join(" "),
        dump_rows(&tt),
        dump_rows(&fp),
        dump_rows(&bp),
        all_tags.iter().map(|k| format!(" {}", sexp::quote(k))).collect::<String>(),
        builds.iter().map(|k| format!(" {}", sexp::quote(k))).collect::<String>(),
        pat_lines.into_iter().collect::<Vec<_>>().join(" ")
    )
}

/// `--run`: execute the program as compiled, tree-shaken and merged behind the earlier programs
fn run_line(src: &str, modules: HashMap<Vec<String>, String>, merger: Option<&mut Merger>) -> String {
    let src = src.to_string();
    match qvh::guarded(move || qvh::compile_source(&src, modules)) {
        Err(loc) => format!("(panic \"{}\")", loc),
        Ok(Err(e)) => e.line(),
        Ok(Ok(c)) => {
            let full = c.program.to_bytecode(Some(c.entry));
            let mut s = format!("(ran (as-compiled {})", qvh::run_bytecode(full).line());
            match qvh::guarded(|| c.program.to_bytecode_optimized(c.entry)) {
                Ok(b) => {
                    s.push_str(&format!(" (tree-shaken {})", qvh::run_bytecode(b.clone()).line()));
                    if let Some(m) = merger {
                        let before = m.count;
                        match qvh::guarded(|| m.merge(b)) {
                            Ok(Ok(mb)) => s.push_str(&format!(" (merged-behind-{} {})", before, qvh::run_bytecode(mb).line())),
                            Ok(Err(e)) => s.push_str(&format!(" (merge-error {})", sexp::quote(&e))),
                            Err(loc) => s.push_str(&format!(" (panic \"{}\")", loc)),
                        }
                    }
                }
                Err(loc) => s.push_str(&format!(" (panic \"{}\")", loc)),
            }
            s.push(')');
            s
        }
    }
}

fn compile_line(src: &str, modules: HashMap<Vec<String>, String>, merger: Option<&mut Merger>) -> String {
    let src = src.to_string();
    match qvh::guarded(move || qvh::compile_source(&src, modules)) {
        Err(loc) => format!("(panic \"{}\")", loc),
        Ok(Err(e)) => e.line(),
        Ok(Ok(c)) => {
            let full = c.program.to_bytecode(Some(c.entry));
            let mut s = String::from("(compiled ");
            s.push_str(&dump_cfg("as-compiled", &full));
            match qvh::guarded(|| c.program.to_bytecode_optimized(c.entry)) {
                Ok(b) => {
                    s.push(' ');
                    s.push_str(&dump_cfg("tree-shaken", &b));
                    if let Some(m) = merger {
                        let before = m.count;
                        match qvh::guarded(|| m.merge(b)) {
                            Ok(Ok(mb)) => {
                                s.push(' ');
                                s.push_str(&dump_cfg(&format!("merged-behind-{}", before), &mb));
                            }
                            Ok(Err(e)) => s.push_str(&format!(" (merge-error {})", sexp::quote(&e))),
                            Err(loc) => s.push_str(&format!(" (panic \"{}\")", loc)),
                        }
                    }
                }
                Err(loc) => s.push_str(&format!(" (panic \"{}\")", loc)),
            }
            s.push(')');
            s
        }
    }
}

fn main() {
    qvh::quiet_panics();
    let args: Vec<String> = std::env::args().collect();
    let merge_every: Option<usize> = args.iter().position(|a| a == "--merge").map(|i| args[i + 1].parse().unwrap());
    let mut merger = merge_every.map(|_| Merger::new());
    let run_mode = args.iter().any(|a| a == "--run");
    for line in qvh::stdin_cases() {
        if let (Some(n), Some(m)) = (merge_every, merger.as_mut())
            && m.count >= n
        {
            *m = Merger::new();
        }
        let items = sexp::parse_all(&line);
        let src = items[0].atom().to_string();
        let mut modules = HashMap::new();
        for m in &items[1..] {
            if let Sexp::List(l) = m {
                let path: Vec<String> = l[1].atom().split('/').map(|s| s.to_string()).collect();
                modules.insert(path, l[2].atom().to_string());
            }
        }
        if run_mode {
            println!("{}", run_line(&src, modules, merger.as_mut()));
        } else {
            println!("{}", compile_line(&src, modules, merger.as_mut()));
        }
    }
}
