//! qv_own: resource-ownership runs of the real `Environment` + W real `Worker`s (C14).
//!
//! One case per stdin line:
//!   (case (workers W) (seed S) (nsched K) (src "<quiver source>"))
//! The source is compiled once (core builtins + the test resource builtins below) and run K times
//! on a fresh Environment with W Workers over in-memory queues, stepped on this thread by a seeded
//! scheduler (schedule k uses seed S+k).  The scheduler's atomic actions (DESIGN.md §4):
//!   W i [k]  one `Worker::step` of worker i (optionally seeing only its first k queued commands)
//!   E j      one `Environment::step` in which only ONE event (the oldest of worker j) is visible,
//!            so the environment handles exactly one event per action
//!   C        one `Environment::step` in which the backend releases its oldest async completion
//! and each schedule also fixes the instruction quantum (hook `executor::verif::set_quantum`).
//! One output line per case: `(runs RUN...)` | `(compile-error K)` | `(parse-error)` | `(panic ..)`
//!   RUN  = (run (sched S) (quantum Q) (mode M) (end quiescent|limit|(env-error ..)|(panic ..))
//!               (steps STEP...) (final (own (r p)..) (status (p st)..) (mail (p n)..) (router (p w)..)))
//!   STEP = (term p)                                   process p observed completed/failed after a worker step
//!        | (ev EVENT (calls CALL...) (watch p...) (own (r p)...))  one environment step: the event handled, the backend
//!                                                     calls it made (in order), ownership map afterwards
//!   EVENT= (eff p (open n)) | (eff p (use r n)) | (spawn caller child (V...)) | (send to V from)
//!        | (results awaiter (p...)) | (terminated p) | (complete p ANS) | (await p (t...)) | (other)
//!   CALL = (exec p (open n) ANS) | (exec p (use r n) ANS) | (close r)
//!   ANS  = (now (res r)) | (now o) | (now err) | (async) | (fail)        for `complete`: (res r) | o | err
//!   V    = (res r) | (t V...) | (f V...) | o
//!
//! Test builtins (resource type `\TestRes`; effect type `qvh::TestEffect`):
//!   __res_open__   : 'int             -> \TestRes   effect Open(n)
//!   __res_use__    : [\TestRes, 'int] -> 'int       effect Op(r, n)             n < ACCEPT
//!   __res_accept__ : [\TestRes, 'int] -> \TestRes   effect Op(r, ACCEPT + n)    (a use that creates a resource)
//! Backend script (n mod 4): 0 immediate ok, 1 async ok, 2 immediate effect error, 3 `execute` fails.
//! An operation on an id the backend does not hold fails in `execute` ("Resource r not found"),
//! as quiver-io's native backend does.
use num_traits::ToPrimitive;
use quiver_compiler::compiler::ModuleCache;
use quiver_compiler::{Compiler, PackageResolver, parse};
use quiver_core::builtins::{BuiltinRegistry, BuiltinResult, TypeSpec};
use quiver_core::bytecode::Bytecode;
use quiver_core::effects::{EffectBackend, EffectError, EffectResult, ResultTupleInfo};
use quiver_core::executor::verif;
use quiver_core::process::{Action, ProcessId, ProcessStatus};
use quiver_core::program::Program;
use quiver_core::types::Type;
use quiver_core::value::{ResourceId, Value};
use quiver_core::{Error, Executor};
use quiver_environment::{
    Command, CommandReceiver, Environment, EnvironmentError, Event, EventSender, Worker, WorkerHandle,
};
use qvh::sexp::{self, Sexp};
use qvh::{TestEffect, guarded};
use std::collections::{BTreeSet, HashMap, VecDeque};
use std::sync::{Arc, Mutex};

const ACCEPT: u64 = 1_000_000;

// ------------------------------------------------------------------ builtins

fn int_arg(v: &Value) -> Result<u64, Error> {
    match v {
        Value::Integer(n) => n
            .to_u64()
            .ok_or_else(|| Error::InvalidArgument("test effect argument out of range".to_string())),
        other => Err(Error::TypeMismatch {
            expected: "integer".to_string(),
            found: other.type_name().to_string(),
        }),
    }
}

fn res_int(v: &Value) -> Result<(ResourceId, u64), Error> {
    if let Value::Tuple(_, fields) = v
        && fields.len() == 2
        && let Value::Resource(id, _) = &fields[0]
    {
        return Ok((*id, int_arg(&fields[1])?));
    }
    Err(Error::TypeMismatch {
        expected: "[resource, integer]".to_string(),
        found: v.type_name().to_string(),
    })
}

fn builtin_res_open(
    process_id: ProcessId,
    value: &Value,
    _ex: &mut Executor<TestEffect>,
) -> Result<BuiltinResult<TestEffect>, Error> {
    let n = int_arg(value)?;
    Ok(BuiltinResult::Action(Action::RequestEffect {
        process_id,
        effect: TestEffect::Open(n),
    }))
}

fn builtin_res_use(
    process_id: ProcessId,
    value: &Value,
    _ex: &mut Executor<TestEffect>,
) -> Result<BuiltinResult<TestEffect>, Error> {
    let (rid, n) = res_int(value)?;
    if n >= ACCEPT {
        return Err(Error::InvalidArgument("res_use argument too large".to_string()));
    }
    Ok(BuiltinResult::Action(Action::RequestEffect {
        process_id,
        effect: TestEffect::Op(rid, n),
    }))
}

fn builtin_res_accept(
    process_id: ProcessId,
    value: &Value,
    _ex: &mut Executor<TestEffect>,
) -> Result<BuiltinResult<TestEffect>, Error> {
    let (rid, n) = res_int(value)?;
    if n >= ACCEPT {
        return Err(Error::InvalidArgument("res_accept argument too large".to_string()));
    }
    Ok(BuiltinResult::Action(Action::RequestEffect {
        process_id,
        effect: TestEffect::Op(rid, ACCEPT + n),
    }))
}

/// Core builtins + the test resource builtins (the same registry is given to the compiler and to
/// every worker, so the signatures type-check and the implementations run).
fn own_registry() -> BuiltinRegistry<TestEffect> {
    let mut r = qvh::registry();
    let res = TypeSpec::Resource("TestRes".to_string());
    let res_int = TypeSpec::Tuple(None, vec![(None, res.clone()), (None, TypeSpec::Integer)]);
    r.register("res_open".to_string(), builtin_res_open, TypeSpec::Integer, res.clone());
    r.register("res_use".to_string(), builtin_res_use, res_int.clone(), TypeSpec::Integer);
    r.register("res_accept".to_string(), builtin_res_accept, res_int, res);
    r
}

// ------------------------------------------------------------------ compile (as qvh::compile_source, own registry)

enum Compiled {
    Ok(Bytecode),
    Fail(String),
}

fn compile(source: &str) -> Compiled {
    let builtins = own_registry();
    let ast = match parse(source) {
        Ok(a) => a,
        Err(_) => return Compiled::Fail("(parse-error)".to_string()),
    };
    let mut program = Program::new();
    let mut module_cache = ModuleCache::new();
    let resolver = PackageResolver::memory(HashMap::new());
    // as quiv run (after the F58 repair): the parameter is the nil *type*, not the NIL tuple id
    let entry_param_type = program.register_type(quiver_core::types::Type::nil());
    let compiled = Compiler::compile(
        ast,
        &HashMap::new(),
        &mut module_cache,
        &resolver,
        &mut program,
        entry_param_type,
        &HashMap::new(),
        &builtins,
        None,
    );
    let compiled = match compiled {
        Ok(c) => c,
        Err(e) => {
            let s = format!("{:?}", e.error);
            let kind = s.split(['(', ' ', '{']).next().unwrap_or("").to_string();
            return Compiled::Fail(format!("(compile-error {})", kind));
        }
    };
    let nil_type_id = program.register_type(Type::nil());
    let callable = program.register_type(Type::Callable {
        parameter: nil_type_id,
        result: compiled.result_type,
        receive: compiled.receive_type,
    });
    let entry = program.register_function(quiver_core::bytecode::Function {
        instructions: compiled.instructions,
        captures: 0,
        type_id: callable,
    });
    Compiled::Ok(program.to_bytecode(Some(entry)))
}

// ------------------------------------------------------------------ shared simulator state

struct Pending {
    pid: ProcessId,
    result: EffectResult,
    text: String,
}

#[derive(Default)]
struct Sim {
    cmd: Vec<VecDeque<Command<TestEffect>>>,
    /// events with, for a DeliverAction, the process that executed the Send instruction
    evt: Vec<VecDeque<(Event<TestEffect>, Option<ProcessId>)>>,
    /// worker whose oldest event is visible to the current Environment::step
    release_event: Option<usize>,
    /// commands worker i may still take in the current Worker::step (None = all)
    cmd_budget: Option<usize>,
    /// the backend may hand out one completion in the current Environment::step
    release_completion: bool,
    pending: VecDeque<Pending>,
    next_rid: ResourceId,
    open: BTreeSet<ResourceId>,
    res_type: usize,
    /// record of the current environment step
    event_text: Option<String>,
    calls: Vec<String>,
    spawned: Option<ProcessId>,
    /// Command::WatchProcess sent during the current environment step
    watches: Vec<ProcessId>,
}

type Shared = Arc<Mutex<Sim>>;

struct Rx(Shared, usize);
struct Tx(Shared, usize);
struct Handle(Shared, usize);

impl CommandReceiver<TestEffect> for Rx {
    fn try_recv(&mut self) -> Result<Option<Command<TestEffect>>, EnvironmentError> {
        let mut s = self.0.lock().unwrap();
        match s.cmd_budget {
            Some(0) => return Ok(None),
            Some(k) => s.cmd_budget = Some(k - 1),
            None => {}
        }
        Ok(s.cmd[self.1].pop_front())
    }
}

impl EventSender<TestEffect> for Tx {
    fn send(&mut self, event: Event<TestEffect>) -> Result<(), EnvironmentError> {
        self.0.lock().unwrap().evt[self.1].push_back((event, None));
        Ok(())
    }
}

fn value_text(v: &Value) -> String {
    match v {
        Value::Resource(r, _) => format!("(res {})", r),
        Value::Tuple(_, fields) => {
            let mut s = String::from("(t");
            for f in fields.iter() {
                s.push(' ');
                s.push_str(&value_text(f));
            }
            s.push(')');
            s
        }
        Value::Function(_, caps) => {
            let mut s = String::from("(f");
            for c in caps.iter() {
                s.push(' ');
                s.push_str(&value_text(c));
            }
            s.push(')');
            s
        }
        _ => "o".to_string(),
    }
}

fn count_resources(v: &Value) -> usize {
    match v {
        Value::Resource(_, _) => 1,
        Value::Tuple(_, fields) => fields.iter().map(count_resources).sum(),
        Value::Function(_, caps) => caps.iter().map(count_resources).sum(),
        _ => 0,
    }
}

fn effect_text(e: &TestEffect) -> String {
    match e {
        TestEffect::Open(n) => format!("(open {})", n),
        TestEffect::Op(r, n) => format!("(use {} {})", r, n),
    }
}

fn event_text(e: &Event<TestEffect>, sender: Option<ProcessId>) -> String {
    match e {
        Event::SpawnAction {
            caller,
            captures,
            argument,
            ..
        } => {
            let mut s = format!("(spawn {} ? (", caller);
            for (i, c) in captures.iter().chain(std::iter::once(argument)).enumerate() {
                if i > 0 {
                    s.push(' ');
                }
                s.push_str(&value_text(c));
            }
            s.push_str("))");
            s
        }
        Event::DeliverAction {
            sender: from,
            target,
            message,
            ..
        } => {
            // the event names its sender (since cb9d796); the instruction trace must agree
            let _ = sender;
            format!("(send {} {} {})", target, value_text(message), from)
        }
        Event::ProcessTerminated { process_id } => format!("(terminated {})", process_id),
        Event::AwaitAction { awaiter, targets } => {
            let t: Vec<String> = targets.iter().map(|t| t.to_string()).collect();
            format!("(await {} ({}))", awaiter, t.join(" "))
        }
        Event::ProcessResults { awaiter, results } => {
            let mut done: Vec<ProcessId> = results
                .iter()
                .filter(|(_, r)| r.is_some())
                .map(|(p, _)| *p)
                .collect();
            done.sort_unstable();
            let t: Vec<String> = done.iter().map(|t| t.to_string()).collect();
            format!("(results {} ({}))", awaiter, t.join(" "))
        }
        Event::EffectRequest { process_id, effect } => {
            format!("(eff {} {})", process_id, effect_text(effect))
        }
        _ => "(other)".to_string(),
    }
}

impl WorkerHandle<TestEffect> for Handle {
    fn send(&mut self, command: Command<TestEffect>) -> Result<(), EnvironmentError> {
        let mut s = self.0.lock().unwrap();
        if let Command::SpawnProcess { id, .. } = &command {
            s.spawned = Some(*id);
        }
        if let Command::WatchProcess { process_id } = &command {
            s.watches.push(*process_id);
        }
        s.cmd[self.1].push_back(command);
        Ok(())
    }
    fn try_recv(&mut self) -> Result<Option<Event<TestEffect>>, EnvironmentError> {
        let mut s = self.0.lock().unwrap();
        if s.release_event == Some(self.1) {
            s.release_event = None;
            let e = s.evt[self.1].pop_front();
            if let Some((ev, sender)) = &e {
                s.event_text = Some(event_text(ev, *sender));
            }
            return Ok(e.map(|(ev, _)| ev));
        }
        Ok(None)
    }
}

// ------------------------------------------------------------------ instrumented backend

struct Backend(Shared);

fn completion_text(r: &EffectResult) -> String {
    match r {
        Ok((Value::Resource(rid, _), _)) => format!("(res {})", rid),
        Ok(_) => "o".to_string(),
        Err(_) => "err".to_string(),
    }
}

impl EffectBackend for Backend {
    type E = TestEffect;

    fn execute(&mut self, pid: ProcessId, effect: TestEffect) -> Result<Option<EffectResult>, Error> {
        let mut s = self.0.lock().unwrap();
        let etext = effect_text(&effect);
        let (mode, creates, known) = match &effect {
            TestEffect::Open(n) => (n % 4, true, true),
            TestEffect::Op(r, n) => (n % 4, *n >= ACCEPT, s.open.contains(r)),
        };
        if !known {
            s.calls.push(format!("(exec {} {} (fail))", pid, etext));
            let rid = match effect {
                TestEffect::Op(r, _) => r,
                TestEffect::Open(_) => 0,
            };
            return Err(Error::InvalidArgument(format!("Resource {} not found", rid)));
        }
        if mode == 3 {
            s.calls.push(format!("(exec {} {} (fail))", pid, etext));
            return Err(Error::InvalidArgument("injected submission failure".to_string()));
        }
        let result: EffectResult = if mode == 2 {
            Err(EffectError::IO("injected failure".to_string()))
        } else if creates {
            s.next_rid += 1;
            let rid = s.next_rid;
            s.open.insert(rid);
            Ok((Value::Resource(rid, s.res_type), vec![]))
        } else {
            Ok((Value::Integer(7.into()), vec![]))
        };
        let text = completion_text(&result);
        if mode == 1 {
            s.calls.push(format!("(exec {} {} (async))", pid, etext));
            s.pending.push_back(Pending { pid, result, text });
            Ok(None)
        } else {
            s.calls.push(format!("(exec {} {} (now {}))", pid, etext, text));
            Ok(Some(result))
        }
    }

    fn process_completions(&mut self) -> Vec<(ProcessId, EffectResult)> {
        let mut s = self.0.lock().unwrap();
        if s.release_completion {
            s.release_completion = false;
            if let Some(p) = s.pending.pop_front() {
                s.event_text = Some(format!("(complete {} {})", p.pid, p.text));
                return vec![(p.pid, p.result)];
            }
        }
        vec![]
    }

    fn close_resource(&mut self, resource_id: ResourceId) {
        let mut s = self.0.lock().unwrap();
        s.open.remove(&resource_id);
        s.calls.push(format!("(close {})", resource_id));
    }

    fn set_type_ids(&mut self, resources: &[String], _results: &[(String, ResultTupleInfo)]) {
        if let Some(i) = resources.iter().position(|n| n == "TestRes") {
            self.0.lock().unwrap().res_type = i;
        }
    }
}

// ------------------------------------------------------------------ scheduler

struct Rng(u64);
impl Rng {
    fn next(&mut self) -> u64 {
        // splitmix64
        self.0 = self.0.wrapping_add(0x9E37_79B9_7F4A_7C15);
        let mut z = self.0;
        z = (z ^ (z >> 30)).wrapping_mul(0xBF58_476D_1CE4_E5B9);
        z = (z ^ (z >> 27)).wrapping_mul(0x94D0_49BB_1331_11EB);
        z ^ (z >> 31)
    }
    fn below(&mut self, n: usize) -> usize {
        if n == 0 { 0 } else { (self.next() % n as u64) as usize }
    }
}

#[derive(Clone, Copy)]
enum Act {
    W(usize),
    E(usize),
    C,
}

fn own_text(env: &Environment<TestEffect>) -> String {
    let d = env.verif_dump();
    let items: Vec<String> = d
        .resource_ownership
        .iter()
        .map(|(r, p)| format!("({} {})", r, p))
        .collect();
    format!("(own {})", items.join(" ")).replace("(own )", "(own)")
}

type Wk = Worker<TestEffect, Rx, Tx>;

fn run_once(bytecode: Bytecode, nworkers: usize, seed: u64) -> String {
    let mut rng = Rng(seed.wrapping_mul(0x2545_F491_4F6C_DD1D) ^ 0xC14);
    // schedule parameters
    let quantum = [1usize, 2, 3, 5, 8, 20, 1000][rng.below(7)];
    let mode = rng.below(4); // 0 fair, 1 workers first, 2 environment first, 3 completions late
    let partial_cmds = rng.below(3) == 0;
    verif::set_quantum(quantum);
    verif::set_tracing(true);

    let shared: Shared = Arc::new(Mutex::new(Sim::default()));
    {
        let mut s = shared.lock().unwrap();
        s.cmd = (0..nworkers).map(|_| VecDeque::new()).collect();
        s.evt = (0..nworkers).map(|_| VecDeque::new()).collect();
    }
    let registry = own_registry();
    let mut workers: Vec<Wk> = Vec::new();
    let mut handles: Vec<Box<dyn WorkerHandle<TestEffect>>> = Vec::new();
    for i in 0..nworkers {
        workers.push(Worker::new(
            Rx(shared.clone(), i),
            Tx(shared.clone(), i),
            registry.clone(),
            false,
            i as u16,
        ));
        handles.push(Box::new(Handle(shared.clone(), i)));
    }
    let mut env = Environment::<TestEffect>::new(handles);
    env.set_effect_backend(Box::new(Backend(shared.clone())));
    let mut steps: Vec<String> = Vec::new();
    let mut end = "limit".to_string();
    let root = match env.start_process(Some(bytecode)) {
        Ok(p) => p,
        Err(e) => return format!("(run (sched {}) (end (env-error {:?})))", seed, e).replace('\n', " "),
    };
    if let Err(e) = env.request_result(root, None) {
        return format!("(run (sched {}) (end (env-error {:?})))", seed, e).replace('\n', " ");
    }
    let mut terminated: BTreeSet<ProcessId> = BTreeSet::new();

    for _tick in 0..20_000usize {
        // enabled actions
        let mut acts: Vec<Act> = Vec::new();
        {
            let s = shared.lock().unwrap();
            for i in 0..nworkers {
                if !s.cmd[i].is_empty() || workers[i].has_runnable() {
                    acts.push(Act::W(i));
                }
            }
            let mut env_acts = Vec::new();
            for j in 0..nworkers {
                if !s.evt[j].is_empty() {
                    env_acts.push(Act::E(j));
                }
            }
            let has_c = !s.pending.is_empty();
            match mode {
                1 if !acts.is_empty() && rng.below(8) != 0 => {}
                2 if !env_acts.is_empty() && rng.below(8) != 0 => {
                    acts.clear();
                    acts.extend(env_acts);
                    if has_c {
                        acts.push(Act::C);
                    }
                }
                3 => {
                    acts.extend(env_acts);
                    if has_c && (acts.is_empty() || rng.below(10) == 0) {
                        acts.push(Act::C);
                    }
                }
                _ => {
                    acts.extend(env_acts);
                    if has_c {
                        acts.push(Act::C);
                    }
                }
            }
        }
        if acts.is_empty() {
            end = "quiescent".to_string();
            break;
        }
        match acts[rng.below(acts.len())] {
            Act::W(i) => {
                {
                    let mut s = shared.lock().unwrap();
                    let queued = s.cmd[i].len();
                    s.cmd_budget = if partial_cmds && queued > 1 && rng.below(2) == 0 {
                        Some(1 + rng.below(queued - 1))
                    } else {
                        None
                    };
                }
                let before = shared.lock().unwrap().evt[i].len();
                let r = workers[i].step(0);
                // the Send instruction executed in this step (at most one action per step) names
                // the sender of the DeliverAction it produced (the event itself has no sender)
                let sender = verif::take_trace()
                    .iter()
                    .rev()
                    .find(|t| matches!(t.instruction, quiver_core::bytecode::Instruction::Send))
                    .map(|t| t.pid);
                {
                    let mut s = shared.lock().unwrap();
                    s.cmd_budget = None;
                    for (ev, from) in s.evt[i].iter_mut().skip(before) {
                        if matches!(ev, Event::DeliverAction { .. }) {
                            *from = sender;
                        }
                    }
                }
                if let Err(e) = r {
                    end = format!("(env-error worker {:?})", e).replace('\n', " ");
                    break;
                }
                // newly terminated processes on this worker: the result is set (a persistent
                // process with an Ok result is only sleeping). The status is NOT used: a process
                // whose result was set by a failed effect completion / a failed awaited process is
                // still listed in a queue or waiting set.
                let ex = workers[i].verif_executor();
                let mut pids: Vec<ProcessId> = ex.get_process_statuses().into_keys().collect();
                pids.sort_unstable();
                for p in pids {
                    let done = match ex.get_process(p) {
                        Some(pr) => match &pr.result {
                            Some(Err(_)) => true,
                            Some(Ok(_)) => !pr.persistent,
                            None => false,
                        },
                        None => false,
                    };
                    if done && terminated.insert(p) {
                        steps.push(format!("(term {})", p));
                    }
                }
            }
            act @ (Act::E(_) | Act::C) => {
                {
                    let mut s = shared.lock().unwrap();
                    s.event_text = None;
                    s.calls.clear();
                    s.spawned = None;
                    s.watches.clear();
                    match act {
                        Act::E(j) => s.release_event = Some(j),
                        _ => s.release_completion = true,
                    }
                }
                let r = env.step();
                let mut s = shared.lock().unwrap();
                s.release_event = None;
                s.release_completion = false;
                let mut ev = s.event_text.take().unwrap_or_else(|| "(none)".to_string());
                if let Some(child) = s.spawned {
                    ev = ev.replacen('?', &child.to_string(), 1);
                }
                let watches: Vec<String> = s.watches.iter().map(|p| p.to_string()).collect();
                steps.push(
                    format!("(ev {} (calls {}) (watch {}) {})", ev, s.calls.join(" "), watches.join(" "), own_text(&env))
                        .replace("(calls )", "(calls)")
                        .replace("(watch )", "(watch)"),
                );
                if let Err(e) = r {
                    end = format!("(env-error env {:?})", e).replace('\n', " ");
                    break;
                }
            }
        }
    }
    // final dump
    let d = env.verif_dump();
    let mut status = Vec::new();
    let mut mail = Vec::new();
    for (p, w) in &d.process_router {
        let ex = workers[*w].verif_executor();
        // result-based (see the termination note above); the executor's status only for live ones
        let st = match ex.get_process(*p).map(|pr| (&pr.result, pr.persistent)) {
            Some((Some(Err(_)), _)) => "failed",
            Some((Some(Ok(_)), false)) => "completed",
            Some((Some(Ok(_)), true)) => "sleeping",
            Some((None, _)) => match ex.get_process_statuses().get(p) {
                Some(ProcessStatus::Waiting) => "waiting",
                _ => "active",
            },
            None => "unstarted",
        };
        status.push(format!("({} {})", p, st));
        if let Some(proc_) = ex.get_process(*p) {
            let n: usize = proc_.mailbox.iter().map(count_resources).sum();
            if n > 0 {
                mail.push(format!("({} {})", p, n));
            }
        }
    }
    let router: Vec<String> = d.process_router.iter().map(|(p, w)| format!("({} {})", p, w)).collect();
    verif::set_quantum(0);
    verif::set_tracing(false);
    format!(
        "(run (sched {}) (quantum {}) (mode {}{}) (end {}) (steps {}) (final {} (status {}) (mail {}) (router {})))",
        seed,
        quantum,
        mode,
        if partial_cmds { "p" } else { "" },
        end,
        steps.join(" "),
        own_text(&env),
        status.join(" "),
        mail.join(" "),
        router.join(" ")
    )
}

fn section<'a>(items: &'a [Sexp], name: &str) -> Option<&'a Sexp> {
    for it in items {
        if let Sexp::List(l) = it
            && l.len() >= 2
            && matches!(&l[0], Sexp::Atom(a) if a == name)
        {
            return Some(&l[1]);
        }
    }
    None
}

fn main() {
    qvh::quiet_panics();
    for line in qvh::stdin_cases() {
        let case = sexp::parse(&line);
        let items = case.list().to_vec();
        let nworkers = section(&items, "workers").map(|s| s.usize()).unwrap_or(2).max(1);
        let seed = section(&items, "seed").map(|s| s.atom().parse::<u64>().unwrap_or(0)).unwrap_or(0);
        let nsched = section(&items, "nsched").map(|s| s.usize()).unwrap_or(1);
        let src = section(&items, "src").map(|s| s.atom().to_string()).unwrap_or_default();
        let compiled = guarded(move || compile(&src));
        let bytecode = match compiled {
            Err(loc) => {
                println!("(panic \"{}\")", loc);
                continue;
            }
            Ok(Compiled::Fail(s)) => {
                println!("{}", s);
                continue;
            }
            Ok(Compiled::Ok(b)) => b,
        };
        let mut out = String::from("(runs");
        for k in 0..nsched {
            let bc = bytecode.clone();
            let s = seed.wrapping_add(k as u64);
            match guarded(move || run_once(bc, nworkers, s)) {
                Ok(r) => {
                    out.push(' ');
                    out.push_str(&r);
                }
                Err(loc) => {
                    verif::set_quantum(0);
                    verif::set_tracing(false);
                    out.push_str(&format!(" (run (sched {}) (end (panic \"{}\")))", s, loc));
                }
            }
        }
        out.push(')');
        println!("{}", out);
    }
}
