//! qv_heap: drive REAL `Executor<TestEffect>`s directly (C06 — binary heap accounting).
//!
//! stdin, one case per line:
//!   (case (src "<quiver source>") (workers K) (quantum Q) (persistent 0|1) (sched n..) (repl (orphans k..)|(compact k..) ..) (trace 0|1))
//! The source is compiled as a top-level program; process 0 runs it on executor 0. The harness plays
//! the worker + environment roles exactly as worker.rs / environment.rs do (handle_action with the
//! bundled `extract_heap_data`, SpawnProcess -> `spawn_process`, NotifySpawn -> `notify_spawn`,
//! DeliverMessage -> `notify_message`, QueryAndAwait / UpdateAwaitResults -> `notify_result` or the
//! Err arm, check_completed_processes) over K executors and one FIFO event queue; `sched` picks, at
//! every tick, between delivering the head event and stepping one runnable executor. The
//! quantum is `verif::set_quantum(Q)`. After process 0 (persistent) completes, the `repl` operations
//! are applied the way `Worker::get_result` / `compact_locals` do.
//!
//! After EVERY operation the oracle runs on the touched executor (real code alone):
//!   * `check_refcounts()` is Ok                       (counted  <=> reachable)
//!   * no reachable slot is freed
//!   * shadow copy of every reachable binary's bytes (taken when first seen) is unchanged
//!   * exact count: refcounts[i] == number of occurrences of Heap(i) in all roots (+1 if cached
//!     constant) — the model's invariant RC, reported as `exact`, not as an oracle failure
//!   * orphan slots (count 0, not freed, not queued for freeing) are counted
//! A failure that is exactly explained by an overwrite-without-release of `awaiting[t]` /
//! `select_state.receiving` (finding F9) or of an `Ok` result by a propagated error is tagged.
//!
//! stdout, one line per case:  `<res-sexp>\t<trace-sexp>`
//!   res   = (res <status> (detail ..) (stats (k v)..))   status = ok | oracle | panic | compile | limit
//!   trace = (trace (prog ..) (workers K) <op> <dump> <op> <dump> ..)   (only with (trace 1); input of
//!           the extracted Coq model, coq/driver/heap_main.ml)
//!
//! `--env`: oracle-only mode on a real `Environment` + `Worker`s (+ the real `Repl` when the case has
//!   several `(src ..)` lines), stepped on this thread under `sched`; the oracle runs on
//!   `Worker::verif_executor()` after every worker step.
use quiver_core::bytecode::{Bytecode, Constant, Instruction};
use quiver_core::compatibility::{
    CompatibilityInput, compute_canonical_tuples, compute_param_compatibility,
    compute_type_compatibility,
};
use quiver_core::executor::verif;
use quiver_core::executor::ProgramUpdate;
use quiver_core::process::{Action, Process, ProcessId};
use quiver_core::value::{Binary, Value};
use quiver_core::{Error, Executor};
use quiver_core::bytecode::ConcreteType;
use qvh::sexp::{self, Sexp};
use qvh::{TestEffect, guarded, hex};
use std::collections::{BTreeMap, HashMap, HashSet, VecDeque};
use std::fmt::Write as _;

type Ex = Executor<TestEffect>;
type RuntimeResult = Result<(Value, Vec<Vec<u8>>), Error>;

// ------------------------------------------------------------------ value / state dumps

fn dv(v: &Value, o: &mut String) {
    match v {
        Value::Integer(n) => {
            let _ = write!(o, "(i {})", n);
        }
        Value::Binary(Binary::Heap(i)) => {
            let _ = write!(o, "(b {})", i);
        }
        Value::Binary(Binary::Constant(k)) => {
            let _ = write!(o, "(bc {})", k);
        }
        Value::Reference(r) => {
            let _ = write!(o, "(r {})", r);
        }
        Value::Tuple(t, fs) => {
            let _ = write!(o, "(t {}", t);
            for f in fs.iter() {
                o.push(' ');
                dv(f, o);
            }
            o.push(')');
        }
        Value::Function(f, cs) => {
            let _ = write!(o, "(f {}", f);
            for c in cs.iter() {
                o.push(' ');
                dv(c, o);
            }
            o.push(')');
        }
        Value::Builtin(b) => {
            let _ = write!(o, "(bi {})", b);
        }
        Value::Process(p, f) => {
            let _ = write!(o, "(p {} {})", p, f);
        }
        Value::Resource(r, t) => {
            let _ = write!(o, "(res {} {})", r, t);
        }
    }
}
fn dvs(tag: &str, vs: impl Iterator<Item = impl std::borrow::Borrow<Value>>, o: &mut String) {
    o.push('(');
    o.push_str(tag);
    for v in vs {
        o.push(' ');
        dv(v.borrow(), o);
    }
    o.push(')');
}
fn dheap(tag: &str, heap: &[Vec<u8>], o: &mut String) {
    o.push('(');
    o.push_str(tag);
    for h in heap {
        o.push_str(" x");
        o.push_str(&hex(h));
    }
    o.push(')');
}

fn occ(v: &Value, m: &mut BTreeMap<usize, i64>, k: i64) {
    match v {
        Value::Binary(Binary::Heap(i)) => *m.entry(*i).or_insert(0) += k,
        Value::Tuple(_, xs) | Value::Function(_, xs) => {
            for x in xs.iter() {
                occ(x, m, k)
            }
        }
        _ => {}
    }
}
fn has_refs(v: &Value) -> bool {
    let mut m = BTreeMap::new();
    occ(v, &mut m, 1);
    !m.is_empty()
}

/// every root of one process, as reachable_heap_indices (executor.rs:544) enumerates them
fn proc_roots(p: &Process, m: &mut BTreeMap<usize, i64>) {
    for v in &p.stack {
        occ(v, m, 1)
    }
    for v in &p.locals {
        occ(v, m, 1)
    }
    for v in &p.mailbox {
        occ(v, m, 1)
    }
    if let Some(Ok(v)) = &p.result {
        occ(v, m, 1)
    }
    if let Some(s) = &p.select_state {
        for v in &s.sources {
            occ(v, m, 1)
        }
        if let Some((_, v)) = &s.receiving {
            occ(v, m, 1)
        }
    }
    for v in p.awaiting.values().flatten() {
        occ(v, m, 1)
    }
}

fn dump_exec(ex: &Ex, o: &mut String) {
    let d = ex.verif_dump();
    o.push_str("(d (rc");
    for r in &d.refcounts {
        let _ = write!(o, " {}", r);
    }
    o.push_str(") (fr");
    for f in &d.freed {
        o.push_str(if *f { " 1" } else { " 0" });
    }
    o.push_str(") (free");
    for f in &d.free {
        let _ = write!(o, " {}", f);
    }
    o.push_str(") (pf");
    for f in &d.pending_free {
        let _ = write!(o, " {}", f);
    }
    o.push_str(") (cb");
    for c in &d.constant_binaries {
        match c {
            Some(i) => {
                let _ = write!(o, " {}", i);
            }
            None => o.push_str(" -"),
        }
    }
    o.push_str(") (hb");
    for (i, h) in d.heap_bytes.iter().enumerate() {
        if d.freed[i] {
            o.push_str(" -");
        } else {
            o.push_str(" x");
            o.push_str(&hex(h));
        }
    }
    o.push_str(") (procs");
    for (pid, frames) in &d.frames {
        let p = ex.get_process(*pid).unwrap();
        let _ = write!(o, " ({} ", pid);
        dvs("st", p.stack.iter(), o);
        o.push(' ');
        dvs("lo", p.locals.iter(), o);
        o.push_str(" (fs");
        for (f, b, c, pc) in frames {
            let _ = write!(o, " ({} {} {} {})", f, b, c, pc);
        }
        o.push_str(") ");
        dvs("mb", p.mailbox.iter(), o);
        match &p.result {
            None => o.push_str(" (res none)"),
            Some(Err(_)) => o.push_str(" (res err)"),
            Some(Ok(v)) => {
                o.push_str(" (res ");
                dv(v, o);
                o.push(')');
            }
        }
        match &p.select_state {
            None => o.push_str(" (sel none)"),
            Some(s) => {
                let _ = write!(o, " (sel {} {} ", s.frame, s.instruction);
                dvs("src", s.sources.iter(), o);
                o.push_str(" (cur");
                for c in &s.cursors {
                    let _ = write!(o, " {}", c);
                }
                o.push(')');
                match &s.receiving {
                    None => o.push_str(" (recv none)"),
                    Some((i, v)) => {
                        let _ = write!(o, " (recv {} ", i);
                        dv(v, o);
                        o.push(')');
                    }
                }
                match s.start_time {
                    None => o.push_str(" (t0 none)"),
                    Some(t) => {
                        let _ = write!(o, " (t0 {})", t);
                    }
                }
                o.push(')');
            }
        }
        let mut aw: Vec<_> = p.awaiting.iter().collect();
        aw.sort_by_key(|(k, _)| **k);
        o.push_str(" (aw");
        for (k, v) in aw {
            match v {
                None => {
                    let _ = write!(o, " ({} none)", k);
                }
                Some(v) => {
                    let _ = write!(o, " ({} ", k);
                    dv(v, o);
                    o.push(')');
                }
            }
        }
        o.push_str(") (ur");
        for t in &p.unreported_awaits {
            let _ = write!(o, " {}", t);
        }
        let _ = write!(o, ") (pers {}))", if p.persistent { 1 } else { 0 });
    }
    o.push_str("))");
}

fn ct(c: &ConcreteType) -> String {
    match c {
        ConcreteType::Integer => "(0 0)".into(),
        ConcreteType::Binary => "(1 0)".into(),
        ConcreteType::Reference => "(2 0)".into(),
        ConcreteType::Tuple(n) => format!("(3 {})", n),
        ConcreteType::Function(n) => format!("(4 {})", n),
        ConcreteType::Builtin(n) => format!("(5 {})", n),
        ConcreteType::Process(n) => format!("(6 {})", n),
        ConcreteType::Resource(n) => format!("(7 {})", n),
    }
}

fn instr(i: &Instruction) -> String {
    match i {
        Instruction::Constant(k) => format!("(constant {})", k),
        Instruction::Pop => "(pop)".into(),
        Instruction::Duplicate => "(dup)".into(),
        Instruction::Pick(n) => format!("(pick {})", n),
        Instruction::Rotate(n) => format!("(rotate {})", n),
        Instruction::Reset(n) => format!("(reset {})", n),
        Instruction::Load(n) => format!("(load {})", n),
        Instruction::Store => "(store)".into(),
        Instruction::Tuple(t) => format!("(tuple {})", t),
        Instruction::Get(n) => format!("(get {})", n),
        Instruction::IsType(t) => format!("(istype {})", t),
        Instruction::Jump(o) => format!("(jump {})", o),
        Instruction::JumpIf(o) => format!("(jumpif {})", o),
        Instruction::Call => "(call)".into(),
        Instruction::TailCall(r) => format!("(tailcall {})", if *r { 1 } else { 0 }),
        Instruction::Function(f) => format!("(function {})", f),
        Instruction::Builtin(b) => format!("(builtin {})", b),
        Instruction::Equal(n) => format!("(equal {})", n),
        Instruction::Not => "(not)".into(),
        Instruction::Spawn => "(spawn)".into(),
        Instruction::Send => "(send)".into(),
        Instruction::Self_ => "(self)".into(),
        Instruction::Select => "(select)".into(),
        Instruction::Process(p, f) => format!("(process {} {})", p, f),
    }
}

fn dump_prog(bc: &Bytecode, fparam: &[HashSet<ConcreteType>], bparam: &[HashSet<ConcreteType>]) -> String {
    let mut o = String::from("(prog (consts");
    for c in &bc.constants {
        match c {
            Constant::Integer(n) => {
                let _ = write!(o, " (i {})", n);
            }
            Constant::Binary(b) => {
                let _ = write!(o, " (b x{})", hex(b));
            }
        }
    }
    o.push_str(") (funcs");
    for f in &bc.functions {
        let _ = write!(o, " ({} (", f.captures);
        for (k, i) in f.instructions.iter().enumerate() {
            if k > 0 {
                o.push(' ');
            }
            o.push_str(&instr(i));
        }
        o.push_str("))");
    }
    o.push_str(") (tuples");
    for t in &bc.tuples {
        let _ = write!(o, " {}", t.fields.len());
    }
    let _ = write!(o, ") (nb {}) (fparam", bc.builtins.len());
    for s in fparam {
        let mut v: Vec<String> = s.iter().map(ct).collect();
        v.sort();
        let _ = write!(o, " ({})", v.join(" "));
    }
    o.push_str(") (bparam");
    for s in bparam {
        let mut v: Vec<String> = s.iter().map(ct).collect();
        v.sort();
        let _ = write!(o, " ({})", v.join(" "));
    }
    o.push_str("))");
    o
}

// ------------------------------------------------------------------ oracle

#[derive(Default)]
struct Stats {
    ops: usize,
    steps: usize,
    instructions: usize,
    processes: usize,
    transfers_with_binary: usize, // messages / results / spawn bundles carrying >= 1 heap binary
    cross_executor_transfers: usize,
    shared_between_processes: bool, // some slot reachable from >= 2 processes of one executor
    reused_slot: usize,             // allocations that reused a reclaimed slot
    reclaimed: usize,
    select_steps: usize,
    filter_calls: usize, // select_state.receiving was set by a step
    preempted: usize,    // a select completed through another source while a filter's message was held
    max_slots: usize,
    orphan_slots: usize,
    orphan_spawn: usize, // of which: first seen right after a spawn_process with a non-empty heap bundle (F46)
    f9_hits: usize,
    result_overwrite_hits: usize,
    repl_ops: usize,
    exact_mismatch: usize,
    sliced_or_concat: usize,
}

struct Oracle {
    shadow: HashMap<usize, Vec<u8>>,
    ledger: BTreeMap<usize, i64>, // counts leaked by tagged overwrites (F9 / result overwrite)
    orphans: HashSet<usize>,
}

/// What a tagged overwrite-without-release could have leaked in the operation just performed.
#[derive(Default)]
struct Suspects {
    f9: Vec<Value>,       // awaiting[t] / receiving values that the operation may have displaced
    res_over: Vec<Value>, // Ok results that the operation may have overwritten by an error
}

fn oracle(ex: &Ex, or: &mut Oracle, sus: &Suspects, st: &mut Stats, after_spawn: bool) -> Result<(), String> {
    let d = ex.verif_dump();
    let reach = ex.reachable_heap_indices();
    let mut roots = BTreeMap::new();
    let mut per_proc: Vec<HashSet<usize>> = vec![];
    for pid in &d.process_ids {
        let p = ex.get_process(*pid).unwrap();
        let mut m = BTreeMap::new();
        proc_roots(p, &mut m);
        per_proc.push(m.keys().copied().collect());
        for (k, v) in m {
            *roots.entry(k).or_insert(0) += v;
        }
    }
    for c in d.constant_binaries.iter().flatten() {
        *roots.entry(*c).or_insert(0) += 1;
    }
    // sharing statistic
    for i in 0..per_proc.len() {
        for j in i + 1..per_proc.len() {
            if per_proc[i].intersection(&per_proc[j]).next().is_some() {
                st.shared_between_processes = true;
            }
        }
    }
    st.max_slots = st.max_slots.max(d.refcounts.len());
    // exact count (modulo the ledger of tagged leaks); try to explain a new discrepancy
    let mut diff: BTreeMap<usize, i64> = BTreeMap::new();
    for i in 0..d.refcounts.len() {
        let want = roots.get(&i).copied().unwrap_or(0) + or.ledger.get(&i).copied().unwrap_or(0);
        let got = d.refcounts[i] as i64;
        if want != got {
            diff.insert(i, got - want);
        }
    }
    if !diff.is_empty() {
        // candidate explanations: any sub-multiset of suspects (they are few)
        let mut explained = false;
        let all: Vec<(&Value, bool)> = sus.f9.iter().map(|v| (v, true)).chain(sus.res_over.iter().map(|v| (v, false))).collect();
        let n = all.len().min(6);
        for mask in 1u32..(1 << n) {
            let mut m = BTreeMap::new();
            for (k, (v, _)) in all.iter().enumerate().take(n) {
                if mask & (1 << k) != 0 {
                    occ(v, &mut m, 1);
                }
            }
            m.retain(|_, v| *v != 0);
            if m == diff {
                for (k, (_, is_f9)) in all.iter().enumerate().take(n) {
                    if mask & (1 << k) != 0 {
                        if *is_f9 {
                            st.f9_hits += 1;
                        } else {
                            st.result_overwrite_hits += 1;
                        }
                    }
                }
                for (k, v) in &m {
                    *or.ledger.entry(*k).or_insert(0) += v;
                }
                explained = true;
                break;
            }
        }
        if !explained {
            st.exact_mismatch += 1;
            return Err(format!("exact-count (slot delta) {:?}", diff));
        }
    }
    // the code's own invariant, modulo the ledger
    for i in 0..d.refcounts.len() {
        let counted = d.refcounts[i] as i64 - or.ledger.get(&i).copied().unwrap_or(0) > 0;
        let live = reach.contains(&i);
        if counted != live {
            return Err(format!("iff slot {} refcount={} reachable={}", i, d.refcounts[i], live));
        }
    }
    if or.ledger.values().all(|v| *v == 0) {
        if let Err(e) = ex.check_refcounts() {
            return Err(format!("check_refcounts {}", e));
        }
    }
    for i in &reach {
        if *i >= d.freed.len() {
            return Err(format!("reachable slot {} beyond the heap", i));
        }
        if d.freed[*i] {
            return Err(format!("use-after-free slot {} reachable and freed", i));
        }
        match or.shadow.get(i) {
            Some(b) => {
                if *b != d.heap_bytes[*i] {
                    return Err(format!("bytes-changed slot {} was x{} now x{}", i, hex(b), hex(&d.heap_bytes[*i])));
                }
            }
            None => {
                or.shadow.insert(*i, d.heap_bytes[*i].clone());
            }
        }
    }
    or.shadow.retain(|k, _| reach.contains(k));
    // free-list sanity: free == {i | freed[i]}, no duplicates
    let fs: HashSet<usize> = d.free.iter().copied().collect();
    if fs.len() != d.free.len() {
        return Err("free list has duplicates".into());
    }
    for (i, f) in d.freed.iter().enumerate() {
        if *f != fs.contains(&i) {
            return Err(format!("free list / freed flag disagree at slot {}", i));
        }
    }
    // orphans: allocated, count 0, not queued: will never be reclaimed
    let pf: HashSet<usize> = d.pending_free.iter().copied().collect();
    for i in 0..d.refcounts.len() {
        if d.refcounts[i] == 0 && !d.freed[i] && !pf.contains(&i) && or.orphans.insert(i) {
            st.orphan_slots += 1;
            if after_spawn {
                st.orphan_spawn += 1;
            }
        }
    }
    or.orphans.retain(|i| *i < d.refcounts.len() && d.refcounts[*i] == 0 && !d.freed[*i]);
    Ok(())
}

// ------------------------------------------------------------------ the simulator

enum Ev {
    Spawn { caller: ProcessId, function_index: usize, captures: Vec<Value>, argument: Value, heap: Vec<Vec<u8>> },
    NotifySpawn { caller: ProcessId, pid: ProcessId, function_index: usize },
    Deliver { target: ProcessId, message: Value, heap: Vec<Vec<u8>> },
    Await { awaiter: ProcessId, targets: Vec<ProcessId> },
    Update { awaiter: ProcessId, results: Vec<(ProcessId, Option<RuntimeResult>)> },
}

struct Sim {
    ex: Vec<Ex>,
    or: Vec<Oracle>,
    owner: HashMap<ProcessId, usize>,
    next_pid: usize,
    events: VecDeque<Ev>,
    awaited: Vec<HashSet<ProcessId>>,
    awaiters_for: Vec<HashMap<ProcessId, Vec<ProcessId>>>,
    now: u64,
    trace: Option<String>,
    st: Stats,
    last_sus: (usize, usize), // suspects of the operation in flight (read if the real code panics)
}

fn update_of(bc: &Bytecode) -> (ProgramUpdate, Vec<HashSet<ConcreteType>>, Vec<HashSet<ConcreteType>>) {
    let input = CompatibilityInput {
        types: &bc.types,
        tuples: &bc.tuples,
        functions: &bc.functions,
        builtins: &bc.builtins,
        resource_names: &bc.resources,
    };
    let type_compatibility = compute_type_compatibility(&input);
    let canonical_tuples = compute_canonical_tuples(&bc.tuples);
    let (fp, bp) = compute_param_compatibility(&input);
    (
        ProgramUpdate {
            constants: bc.constants.clone(),
            functions: bc.functions.clone(),
            tuples: bc.tuples[2..].to_vec(),
            types: bc.types.clone(),
            builtins: bc.builtins.clone(),
            resources: bc.resources.clone(),
            type_compatibility,
            function_param_compatibility: fp.clone(),
            builtin_param_compatibility: bp.clone(),
            canonical_tuples,
        },
        fp,
        bp,
    )
}

impl Sim {
    fn emit(&mut self, op: &str, e: usize) {
        if let Some(t) = self.trace.as_mut() {
            t.push(' ');
            t.push_str(op);
            t.push(' ');
            dump_exec(&self.ex[e], t);
        }
    }
    fn check(&mut self, e: usize, sus: &Suspects, what: &str) -> Result<(), String> {
        self.st.ops += 1;
        oracle(&self.ex[e], &mut self.or[e], sus, &mut self.st, what == "spawn_process").map_err(|m| format!("{} after op#{} {} on executor {}", m, self.st.ops, what, e))
    }
    fn count_transfer(&mut self, heap: &[Vec<u8>], cross: bool) {
        if !heap.is_empty() {
            self.st.transfers_with_binary += 1;
            if cross {
                self.st.cross_executor_transfers += 1;
            }
        }
    }

    /// worker.rs handle_action (322): the executor's routing request becomes an event
    /// "no live value refers to a reclaimed slot": the values carried by a routing request that has
    /// just left `step` are live (the worker is about to extract them)
    fn in_flight_live(&self, e: usize, vs: &[&Value], what: &str) -> Result<(), String> {
        let d = self.ex[e].verif_dump();
        let mut m = BTreeMap::new();
        for v in vs {
            occ(v, &mut m, 1);
        }
        for i in m.keys() {
            if *i >= d.freed.len() || d.freed[*i] {
                return Err(format!(
                    "use-after-free: the {} request leaving step() on executor {} carries heap slot {} which is already reclaimed ({} slots referenced by the payload)",
                    what, e, i, m.len()
                ));
            }
        }
        Ok(())
    }

    fn handle_action(&mut self, e: usize, action: Action<TestEffect>) -> Result<(), String> {
        match &action {
            Action::Spawn { captures, argument, .. } => {
                let mut vs: Vec<&Value> = captures.iter().collect();
                vs.push(argument);
                self.in_flight_live(e, &vs, "Spawn")?;
            }
            Action::Deliver { value, .. } => self.in_flight_live(e, &[value], "Deliver")?,
            _ => {}
        }
        match action {
            Action::Spawn { caller, function_index, captures, argument } => {
                let n = captures.len();
                let mut bundle = captures;
                bundle.push(argument);
                let whole = Value::tuple(quiver_core::types::NIL, bundle);
                let (extracted, heap) = self.ex[e].extract_heap_data(&whole).map_err(|x| format!("extract {:?}", x))?;
                self.emit_extract(e, &whole, &extracted, &heap);
                let mut caps = match extracted {
                    Value::Tuple(_, f) => (*f).clone(),
                    _ => unreachable!(),
                };
                let arg = caps.pop().unwrap();
                assert_eq!(caps.len(), n);
                self.events.push_back(Ev::Spawn { caller, function_index, captures: caps, argument: arg, heap });
            }
            Action::Deliver { target, value, .. } => {
                let (message, heap) = self.ex[e].extract_heap_data(&value).map_err(|x| format!("extract {:?}", x))?;
                self.emit_extract(e, &value, &message, &heap);
                self.events.push_back(Ev::Deliver { target, message, heap });
            }
            Action::Await { caller, targets } => self.events.push_back(Ev::Await { awaiter: caller, targets }),
            Action::RequestEffect { .. } => return Err("effect requested (not generated)".into()),
        }
        Ok(())
    }
    fn emit_extract(&mut self, e: usize, v: &Value, x: &Value, heap: &[Vec<u8>]) {
        if self.trace.is_some() {
            let mut o = String::from("(extract ");
            let _ = write!(o, "{} ", e);
            dv(v, &mut o);
            o.push(' ');
            dv(x, &mut o);
            o.push(' ');
            dheap("heap", heap, &mut o);
            o.push(')');
            self.emit(&o, e);
        }
    }

    /// worker.rs extract_completed_result (770)
    fn completed_result(&self, e: usize, pid: ProcessId) -> Result<Option<RuntimeResult>, String> {
        if let Some(p) = self.ex[e].get_process(pid)
            && let Some(r) = &p.result
        {
            return Ok(Some(match r {
                Ok(v) => Ok(self.ex[e].extract_heap_data(v).map_err(|x| format!("extract {:?}", x))?),
                Err(x) => Err(x.clone()),
            }));
        }
        Ok(None)
    }

    /// worker.rs check_completed_processes (792), awaited part
    fn check_completed(&mut self, e: usize) -> Result<(), String> {
        let mut pids: Vec<ProcessId> = self.awaited[e].iter().copied().collect();
        pids.sort_unstable();
        for pid in pids {
            if let Some(result) = self.completed_result(e, pid)? {
                if let Some(aws) = self.awaiters_for[e].remove(&pid) {
                    for a in aws {
                        self.events.push_back(Ev::Update { awaiter: a, results: vec![(pid, Some(result.clone()))] });
                    }
                }
                self.awaited[e].remove(&pid);
            }
        }
        Ok(())
    }

    fn deliver(&mut self, ev: Ev) -> Result<(), String> {
        match ev {
            Ev::Spawn { caller, function_index, captures, argument, heap } => {
                let pid = self.next_pid;
                self.next_pid += 1;
                let e = pid % self.ex.len();
                self.owner.insert(pid, e);
                self.st.processes += 1;
                let cross = self.owner[&caller] != e;
                self.count_transfer(&heap, cross);
                let mut o = String::new();
                if self.trace.is_some() {
                    let _ = write!(o, "(spawn {} {} {} 0 ", e, pid, function_index);
                    dvs("caps", captures.iter(), &mut o);
                    o.push(' ');
                    dv(&argument, &mut o);
                    o.push(' ');
                    dheap("heap", &heap, &mut o);
                    o.push(')');
                }
                self.ex[e]
                    .spawn_process(pid, Some(function_index), captures, argument, heap, false)
                    .map_err(|x| format!("spawn_process {:?}", x))?;
                self.emit(&o, e);
                self.check(e, &Suspects::default(), "spawn_process")?;
                self.events.push_back(Ev::NotifySpawn { caller, pid, function_index });
            }
            Ev::NotifySpawn { caller, pid, function_index } => {
                let e = self.owner[&caller];
                self.ex[e].notify_spawn(caller, Value::Process(pid, function_index));
                let o = format!("(nspawn {} {} (p {} {}))", e, caller, pid, function_index);
                self.emit(&o, e);
                self.check(e, &Suspects::default(), "notify_spawn")?;
            }
            Ev::Deliver { target, message, heap } => {
                let Some(&e) = self.owner.get(&target) else { return Ok(()) };
                self.count_transfer(&heap, true);
                let mut o = String::new();
                if self.trace.is_some() {
                    let _ = write!(o, "(msg {} {} ", e, target);
                    dv(&message, &mut o);
                    o.push(' ');
                    dheap("heap", &heap, &mut o);
                    o.push(')');
                }
                self.ex[e].notify_message(target, message, heap).map_err(|x| format!("notify_message {:?}", x))?;
                self.emit(&o, e);
                self.check(e, &Suspects::default(), "notify_message")?;
            }
            Ev::Await { awaiter, targets } => {
                // environment.rs handle_await_processes + worker.rs query_and_await (480), merged
                let mut results = vec![];
                for t in &targets {
                    let Some(&e) = self.owner.get(t) else { return Err(format!("await of unknown process {}", t)) };
                    match self.completed_result(e, *t)? {
                        Some(r) => results.push((*t, Some(r))),
                        None => {
                            self.awaited[e].insert(*t);
                            self.awaiters_for[e].entry(*t).or_default().push(awaiter);
                            results.push((*t, None));
                        }
                    }
                }
                self.events.push_back(Ev::Update { awaiter, results });
            }
            Ev::Update { awaiter, results } => {
                // worker.rs update_await_results (539) / notify_result (564)
                let e = self.owner[&awaiter];
                let mut any = false;
                // worker.rs update_await_results (8388832): the state of every process in the answer
                // is known now, completed or not
                {
                    let reported: Vec<ProcessId> = results.iter().map(|(t, _)| *t).collect();
                    self.ex[e].notify_await_report(awaiter, &reported);
                    let ts: Vec<String> = reported.iter().map(|t| t.to_string()).collect();
                    let o = format!("(report {} {} (t {}))", e, awaiter, ts.join(" "));
                    self.emit(&o, e);
                    self.check(e, &Suspects::default(), "notify_await_report")?;
                }
                for (awaited, r) in results {
                    let Some(r) = r else { continue };
                    any = true;
                    let mut sus = Suspects::default();
                    if let Some(p) = self.ex[e].get_process(awaiter) {
                        match &r {
                            Ok(_) => {
                                if let Some(Some(old)) = p.awaiting.get(&awaited) {
                                    sus.f9.push(old.clone());
                                }
                            }
                            Err(_) => {
                                if let Some(Ok(old)) = &p.result {
                                    sus.res_over.push(old.clone());
                                }
                            }
                        }
                    }
                    match r {
                        Ok((value, heap)) => {
                            self.count_transfer(&heap, true);
                            let mut o = String::new();
                            if self.trace.is_some() {
                                let _ = write!(o, "(result {} {} {} ", e, awaiter, awaited);
                                dv(&value, &mut o);
                                o.push(' ');
                                dheap("heap", &heap, &mut o);
                                o.push(')');
                            }
                            self.ex[e].notify_result(awaiter, awaited, value, heap).map_err(|x| format!("notify_result {:?}", x))?;
                            self.emit(&o, e);
                            self.check(e, &sus, "notify_result")?;
                        }
                        Err(error) => {
                            // worker.rs notify_result Err arm (09625d4): only an awaiter that still
                            // awaits the failed process is failed; a stale failure only wakes it
                            match self.ex[e].get_process_mut(awaiter) {
                                Some(p) if p.awaiting.contains_key(&awaited) => {
                                    p.result = Some(Err(error));
                                    p.frames.clear();
                                }
                                _ => self.ex[e].wake_selecting(awaiter),
                            }
                            let o = format!("(fail {} {} {})", e, awaiter, awaited);
                            self.emit(&o, e);
                            self.check(e, &sus, "notify_result(Err)")?;
                        }
                    }
                }
                if !any {
                    self.ex[e].wake_selecting(awaiter); // update_await_results (09625d4)
                }
            }
        }
        Ok(())
    }

    fn step(&mut self, e: usize) -> Result<(), String> {
        let before = self.ex[e].verif_dump();
        let front = before.queue.first().copied();
        // suspects for tagged overwrites (F9): read the pre-state of the process about to run
        let mut sus = Suspects::default();
        let mut pre_recv: Option<(usize, Value)> = None;
        if let Some(pid) = front
            && let Some(p) = self.ex[e].get_process(pid)
        {
            for v in p.awaiting.values().flatten() {
                if has_refs(v) {
                    sus.f9.push(v.clone());
                }
            }
            if let Some(s) = &p.select_state
                && let Some((i, v)) = &s.receiving
            {
                pre_recv = Some((*i, v.clone()));
                if has_refs(v) {
                    sus.f9.push(v.clone());
                }
            }
        }
        // a completing process propagates an error to awaiters: their Ok results may be overwritten
        for pid in &before.process_ids {
            if let Some(p) = self.ex[e].get_process(*pid)
                && let Some(Ok(v)) = &p.result
                && has_refs(v)
                && !p.awaiting.is_empty()
            {
                sus.res_over.push(v.clone());
            }
        }
        let now = self.now;
        self.last_sus = (sus.f9.len(), sus.res_over.len());
        let (_did, action) = self.ex[e].step(1000, now);
        self.last_sus = (0, 0);
        let tr = verif::take_trace();
        self.st.steps += 1;
        self.st.instructions += tr.len();
        let pid = tr.first().map(|t| t.pid).or(front);
        let after = self.ex[e].verif_dump();
        // statistics
        let mut allocs = vec![];
        {
            let pending0: HashSet<usize> = before.pending_free.iter().copied().filter(|i| before.refcounts[*i] == 0).collect();
            for i in 0..after.refcounts.len() {
                if !after.freed[i] && (i >= before.refcounts.len() || before.freed[i] || pending0.contains(&i)) {
                    allocs.push(i);
                    if i < before.refcounts.len() {
                        self.st.reused_slot += 1;
                    }
                }
            }
            for i in 0..before.refcounts.len() {
                if !before.freed[i] && (after.freed[i] || (pending0.contains(&i) && allocs.contains(&i))) {
                    self.st.reclaimed += 1;
                }
            }
        }
        for t in &tr {
            if matches!(t.instruction, Instruction::Select) {
                self.st.select_steps += 1;
            }
        }
        if let Some(pid) = pid
            && let Some(p) = self.ex[e].get_process(pid)
            && let Some(s) = &p.select_state
            && let Some((i, v)) = &s.receiving
            && pre_recv.as_ref().map(|(j, w)| (j, w)) != Some((i, v))
        {
            self.st.filter_calls += 1;
        }
        if let Some(pid) = pid
            && let Some((_, held)) = &pre_recv
            && let Some(p) = self.ex[e].get_process(pid)
            && p.select_state.is_none()
            && p.result.is_none()
            && p.stack.last() != Some(held)
        {
            self.st.preempted += 1;
        }
        if self.trace.is_some() {
            let mut o = String::new();
            match pid {
                Some(pid) => {
                    let _ = write!(o, "(step {} {} {} ", e, pid, now);
                }
                None => {
                    let _ = write!(o, "(step {} none {} ", e, now);
                }
            }
            let _ = write!(o, "(n {}) ", tr.len());
            let p = pid.and_then(|p| self.ex[e].get_process(p));
            match p.and_then(|p| p.stack.last()) {
                Some(v) => {
                    o.push_str("(x ");
                    dv(v, &mut o);
                    o.push(')');
                    let _ = write!(o, " (xb {})", if v.is_ok() { 1 } else { 0 });
                }
                None => o.push_str("(x none) (xb 0)"),
            }
            let errd = matches!(p.and_then(|p| p.result.as_ref()), Some(Err(_)));
            let _ = write!(o, " (err {}) (allocs", if errd { 1 } else { 0 });
            for i in &allocs {
                let _ = write!(o, " ({} x{})", i, hex(&after.heap_bytes[*i]));
            }
            o.push_str("))");
            self.emit(&o, e);
        }
        self.check(e, &sus, "step")?;
        if let Some(a) = action {
            self.handle_action(e, a)?;
        }
        self.check_completed(e)?;
        Ok(())
    }
}

struct Case {
    src: Vec<String>,
    workers: usize,
    quantum: usize,
    persistent: bool,
    sched: Vec<usize>,
    repl: Vec<(String, Vec<usize>)>,
    trace: bool,
    max_ops: usize,
    clock: u64, // virtual milliseconds added after every scheduler tick (0: time moves only when idle)
}

fn parse_case(line: &str) -> Case {
    let s = sexp::parse(line);
    let mut c = Case { src: vec![], workers: 1, quantum: 1, persistent: false, sched: vec![0], repl: vec![], trace: false, max_ops: 6000, clock: 0 };
    for it in s.args() {
        match it.head() {
            "src" => c.src.push(it.args()[0].atom().to_string()),
            "workers" => c.workers = it.args()[0].usize().max(1),
            "quantum" => c.quantum = it.args()[0].usize(),
            "persistent" => c.persistent = it.args()[0].usize() != 0,
            "sched" => c.sched = it.args().iter().map(|x| x.usize()).collect(),
            "trace" => c.trace = it.args()[0].usize() != 0,
            "maxops" => c.max_ops = it.args()[0].usize(),
            "clock" => c.clock = it.args()[0].usize() as u64,
            "repl" => {
                for r in it.args() {
                    c.repl.push((r.head().to_string(), r.args().iter().map(|x| x.usize()).collect()));
                }
            }
            _ => {}
        }
    }
    if c.sched.is_empty() {
        c.sched = vec![0];
    }
    c
}

fn stats_sexp(st: &Stats, extra: &str) -> String {
    format!(
        "(stats (ops {}) (steps {}) (instructions {}) (processes {}) (transfers {}) (cross {}) (shared {}) (reused {}) (reclaimed {}) (selects {}) (filters {}) (preempted {}) (slots {}) (orphans {}) (orphans-spawn {}) (f9 {}) (resover {}) (repl {}){})",
        st.ops,
        st.steps,
        st.instructions,
        st.processes,
        st.transfers_with_binary,
        st.cross_executor_transfers,
        if st.shared_between_processes { 1 } else { 0 },
        st.reused_slot,
        st.reclaimed,
        st.select_steps,
        st.filter_calls,
        st.preempted,
        st.max_slots,
        st.orphan_slots,
        st.orphan_spawn,
        st.f9_hits,
        st.result_overwrite_hits,
        st.repl_ops,
        extra
    )
}

fn run_direct(c: &Case) -> String {
    let src = c.src[0].clone();
    let compiled = match guarded(move || qvh::compile_source(&src, HashMap::new())) {
        Err(loc) => return format!("(res compile (detail (panic \"{}\")) (stats))\t(trace)", loc),
        Ok(Err(e)) => return format!("(res compile (detail {}) (stats))\t(trace)", e.line()),
        Ok(Ok(c)) => c,
    };
    let bc = compiled.program.to_bytecode(Some(compiled.entry));
    let entry = compiled.entry;
    let (update, fp, bp) = update_of(&bc);
    let mut sim = Sim {
        ex: vec![],
        or: vec![],
        owner: HashMap::new(),
        next_pid: 1,
        events: VecDeque::new(),
        awaited: vec![],
        awaiters_for: vec![],
        now: 0,
        last_sus: (0, 0),
        trace: if c.trace { Some(format!("(trace {} (workers {})", dump_prog(&bc, &fp, &bp), c.workers)) } else { None },
        st: Stats::default(),
    };
    for i in 0..c.workers {
        let mut ex = Executor::new(qvh::registry(), false, i as u16);
        ex.update_program(update.clone());
        sim.ex.push(ex);
        sim.or.push(Oracle { shadow: HashMap::new(), ledger: BTreeMap::new(), orphans: HashSet::new() });
        sim.awaited.push(HashSet::new());
        sim.awaiters_for.push(HashMap::new());
    }
    verif::set_quantum(c.quantum);
    verif::set_tracing(true);
    let _ = verif::take_trace();
    let persistent = c.persistent;
    let sched = c.sched.clone();
    let repl = c.repl.clone();
    let max_ops = c.max_ops;
    let clock = c.clock;
    let mut status = String::from("ok");
    let mut detail = String::new();
    let r = guarded(|| -> Result<(), String> {
        sim.owner.insert(0, 0);
        sim.st.processes = 1;
        sim.ex[0].spawn_process(0, Some(entry), vec![], Value::nil(), vec![], persistent).map_err(|x| format!("{:?}", x))?;
        let o = format!("(spawn 0 0 {} {} (caps) (t 0) (heap))", entry, if persistent { 1 } else { 0 });
        sim.emit(&o, 0);
        sim.check(0, &Suspects::default(), "spawn_process")?;
        let mut cur = 0usize;
        let mut ticks = 0usize;
        loop {
            ticks += 1;
            if sim.st.ops > max_ops || ticks > 4 * max_ops {
                return Err("LIMIT".into());
            }
            let mut cands: Vec<isize> = vec![];
            if !sim.events.is_empty() {
                cands.push(-1);
            }
            for e in 0..sim.ex.len() {
                if sim.ex[e].has_runnable() || sim.ex[e].next_timeout_ms().is_some_and(|t| t <= sim.now) {
                    cands.push(e as isize);
                }
            }
            if cands.is_empty() {
                let t = sim.ex.iter().filter_map(|x| x.next_timeout_ms()).min();
                match t {
                    Some(t) => {
                        sim.now = if t > sim.now { t } else { sim.now + 1 };
                        continue;
                    }
                    None => break,
                }
            }
            let pick = cands[sched[cur % sched.len()] % cands.len()];
            cur += 1;
            if pick < 0 {
                let ev = sim.events.pop_front().unwrap();
                sim.deliver(ev)?;
            } else {
                sim.step(pick as usize)?;
            }
            sim.now += clock;
        }
        // REPL-style operations on the sleeping persistent process (worker.rs get_result 628 /
        // compact_locals 733), then one more step so that queued slots are reclaimed
        if persistent && matches!(sim.ex[0].get_process(0).and_then(|p| p.result.as_ref()), Some(Ok(_))) {
            for (kind, ks) in &repl {
                let n = sim.ex[0].get_process(0).unwrap().locals.len();
                let keep: Vec<usize> = {
                    let mut k: Vec<usize> = ks.iter().map(|x| if n == 0 { 0 } else { x % n }).collect();
                    k.sort_unstable();
                    k.dedup();
                    if n == 0 { vec![] } else { k }
                };
                sim.st.repl_ops += 1;
                let ks_s: Vec<String> = keep.iter().map(|x| x.to_string()).collect();
                if kind == "orphans" {
                    sim.ex[0].release_orphan_locals(0, &keep);
                    let o = format!("(orphans 0 0 (keep {}))", ks_s.join(" "));
                    sim.emit(&o, 0);
                    sim.check(0, &Suspects::default(), "release_orphan_locals")?;
                } else {
                    let p = sim.ex[0].get_process(0).unwrap();
                    let new_locals: Vec<Value> = keep.iter().map(|i| p.locals[*i].clone()).collect();
                    sim.ex[0].replace_locals(0, new_locals);
                    let o = format!("(replace 0 0 (keep {}))", ks_s.join(" "));
                    sim.emit(&o, 0);
                    sim.check(0, &Suspects::default(), "replace_locals")?;
                }
                sim.step(0)?;
            }
        }
        // final quiescent step on every executor: everything queued is reclaimed
        for e in 0..sim.ex.len() {
            sim.step(e)?;
        }
        Ok(())
    });
    match r {
        Ok(Ok(())) => {}
        Ok(Err(m)) if m == "LIMIT" => status = "limit".into(),
        Ok(Err(m)) => {
            status = "oracle".into();
            detail = m;
        }
        Err(loc) => {
            status = "panic".into();
            detail = format!("{} {}", loc, PANIC_MSG.with(|m| m.borrow().clone()));
        }
    }
    let main_res = match sim.ex[0].get_process(0).and_then(|p| p.result.as_ref()) {
        Some(Ok(_)) => "ok",
        Some(Err(_)) => "err",
        None => "blocked",
    };
    let ledger_open = sim.or.iter().any(|o| o.ledger.values().any(|v| *v != 0));
    let extra = format!(
        " (main {}) (ledger {}) (sus-f9 {}) (sus-resover {})",
        main_res,
        if ledger_open { 1 } else { 0 },
        sim.last_sus.0,
        sim.last_sus.1
    );
    let tr = match sim.trace.take() {
        Some(mut t) => {
            t.push(')');
            t
        }
        None => "(trace)".into(),
    };
    format!("(res {} (detail {}) {})\t{}", status, sexp::quote(&detail), stats_sexp(&sim.st, &extra), tr)
}

thread_local! {
    static PANIC_MSG: std::cell::RefCell<String> = const { std::cell::RefCell::new(String::new()) };
}

fn main() {
    std::panic::set_hook(Box::new(|info| {
        let loc = info.location().map(|l| format!("{}:{}", l.file(), l.line())).unwrap_or_else(|| "?".to_string());
        qvh::LAST_PANIC.with(|p| *p.borrow_mut() = loc);
        let msg = if let Some(s) = info.payload().downcast_ref::<&str>() {
            s.to_string()
        } else if let Some(s) = info.payload().downcast_ref::<String>() {
            s.clone()
        } else {
            String::new()
        };
        PANIC_MSG.with(|m| *m.borrow_mut() = msg);
    }));
    let args: Vec<String> = std::env::args().collect();
    let env_mode = args.iter().any(|a| a == "--env");
    for line in qvh::stdin_cases() {
        let c = parse_case(&line);
        if env_mode {
            println!("{}", envmode::run_env(&c));
        } else {
            println!("{}", run_direct(&c));
        }
    }
}

mod envmode {
    //! Oracle-only mode on the real `Environment` + `Worker`s (+ the real `Repl` for several
    //! `(src ..)` lines): worker.rs handle_action / CompactLocals / GetResult keep-set and repl.rs
    //! run unmodified; the oracle reads `Worker::verif_executor()` after every worker step.
    use super::*;
    use quiver_compiler::PackageResolver;
    use quiver_core::effects::{EffectBackend, EffectResult, ResultTupleInfo};
    use quiver_core::value::ResourceId;
    use quiver_environment::{
        Command, CommandReceiver, Environment, EnvironmentError, Event, EventSender, Repl, RequestResult,
        Worker, WorkerHandle,
    };
    use std::sync::{Arc, Mutex};

    type Q<T> = Arc<Mutex<VecDeque<T>>>;
    struct Rx(Q<Command<TestEffect>>);
    struct Tx(Q<Event<TestEffect>>);
    struct Handle {
        cmd: Q<Command<TestEffect>>,
        evt: Q<Event<TestEffect>>,
    }
    impl CommandReceiver<TestEffect> for Rx {
        fn try_recv(&mut self) -> Result<Option<Command<TestEffect>>, EnvironmentError> {
            Ok(self.0.lock().unwrap().pop_front())
        }
    }
    impl EventSender<TestEffect> for Tx {
        fn send(&mut self, event: Event<TestEffect>) -> Result<(), EnvironmentError> {
            self.0.lock().unwrap().push_back(event);
            Ok(())
        }
    }
    impl WorkerHandle<TestEffect> for Handle {
        fn send(&mut self, command: Command<TestEffect>) -> Result<(), EnvironmentError> {
            self.cmd.lock().unwrap().push_back(command);
            Ok(())
        }
        fn try_recv(&mut self) -> Result<Option<Event<TestEffect>>, EnvironmentError> {
            Ok(self.evt.lock().unwrap().pop_front())
        }
    }
    struct Backend;
    impl EffectBackend for Backend {
        type E = TestEffect;
        fn execute(&mut self, _pid: ProcessId, _effect: TestEffect) -> Result<Option<EffectResult>, Error> {
            Ok(Some(Ok((Value::ok(), vec![]))))
        }
        fn process_completions(&mut self) -> Vec<(ProcessId, EffectResult)> {
            vec![]
        }
        fn close_resource(&mut self, _resource_id: ResourceId) {}
        fn set_type_ids(&mut self, _resources: &[String], _results: &[(String, ResultTupleInfo)]) {}
    }

    struct ESim {
        cmds: Vec<Q<Command<TestEffect>>>,
        workers: Vec<Worker<TestEffect, Rx, Tx>>,
        env: Environment<TestEffect>,
        or: Vec<Oracle>,
        st: Stats,
        now: u64,
        sched: Vec<usize>,
        cur: usize,
    }

    impl ESim {
        /// one tick: the schedule picks a worker step or an environment step
        fn tick(&mut self) -> Result<bool, String> {
            let n = self.workers.len() + 1;
            let pick = self.sched[self.cur % self.sched.len()] % n;
            self.cur += 1;
            if pick == n - 1 {
                return self.env.step().map_err(|e| format!("ENV {:?}", e));
            }
            // suspects: any process of this worker (we cannot see which one will run)
            let mut sus = Suspects::default();
            {
                let ex = self.workers[pick].verif_executor();
                for pid in &ex.verif_dump().process_ids {
                    if let Some(p) = ex.get_process(*pid) {
                        for v in p.awaiting.values().flatten() {
                            if has_refs(v) {
                                sus.f9.push(v.clone());
                            }
                        }
                        if let Some(s) = &p.select_state
                            && let Some((_, v)) = &s.receiving
                            && has_refs(v)
                        {
                            sus.f9.push(v.clone());
                        }
                        if let Some(Ok(v)) = &p.result
                            && has_refs(v)
                            && !p.awaiting.is_empty()
                        {
                            sus.res_over.push(v.clone());
                        }
                    }
                }
            }
            // a SpawnProcess command with a heap bundle, handled in this step, may strand slots (F46)
            let grew = self.cmds[pick]
                .lock()
                .unwrap()
                .iter()
                .any(|c| matches!(c, Command::SpawnProcess { heap_data, .. } if !heap_data.is_empty()));
            let did = self.workers[pick].step(self.now).map_err(|e| format!("ENV {:?}", e))?;
            let tr = verif::take_trace();
            self.st.steps += 1;
            self.st.instructions += tr.len();
            self.st.ops += 1;
            let ex = self.workers[pick].verif_executor();
            oracle(ex, &mut self.or[pick], &sus, &mut self.st, grew)
                .map_err(|m| format!("{} after worker step #{} on worker {}", m, self.st.ops, pick))?;
            Ok(did)
        }
        fn wait(&mut self, req: u64, max: usize) -> Result<Option<RequestResult>, String> {
            let mut idle = 0usize;
            for _ in 0..max {
                let did = self.tick()?;
                if did {
                    idle = 0;
                } else {
                    idle += 1;
                    if idle > 2 * (self.workers.len() + 1) {
                        self.now += 1;
                    }
                }
                match self.env.poll_request(req) {
                    Ok(Some(r)) => return Ok(Some(r)),
                    Ok(None) => {}
                    Err(e) => return Err(format!("ENV {:?}", e)),
                }
            }
            Ok(None)
        }
    }

    pub fn run_env(c: &Case) -> String {
        let nworkers = c.workers;
        let mut workers = Vec::new();
        let mut handles: Vec<Box<dyn WorkerHandle<TestEffect>>> = Vec::new();
        let mut cmds = Vec::new();
        for i in 0..nworkers {
            let cmd: Q<Command<TestEffect>> = Arc::new(Mutex::new(VecDeque::new()));
            let evt: Q<Event<TestEffect>> = Arc::new(Mutex::new(VecDeque::new()));
            cmds.push(cmd.clone());
            workers.push(Worker::new(Rx(cmd.clone()), Tx(evt.clone()), qvh::registry(), false, i as u16));
            handles.push(Box::new(Handle { cmd, evt }));
        }
        let mut env = Environment::<TestEffect>::new(handles);
        env.set_effect_backend(Box::new(Backend));
        let mut sim = ESim {
            cmds,
            workers,
            env,
            or: (0..nworkers).map(|_| Oracle { shadow: HashMap::new(), ledger: BTreeMap::new(), orphans: HashSet::new() }).collect(),
            st: Stats::default(),
            now: 0,
            sched: c.sched.clone(),
            cur: 0,
        };
        verif::set_quantum(c.quantum);
        verif::set_tracing(true);
        let _ = verif::take_trace();
        let lines = c.src.clone();
        let max_ops = c.max_ops;
        let mut status = String::from("ok");
        let mut detail = String::new();
        let mut outcomes = vec![];
        let r = guarded(|| -> Result<(), String> {
            let resolver = Box::new(PackageResolver::memory(HashMap::new()));
            let mut repl = Repl::new(&mut sim.env, resolver, qvh::registry()).map_err(|e| format!("ENV repl {}", e))?;
            for src in &lines {
                let req = sim.env.request_process_types().map_err(|e| format!("ENV {:?}", e))?;
                let types = match sim.wait(req, 4000)? {
                    Some(RequestResult::ProcessTypes(t)) => t,
                    _ => return Err("ENV process-types".into()),
                };
                sim.st.repl_ops += 1;
                match repl.evaluate(&mut sim.env, src, types) {
                    Err(e) => {
                        outcomes.push(format!("compile:{}", format!("{}", e).chars().take(60).collect::<String>()));
                        continue;
                    }
                    Ok(None) => outcomes.push("none".into()),
                    Ok(Some(req)) => match sim.wait(req, max_ops)? {
                        None => {
                            outcomes.push("limit".into());
                            return Err("LIMIT".into());
                        }
                        Some(RequestResult::Result(Ok(_), _)) => outcomes.push("ok".into()),
                        Some(RequestResult::Result(Err(_), _)) => outcomes.push("err".into()),
                        Some(_) => outcomes.push("?".into()),
                    },
                }
            }
            // drain: let every worker reach a quiescent point a few more times
            for _ in 0..(6 * (sim.workers.len() + 1)) {
                sim.tick()?;
            }
            Ok(())
        });
        match r {
            Ok(Ok(())) => {}
            Ok(Err(m)) if m == "LIMIT" => status = "limit".into(),
            Ok(Err(m)) if m.starts_with("ENV") => {
                status = "enverror".into();
                detail = m;
            }
            Ok(Err(m)) => {
                status = "oracle".into();
                detail = m;
            }
            Err(loc) => {
                status = "panic".into();
                detail = format!("{} {}", loc, PANIC_MSG.with(|m| m.borrow().clone()));
            }
        }
        let ledger_open = sim.or.iter().any(|o| o.ledger.values().any(|v| *v != 0));
        let extra = format!(
            " (main {}) (ledger {}) (sus-f9 0) (sus-resover 0) (lines {})",
            outcomes.last().cloned().unwrap_or_default().split(':').next().unwrap_or("none"),
            if ledger_open { 1 } else { 0 },
            outcomes.iter().filter(|o| *o == "ok").count()
        );
        format!("(res {} (detail {}) {})\t(trace)", status, sexp::quote(&detail), stats_sexp(&sim.st, &extra))
    }
}
