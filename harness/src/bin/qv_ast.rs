//! qv_ast: parses each source with the REAL parser and dumps the REAL AST as an s-expression
//! (every enum variant by name, all spans dropped), together with the ASTs of every module the
//! program imports (resolved transitively with the real `PackageResolver`, so the bundled std
//! sources are the ones the compiler itself would load). With `--eval` the same source is also
//! compiled and run on the real VM (`qvh::eval_source`) and the canonical outcome is appended
//! after a tab.
//!
//! stdin: one case per line: `"<source>" (mod "a/b" "<source>")*`
//! stdout: `(ast <Program> ((mod "<path>" <Program>) | (use "<std path>"))*)` | `(parse-error)` |
//!         `(module-error "<path>")` (an import that does not resolve / does not parse / resolves
//!         differently from the std and the entry package), then with --eval `\t<qv_eval line>`.
//! `qv_ast --std` prints one `(mod "<path>" <Program>)` line per bundled std module instead
//! (a case refers to those by `(use "<path>")`).
//! `qv_ast --norm` prints `(norm <Program> <Program after the real simplify::normalize_blocks with the
//! compiler's options>)` per case (correspondence of coq/theories/lang/LangSimplify.v).
//! `qv_ast --code` prints `<ast dump>\t(code <instr>..)`: the entry function's instructions as the real
//! compiler emits them, constants and tuple ids resolved (correspondence of lang/LangCompile.v).
//! The dump format is the one of qv_format.rs (C17) minus the chain span offset.
use qvh::hex;
use qvh::sexp::{self, Sexp};
use quiver_compiler::ast::*;
use quiver_compiler::ModuleResolver;
use quiver_compiler::PackageId;
use quiver_compiler::simplify::{Options, normalize_blocks};
use quiver_compiler::{PackageResolver, parse};
use std::collections::{BTreeMap, HashMap};

fn a(s: &str) -> Sexp {
    Sexp::Atom(s.to_string())
}
fn l(head: &str, mut items: Vec<Sexp>) -> Sexp {
    let mut v = vec![a(head)];
    v.append(&mut items);
    Sexp::List(v)
}
fn opt_name(n: &Option<String>) -> Sexp {
    match n {
        Some(s) => a(s),
        None => a("-"),
    }
}
fn names(v: &[String]) -> Sexp {
    Sexp::List(v.iter().map(|s| a(s)).collect())
}
fn xhex(b: &[u8]) -> Sexp {
    a(&format!("x{}", hex(b)))
}

fn d_program(p: &Program) -> Sexp {
    l("Program", p.statements.iter().map(d_statement).collect())
}
fn d_statement(s: &Statement) -> Sexp {
    match s {
        Statement::TypeAlias {
            name,
            type_parameters,
            type_definition,
            ..
        } => l(
            "TypeAlias",
            vec![opt_name(name), names(type_parameters), d_type(type_definition)],
        ),
        Statement::Expression(seq) => l("Expression", vec![d_sequence(seq)]),
    }
}
fn d_sequence(s: &Sequence) -> Sexp {
    l("Sequence", s.chains.iter().map(d_chain).collect())
}
fn d_chain(c: &Chain) -> Sexp {
    let mut v = vec![
        match &c.match_pattern {
            Some(m) => l("Some", vec![d_match(m)]),
            None => a("-"),
        },
    ];
    v.extend(c.terms.iter().map(d_term));
    l("Chain", v)
}
fn d_literal(x: &Literal) -> Sexp {
    match x {
        Literal::Integer(n) => l("Integer", vec![a(&n.to_string())]),
        Literal::Binary(b) => l("Binary", vec![xhex(b)]),
    }
}
fn d_style(s: &StringStyle) -> Sexp {
    a(match s {
        StringStyle::Single => "Single",
        StringStyle::Multi => "Multi",
    })
}
fn d_term(t: &Term) -> Sexp {
    match t {
        Term::Literal(x) => l("Literal", vec![d_literal(x)]),
        Term::Tuple(t) => d_tuple(t),
        Term::String(style, segs) => {
            let mut v = vec![d_style(style)];
            v.extend(segs.iter().map(|s| match s {
                StrSegment::Text(b) => l("Text", vec![xhex(b)]),
                StrSegment::Hole(e) => l("Hole", vec![d_expression(e)]),
            }));
            l("String", v)
        }
        Term::Match(m) => l("Match", vec![d_match(m)]),
        Term::Block(e) => l("Block", vec![d_expression(e)]),
        Term::Function(f) => l(
            "Function",
            vec![
                names(&f.type_parameters),
                f.parameter_type.as_ref().map_or(a("-"), d_type),
                f.return_type.as_ref().map_or(a("-"), d_type),
                f.body.as_ref().map_or(a("-"), d_expression),
            ],
        ),
        Term::Access(x) => l("Access", vec![d_access(x)]),
        Term::Spawn(inner, _) => l("Spawn", vec![d_term(inner)]),
        Term::Self_ => l("Self_", vec![]),
        Term::Select(None, _) => l("Select", vec![a("-")]),
        Term::Select(Some(chains), _) => l(
            "Select",
            vec![l("Some", chains.iter().map(d_chain).collect())],
        ),
        Term::Process(n) => l("Process", vec![a(&n.to_string())]),
        Term::Reference(x) => l("Reference", vec![d_access(x)]),
    }
}
fn d_tuple(t: &Tuple) -> Sexp {
    let mut v = vec![match &t.name {
        TupleName::Anonymous => a("Anonymous"),
        TupleName::Named(n) => l("Named", vec![a(n)]),
        TupleName::Inherit => a("Inherit"),
    }];
    v.extend(t.fields.iter().map(|f| {
        l(
            "TupleField",
            vec![
                opt_name(&f.name),
                match &f.value {
                    FieldValue::Chain(c) => l("FChain", vec![d_chain(c)]),
                    FieldValue::Spread(n) => l("FSpread", vec![opt_name(n)]),
                },
            ],
        )
    }));
    l("Tuple", v)
}
fn d_expression(e: &Expression) -> Sexp {
    l(
        "ExpressionB",
        e.branches
            .iter()
            .map(|b| {
                l(
                    "Branch",
                    vec![
                        d_sequence(&b.condition),
                        b.consequence.as_ref().map_or(a("-"), d_sequence),
                    ],
                )
            })
            .collect(),
    )
}
fn d_access(x: &Access) -> Sexp {
    let mut v = vec![match &x.source {
        None => a("-"),
        Some(AccessSource::Identifier(n)) => l("Identifier", vec![a(n)]),
        Some(AccessSource::Parameter) => a("Parameter"),
        Some(AccessSource::Ripple) => a("Ripple"),
        Some(AccessSource::Import(p)) => l("Import", p.iter().map(|s| a(s)).collect()),
        Some(AccessSource::Self_) => a("SelfSrc"),
        Some(AccessSource::Builtin(n)) => l("Builtin", vec![a(n)]),
        Some(AccessSource::TailCall(n)) => l("TailCall", vec![opt_name(n)]),
        Some(AccessSource::TailCallRipple) => a("TailCallRipple"),
    }];
    v.extend(x.accessors.iter().map(|p| match p {
        AccessPath::Field(n) => l("Field", vec![a(n)]),
        AccessPath::Index(i) => l("Index", vec![a(&i.to_string())]),
    }));
    l("AccessT", v)
}
fn d_match(m: &Match) -> Sexp {
    match m {
        Match::Identifier(n, _) => l("MIdentifier", vec![a(n)]),
        Match::Literal(x) => l("MLiteral", vec![d_literal(x)]),
        Match::String(style, b) => l("MString", vec![d_style(style), xhex(b)]),
        Match::Tuple(t) => {
            let mut v = vec![opt_name(&t.name)];
            v.extend(
                t.fields
                    .iter()
                    .map(|f| l("MatchField", vec![opt_name(&f.name), d_match(&f.pattern)])),
            );
            l("MTuple", v)
        }
        Match::Partial(p) => {
            let mut v = vec![opt_name(&p.name)];
            v.extend(p.fields.iter().map(|f| {
                l(
                    "PartialPatternField",
                    vec![a(&f.name), f.pattern.as_ref().map_or(a("-"), d_match)],
                )
            }));
            l("MPartial", v)
        }
        Match::Star(n) => l("MStar", vec![opt_name(n)]),
        Match::Placeholder => l("MPlaceholder", vec![]),
        Match::Reference(n, _) => l("MReference", vec![a(n)]),
        Match::Type(t) => l("MType", vec![d_type(t)]),
        Match::Or(ms) => l("MOr", ms.iter().map(d_match).collect()),
        Match::As(t, n, _) => l("MAs", vec![d_type(t), a(n)]),
    }
}
fn d_types(ts: &[Type]) -> Sexp {
    Sexp::List(ts.iter().map(d_type).collect())
}
fn d_type(t: &Type) -> Sexp {
    match t {
        Type::Primitive(p) => l(
            "TPrimitive",
            vec![a(match p {
                PrimitiveType::Int => "Int",
                PrimitiveType::Bin => "Bin",
                PrimitiveType::Ref => "Ref",
            })],
        ),
        Type::Tuple(tt) => {
            let mut v = vec![opt_name(&tt.name), a(if tt.is_partial { "partial" } else { "full" })];
            v.extend(tt.fields.iter().map(|f| match f {
                FieldType::Field { name, type_def } => {
                    l("FieldT", vec![opt_name(name), d_type(type_def)])
                }
                FieldType::Spread {
                    identifier,
                    type_arguments,
                } => l("SpreadT", vec![opt_name(identifier), d_types(type_arguments)]),
            }));
            l("TTuple", v)
        }
        Type::Function(f) => l("TFunction", vec![d_type(&f.input), d_type(&f.output)]),
        Type::Union(u) => l("TUnion", u.types.iter().map(d_type).collect()),
        Type::Intersection(ts) => l("TIntersection", ts.iter().map(d_type).collect()),
        Type::Identifier { name, arguments } => l("TIdentifier", vec![a(name), d_types(arguments)]),
        Type::Cycle(n) => l(
            "TCycle",
            vec![n.map_or(a("-"), |n| a(&n.to_string()))],
        ),
        Type::Process(p) => l(
            "TProcess",
            vec![
                p.receive_type.as_ref().map_or(a("-"), |t| d_type(t)),
                p.return_type.as_ref().map_or(a("-"), |t| d_type(t)),
            ],
        ),
        Type::Resource(n) => l("TResource", vec![a(n)]),
        Type::ModuleType {
            module,
            member,
            arguments,
        } => l(
            "TModuleType",
            vec![
                Sexp::List(module.iter().map(|s| a(s)).collect()),
                opt_name(member),
                d_types(arguments),
            ],
        ),
        Type::SelfDefault { arguments } => l("TSelfDefault", vec![d_types(arguments)]),
    }
}

// ------------------------------------------------------------------------------------------
// import collection (every `%path` in terms and every `'%path` in types)
// ------------------------------------------------------------------------------------------
fn imports_of(s: &Sexp, out: &mut Vec<Vec<String>>) {
    if let Sexp::List(items) = s {
        if let Some(Sexp::Atom(h)) = items.first() {
            if h == "Import" {
                out.push(items[1..].iter().map(|x| x.atom().to_string()).collect());
            } else if h == "TModuleType" {
                out.push(items[1].list().iter().map(|x| x.atom().to_string()).collect());
            }
        }
        for it in items {
            imports_of(it, out);
        }
    }
}

fn dump_case(src: &str, modules: &HashMap<Vec<String>, String>) -> String {
    let program = match parse(src) {
        Ok(p) => p,
        Err(_) => return "(parse-error)".to_string(),
    };
    let main = d_program(&program);
    let resolver = PackageResolver::memory(modules.clone());
    let mut done: BTreeMap<Vec<String>, Option<Sexp>> = BTreeMap::new();
    let mut todo: Vec<Vec<String>> = vec![];
    imports_of(&main, &mut todo);
    while let Some(path) = todo.pop() {
        if done.contains_key(&path) {
            continue;
        }
        // the evaluator keys modules by path alone: require that the path means the same module
        // from the entry package and from std (a memory module shadowing a std module that std
        // itself imports would not)
        let from_entry = resolver.resolve(&PackageId::Memory, &path);
        let from_std = resolver.resolve(&PackageId::Std, &path);
        let resolved = match (from_entry, from_std) {
            (Ok(a), Ok(b)) => {
                if a.id != b.id {
                    return format!("(module-error {})", sexp::quote(&path.join("/")));
                }
                a
            }
            (Ok(a), Err(_)) => a,
            _ => return format!("(module-error {})", sexp::quote(&path.join("/"))),
        };
        if resolved.id.package == PackageId::Std {
            // bundled std module: dumped once by `--std`, referenced by path here
            done.insert(path, None);
            continue;
        }
        let ast = match parse(&resolved.source) {
            Ok(p) => p,
            Err(_) => return format!("(module-error {})", sexp::quote(&path.join("/"))),
        };
        let d = d_program(&ast);
        imports_of(&d, &mut todo);
        done.insert(path, Some(d));
    }
    let mut v = vec![a("ast"), main];
    for (path, d) in done {
        match d {
            Some(d) => v.push(Sexp::List(vec![a("mod"), Sexp::Str(path.join("/")), d])),
            None => v.push(Sexp::List(vec![a("use"), Sexp::Str(path.join("/"))])),
        }
    }
    Sexp::List(v).to_string()
}

/// `--std`: one line `(mod "<path>" <Program>)` per bundled std module (the embedded sources
/// the compiler itself loads), found by resolving every `*.qv` name of $QUIVER_REPO/std from the
/// std package and following imports.
fn dump_std() {
    let resolver = PackageResolver::memory(HashMap::new());
    let repo = std::env::var("QUIVER_REPO").unwrap_or_else(|_| "/repo".to_string());
    let mut todo: Vec<Vec<String>> = vec![];
    if let Ok(rd) = std::fs::read_dir(format!("{}/std", repo)) {
        for e in rd.flatten() {
            let n = e.file_name().to_string_lossy().to_string();
            if let Some(stem) = n.strip_suffix(".qv") {
                todo.push(vec![stem.to_string()]);
            }
        }
    }
    todo.sort();
    let mut done: BTreeMap<Vec<String>, Sexp> = BTreeMap::new();
    while let Some(path) = todo.pop() {
        if done.contains_key(&path) {
            continue;
        }
        let Ok(resolved) = resolver.resolve(&PackageId::Std, &path) else {
            continue;
        };
        let Ok(ast) = parse(&resolved.source) else {
            continue;
        };
        let d = d_program(&ast);
        imports_of(&d, &mut todo);
        done.insert(path, d);
    }
    for (path, d) in done {
        println!("{}", Sexp::List(vec![a("mod"), Sexp::Str(path.join("/")), d]));
    }
}

/// `--norm`: `(norm <Program as parsed> <Program after the REAL normalize_blocks>)` with the options
/// compiler.rs uses (keep nothing, lift, no grouping), or `(parse-error)`.
fn dump_norm(src: &str) -> String {
    let program = match parse(src) {
        Ok(p) => p,
        Err(_) => return "(parse-error)".to_string(),
    };
    let before = d_program(&program);
    let after = normalize_blocks(
        program,
        &Options {
            keep: &|_| false,
            lift: true,
            group_consequences: false,
        },
    );
    Sexp::List(vec![a("norm"), before, d_program(&after)]).to_string()
}

/// `--code`: the instructions of the ENTRY function as the real compiler emits them, with constant
/// indices resolved to the constant and tuple ids resolved to their (name, labels) shape:
/// `(code (store) (load 0) (const 5) (tuple Name (l1 -)) ..)` | `(parse-error)` | `(compile-error K)`.
fn dump_code(src: &str) -> String {
    let compiled = match qvh::compile_source(src, HashMap::new()) {
        Ok(c) => c,
        Err(e) => return e.line(),
    };
    let bc = compiled.program.to_bytecode(Some(compiled.entry));
    let Some(entry) = bc.entry else {
        return "(no-entry)".to_string();
    };
    fn code_of(bc: &quiver_core::bytecode::Bytecode, f: usize, depth: usize) -> Sexp {
        use quiver_core::bytecode::{Constant, Instruction};
        let mut v = vec![a("code")];
        let Some(func) = bc.functions.get(f) else {
            return Sexp::List(v);
        };
        for i in &func.instructions {
            v.push(match i {
                Instruction::Constant(k) => match bc.constants.get(*k) {
                    Some(Constant::Integer(n)) => l("const", vec![a(&n.to_string())]),
                    Some(Constant::Binary(b)) => l("const-bin", vec![xhex(b)]),
                    None => l("const", vec![a("?")]),
                },
                Instruction::Tuple(t) => match bc.tuples.get(*t) {
                    Some(info) => l(
                        "tuple",
                        vec![
                            opt_name(&info.name),
                            Sexp::List(info.fields.iter().map(|(n, _)| opt_name(n)).collect()),
                        ],
                    ),
                    None => l("tuple", vec![a("?")]),
                },
                Instruction::Pop => l("pop", vec![]),
                Instruction::Duplicate => l("dup", vec![]),
                Instruction::Pick(n) => l("pick", vec![a(&n.to_string())]),
                Instruction::Rotate(n) => l("rot", vec![a(&n.to_string())]),
                Instruction::Reset(n) => l("reset", vec![a(&n.to_string())]),
                Instruction::Load(n) => l("load", vec![a(&n.to_string())]),
                Instruction::Store => l("store", vec![]),
                Instruction::Get(n) => l("get", vec![a(&n.to_string())]),
                Instruction::Jump(o) => l("jmp", vec![a(&o.to_string())]),
                Instruction::JumpIf(o) => l("jmpif", vec![a(&o.to_string())]),
                Instruction::Not => l("not", vec![]),
                Instruction::Equal(n) => l("equal", vec![a(&n.to_string())]),
                Instruction::Call => l("call", vec![]),
                // a function value: its captures count and (numbering-independent) its own code
                Instruction::Function(k) if depth < 8 => l(
                    "fn",
                    vec![
                        a(&bc.functions.get(*k).map_or(0, |f| f.captures).to_string()),
                        code_of(bc, *k, depth + 1),
                    ],
                ),
                other => l("other", vec![a(&format!("{:?}", other).split(['(', ' ']).next().unwrap_or("").to_string())]),
            });
        }
        Sexp::List(v)
    }
    code_of(&bc, entry, 0).to_string()
}

fn main() {
    qvh::quiet_panics();
    if std::env::args().any(|x| x == "--code") {
        for line in qvh::stdin_cases() {
            let items = sexp::parse_all(&line);
            let src = items[0].atom().to_string();
            let src2 = src.clone();
            let ast = match qvh::guarded(move || dump_case(&src2, &HashMap::new())) {
                Ok(s) => s,
                Err(loc) => format!("(panic \"{}\")", loc),
            };
            let code = match qvh::guarded(move || dump_code(&src)) {
                Ok(s) => s,
                Err(loc) => format!("(panic \"{}\")", loc),
            };
            println!("{}\t{}", ast, code);
        }
        return;
    }
    if std::env::args().any(|x| x == "--std") {
        dump_std();
        return;
    }
    if std::env::args().any(|x| x == "--norm") {
        for line in qvh::stdin_cases() {
            let items = sexp::parse_all(&line);
            let src = items[0].atom().to_string();
            let out = match qvh::guarded(move || dump_norm(&src)) {
                Ok(s) => s,
                Err(loc) => format!("(panic \"{}\")", loc),
            };
            println!("{}", out);
        }
        return;
    }
    let with_eval = std::env::args().any(|x| x == "--eval");
    for line in qvh::stdin_cases() {
        let items = sexp::parse_all(&line);
        let src = items[0].atom().to_string();
        let mut modules = HashMap::new();
        for m in &items[1..] {
            if let Sexp::List(l) = m {
                let path: Vec<String> = l[1].atom().split('/').map(|s| s.to_string()).collect();
                modules.insert(path, l[2].atom().to_string());
            }
        }
        let src2 = src.clone();
        let mods2 = modules.clone();
        let dumped = match qvh::guarded(move || dump_case(&src2, &mods2)) {
            Ok(s) => s,
            Err(loc) => format!("(panic \"{}\")", loc),
        };
        if with_eval {
            let out = qvh::eval_source(&src, modules);
            println!("{}\t{}", dumped, out.line());
        } else {
            println!("{}", dumped);
        }
    }
}
