//! qv_space: run a source on the real VM with profiling on and report peak space.
//! stdin: one quoted source per line. stdout: `(space <outcome> (stack S) (locals L) (frames F)
//! (heap-slots H) (heap-live V) (instructions N))` or `(compile-error ..)`.
use qvh::sexp;
use std::collections::HashMap;

fn main() {
    qvh::quiet_panics();
    for line in qvh::stdin_cases() {
        let items = sexp::parse_all(&line);
        let src = items[0].atom().to_string();
        let compiled = match qvh::guarded(move || qvh::compile_source(&src, HashMap::new())) {
            Ok(Ok(c)) => c,
            Ok(Err(e)) => {
                println!("{}", e.line());
                continue;
            }
            Err(loc) => {
                println!("(panic \"{}\")", loc);
                continue;
            }
        };
        let bc = compiled.program.to_bytecode(Some(compiled.entry));
        let bc2 = bc.clone();
        match qvh::guarded(move || qvh::execute_bounded_with(bc, 2_000_000, true)) {
            Err(loc) => println!("(panic \"{}\")", loc),
            Ok(Err(Ok(e))) => println!("(space (err {}))", qvh::error_class(&e)),
            Ok(Err(Err(why))) => println!("(space (err {}))", why),
            Ok(Ok((v, mut ex))) => {
                let bins = qvh::Bins::Exec(&ex, &bc2.constants);
                let dump = qvh::dump_value(&v, &bc2, &bins);
                // one more step so that slots queued for reclamation are actually freed
                ex.step(1, 0);
                let hs = ex.heap_stats();
                println!(
                    "(space (ok {}) (stack {}) (locals {}) (frames {}) (heap-slots {}) (heap-live {}) (instructions {}))",
                    dump,
                    ex.stats.peak_stack_size,
                    ex.stats.peak_locals_size,
                    ex.stats.peak_frame_count,
                    hs.slots,
                    hs.slots - hs.dead(),
                    ex.stats.total_instructions()
                );
            }
        }
    }
}
