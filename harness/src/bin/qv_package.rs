//! qv_package (C10): produce the FOUR packagings of a program with the real code, run each on the
//! real VM, reconstruct the renamings, and dump everything the Coq-extracted validator needs.
//!
//! Default mode. stdin, one case per line:
//!   "<source>" (mod "a/b" "<source>")* (behind "<src>"*) (merge ac|ts)
//! Packagings (all produced by the real functions):
//!   ac  as compiled            `Program::to_bytecode(Some(entry))`
//!   ts  tree-shaken            `Program::to_bytecode_optimized(entry)`            (optimisation.rs tree_shake)
//!   js  JSON round trip of ts  `serde_json::to_string` -> `from_str`               (quiv compile | quiv run)
//!   mg  merged                 a real `Environment` that first merged the `behind` programs
//!                              (`start_process` -> `merge_bytecode`), then `ac` or `ts` of this one
//! Runs: s-ac/s-ts/s-js on one bounded Executor (`qvh::execute_bounded`); e-base (ts merged into a
//! fresh Environment) and e-mg on a real Environment + real Worker stepped on this thread. Result
//! values are printed in the id space of `ts`: tuple ids erased to name/labels, binaries to bytes,
//! builtin ids to names, function ids mapped through the reconstructed renamings, pids and refs
//! renamed by first occurrence.
//! stdout, one line per case:
//!   (packaged (runs (s-ac O) (s-ts O) (s-js O) (e-base O) (e-mg O)) (json same|differ) (k n) (merged ac|ts)
//!             (stats ..) (prog ac ..) (prog ts ..) (prog mg ..) (prog before ..) (rho ts ..) (rho mg ..))
//!   | (parse-error) | (compile-error K) | (panic "file:line") | (package-panic <step> "file:line")
//! `--no-dump` omits the prog/rho sections (run comparison only).
//!
//! `--import`: each line `"<use>" (mod "a/b" "<module source>")* (inplace "<source>")`: evaluates the
//! use (which imports the module through `value_to_instructions_from_cache`) and the in-place
//! program; prints `(import <outcome-use> <outcome-inplace>)` with function ids erased.
use quiver_core::bytecode::{Bytecode, ConcreteType, Constant, Instruction};
use quiver_core::builtins::BuiltinResult;
use quiver_core::compatibility::{CompatibilityInput, compute_canonical_tuples, compute_type_compatibility};
use quiver_core::effects::{EffectBackend, EffectResult, ResultTupleInfo};
use quiver_core::process::{Action, ProcessId};
use quiver_core::types::{Type, TypeLookup};
use quiver_core::value::{ResourceId, Value};
use quiver_core::{Error, Executor};
use quiver_environment::{
    Command, CommandReceiver, Environment, EnvironmentError, Event, EventSender, RequestResult, Worker,
    WorkerHandle,
};
use qvh::sexp::{self, Sexp};
use qvh::{Bins, TestEffect, error_class, guarded, hex};
use std::collections::{BTreeMap, BTreeSet, HashMap, HashSet, VecDeque};
use std::sync::atomic::{AtomicBool, Ordering};
use std::sync::{Arc, Mutex};

// ------------------------------------------------------------------ full program dump

fn opt_name(n: &Option<String>) -> String {
    match n {
        Some(s) => sexp::quote(s),
        None => "-".to_string(),
    }
}

fn opt_id(n: &Option<usize>) -> String {
    match n {
        Some(i) => i.to_string(),
        None => "-".to_string(),
    }
}

fn dump_instr(i: &Instruction) -> String {
    match i {
        Instruction::Constant(k) => format!("(const {})", k),
        Instruction::Pop => "(pop)".into(),
        Instruction::Duplicate => "(dup)".into(),
        Instruction::Pick(n) => format!("(pick {})", n),
        Instruction::Rotate(n) => format!("(rot {})", n),
        Instruction::Reset(n) => format!("(reset {})", n),
        Instruction::Load(n) => format!("(load {})", n),
        Instruction::Store => "(store)".into(),
        Instruction::Tuple(t) => format!("(tuple {})", t),
        Instruction::Get(n) => format!("(get {})", n),
        Instruction::IsType(t) => format!("(istype {})", t),
        Instruction::Jump(o) => format!("(jmp {})", o),
        Instruction::JumpIf(o) => format!("(jmpif {})", o),
        Instruction::Call => "(call)".into(),
        Instruction::TailCall(r) => format!("(tailcall {})", if *r { 1 } else { 0 }),
        Instruction::Function(f) => format!("(fn {})", f),
        Instruction::Builtin(b) => format!("(builtin {})", b),
        Instruction::Equal(n) => format!("(equal {})", n),
        Instruction::Not => "(not)".into(),
        Instruction::Spawn => "(spawn)".into(),
        Instruction::Send => "(send)".into(),
        Instruction::Self_ => "(self)".into(),
        Instruction::Select => "(select)".into(),
        Instruction::Process(p, f) => format!("(process {} {})", p, f),
    }
}

fn dump_type(t: &Type) -> String {
    match t {
        Type::Integer => "(int)".into(),
        Type::Binary => "(bin)".into(),
        Type::Reference => "(ref)".into(),
        Type::Tuple(id) => format!("(tuple {})", id),
        Type::Partial { name, fields } => {
            let mut s = format!("(partial {} (", opt_name(name));
            for (i, (n, ty)) in fields.iter().enumerate() {
                if i > 0 {
                    s.push(' ');
                }
                s.push_str(&format!("({} {})", sexp::quote(n), ty));
            }
            s.push_str("))");
            s
        }
        Type::Callable { parameter, result, receive } => format!("(fn {} {} {})", parameter, result, receive),
        Type::Cycle(d) => format!("(cycle {})", d),
        Type::Union(ids) => {
            let mut s = String::from("(union");
            for i in ids {
                s.push_str(&format!(" {}", i));
            }
            s.push(')');
            s
        }
        Type::Process { send, receive } => format!("(process {} {})", opt_id(send), opt_id(receive)),
        Type::Resource(n) => format!("(resource {})", sexp::quote(n)),
        Type::Variable(n) => format!("(var {})", sexp::quote(n)),
    }
}

fn dump_program(name: &str, bc: &Bytecode, canon: &[usize]) -> String {
    let mut s = format!("(prog {} (entry {})", name, bc.entry.map(|e| e as i64).unwrap_or(-1));
    s.push_str(" (consts");
    for c in &bc.constants {
        match c {
            Constant::Integer(n) => s.push_str(&format!(" (i {})", n)),
            Constant::Binary(b) => s.push_str(&format!(" (b x{})", hex(b))),
        }
    }
    s.push_str(") (fns");
    for f in &bc.functions {
        s.push_str(&format!(" (fn {} {} (ins", f.captures, f.type_id));
        for i in &f.instructions {
            s.push(' ');
            s.push_str(&dump_instr(i));
        }
        s.push_str("))");
    }
    s.push_str(") (tuples");
    for t in &bc.tuples {
        s.push_str(&format!(" (tup {} (", opt_name(&t.name)));
        for (i, (l, ty)) in t.fields.iter().enumerate() {
            if i > 0 {
                s.push(' ');
            }
            s.push_str(&format!("({} {})", opt_name(l), ty));
        }
        s.push_str("))");
    }
    s.push_str(") (types");
    for t in &bc.types {
        s.push(' ');
        s.push_str(&dump_type(t));
    }
    s.push_str(") (builtins");
    for b in &bc.builtins {
        s.push_str(&format!(" (bi {} {} {})", sexp::quote(&b.name), b.param_type, b.result_type));
    }
    s.push_str(") (resources");
    for r in &bc.resources {
        s.push(' ');
        s.push_str(&sexp::quote(r));
    }
    s.push_str(") (canon");
    for c in canon {
        s.push_str(&format!(" {}", c));
    }
    s.push_str("))");
    s
}

// ------------------------------------------------------------------ the tables the VM consults

/// `type_compatibility` and `canonical_tuples` exactly as a loader computes them for `bc`
/// (execute_bytecode_sync / merge_bytecode call the same two functions on the same tables).
struct Tables {
    rows: Vec<HashSet<ConcreteType>>,
    canon: Vec<usize>,
}

fn tables_of(bc: &Bytecode) -> Tables {
    let input = CompatibilityInput {
        types: &bc.types,
        tuples: &bc.tuples,
        functions: &bc.functions,
        builtins: &bc.builtins,
        resource_names: &bc.resources,
    };
    Tables { rows: compute_type_compatibility(&input), canon: compute_canonical_tuples(&bc.tuples) }
}

// ------------------------------------------------------------------ renaming reconstruction

/// Six finite maps src id -> dst id, rebuilt by a structural worklist from the two entries: only
/// what the entry can reach is mapped. Conflicting bindings are recorded (first binding wins); the
/// Coq validator is the judge of whether the result is a renaming.
#[derive(Default, Clone)]
struct Rho {
    c: BTreeMap<usize, usize>,
    f: BTreeMap<usize, usize>,
    t: BTreeMap<usize, usize>,
    y: BTreeMap<usize, usize>,
    b: BTreeMap<usize, usize>,
    r: BTreeMap<usize, usize>,
    conflicts: Vec<String>,
}

fn bind(m: &mut BTreeMap<usize, usize>, a: usize, b: usize, what: &str, conflicts: &mut Vec<String>) -> bool {
    match m.get(&a) {
        Some(&old) => {
            if old != b && conflicts.len() < 8 {
                conflicts.push(format!("{} {} -> {} and {}", what, a, old, b));
            }
            false
        }
        None => {
            m.insert(a, b);
            true
        }
    }
}

fn reconstruct(p: &Bytecode, q: &Bytecode) -> Rho {
    let mut rho = Rho::default();
    let (Some(pe), Some(qe)) = (p.entry, q.entry) else {
        rho.conflicts.push("missing entry".into());
        return rho;
    };
    let mut fw: VecDeque<(usize, usize)> = VecDeque::new();
    let mut yw: VecDeque<(usize, usize)> = VecDeque::new();
    let mut tw: VecDeque<(usize, usize)> = VecDeque::new();
    let mut bw: VecDeque<(usize, usize)> = VecDeque::new();
    // NIL and OK are pushed by IsType/Equal/Not themselves
    for t in [0usize, 1] {
        if t < p.tuples.len() && t < q.tuples.len() && bind(&mut rho.t, t, t, "tuple", &mut rho.conflicts) {
            tw.push_back((t, t));
        }
    }
    if bind(&mut rho.f, pe, qe, "function", &mut rho.conflicts) {
        fw.push_back((pe, qe));
    }
    loop {
        if let Some((a, b)) = fw.pop_front() {
            let (Some(fa), Some(fb)) = (p.functions.get(a), q.functions.get(b)) else {
                rho.conflicts.push(format!("function {} or image {} missing", a, b));
                continue;
            };
            if bind(&mut rho.y, fa.type_id, fb.type_id, "type", &mut rho.conflicts) {
                yw.push_back((fa.type_id, fb.type_id));
            }
            if fa.instructions.len() != fb.instructions.len() && rho.conflicts.len() < 8 {
                rho.conflicts.push(format!("function {} -> {}: lengths differ", a, b));
            }
            for (ia, ib) in fa.instructions.iter().zip(fb.instructions.iter()) {
                match (ia, ib) {
                    (Instruction::Constant(x), Instruction::Constant(y)) => {
                        bind(&mut rho.c, *x, *y, "constant", &mut rho.conflicts);
                    }
                    (Instruction::Function(x), Instruction::Function(y)) => {
                        if bind(&mut rho.f, *x, *y, "function", &mut rho.conflicts) {
                            fw.push_back((*x, *y));
                        }
                    }
                    (Instruction::Process(_, x), Instruction::Process(_, y)) => {
                        if bind(&mut rho.f, *x, *y, "function", &mut rho.conflicts) {
                            fw.push_back((*x, *y));
                        }
                    }
                    (Instruction::Tuple(x), Instruction::Tuple(y)) => {
                        if bind(&mut rho.t, *x, *y, "tuple", &mut rho.conflicts) {
                            tw.push_back((*x, *y));
                        }
                    }
                    (Instruction::IsType(x), Instruction::IsType(y)) => {
                        if bind(&mut rho.y, *x, *y, "type", &mut rho.conflicts) {
                            yw.push_back((*x, *y));
                        }
                    }
                    (Instruction::Builtin(x), Instruction::Builtin(y)) => {
                        if bind(&mut rho.b, *x, *y, "builtin", &mut rho.conflicts) {
                            bw.push_back((*x, *y));
                        }
                    }
                    _ => {}
                }
            }
            continue;
        }
        if let Some((a, b)) = bw.pop_front() {
            if let (Some(ba), Some(bb)) = (p.builtins.get(a), q.builtins.get(b)) {
                for (x, y) in [(ba.param_type, bb.param_type), (ba.result_type, bb.result_type)] {
                    if bind(&mut rho.y, x, y, "type", &mut rho.conflicts) {
                        yw.push_back((x, y));
                    }
                }
            }
            continue;
        }
        if let Some((a, b)) = tw.pop_front() {
            if let (Some(ta), Some(tb)) = (p.tuples.get(a), q.tuples.get(b)) {
                for ((_, x), (_, y)) in ta.fields.iter().zip(tb.fields.iter()) {
                    if bind(&mut rho.y, *x, *y, "type", &mut rho.conflicts) {
                        yw.push_back((*x, *y));
                    }
                }
            }
            continue;
        }
        if let Some((a, b)) = yw.pop_front() {
            let (Some(ta), Some(tb)) = (p.types.get(a), q.types.get(b)) else { continue };
            let mut kids: Vec<(usize, usize)> = vec![];
            match (ta, tb) {
                (Type::Tuple(x), Type::Tuple(y)) => {
                    if bind(&mut rho.t, *x, *y, "tuple", &mut rho.conflicts) {
                        tw.push_back((*x, *y));
                    }
                }
                (Type::Partial { fields: fa, .. }, Type::Partial { fields: fb, .. }) => {
                    for ((_, x), (_, y)) in fa.iter().zip(fb.iter()) {
                        kids.push((*x, *y));
                    }
                }
                (
                    Type::Callable { parameter: p1, result: r1, receive: c1 },
                    Type::Callable { parameter: p2, result: r2, receive: c2 },
                ) => {
                    kids.push((*p1, *p2));
                    kids.push((*r1, *r2));
                    kids.push((*c1, *c2));
                }
                (Type::Union(xs), Type::Union(ys)) => {
                    for (x, y) in xs.iter().zip(ys.iter()) {
                        kids.push((*x, *y));
                    }
                }
                (Type::Process { send: s1, receive: r1 }, Type::Process { send: s2, receive: r2 }) => {
                    if let (Some(x), Some(y)) = (s1, s2) {
                        kids.push((*x, *y));
                    }
                    if let (Some(x), Some(y)) = (r1, r2) {
                        kids.push((*x, *y));
                    }
                }
                (Type::Resource(n1), Type::Resource(n2)) => {
                    if let (Some(x), Some(y)) =
                        (p.resources.iter().position(|r| r == n1), q.resources.iter().position(|r| r == n2))
                    {
                        bind(&mut rho.r, x, y, "resource", &mut rho.conflicts);
                    }
                }
                _ => {}
            }
            for (x, y) in kids {
                if bind(&mut rho.y, x, y, "type", &mut rho.conflicts) {
                    yw.push_back((x, y));
                }
            }
            continue;
        }
        break;
    }
    rho
}

fn dump_map(name: &str, m: &BTreeMap<usize, usize>) -> String {
    let mut s = format!("({}", name);
    for (a, b) in m {
        s.push_str(&format!(" ({} {})", a, b));
    }
    s.push(')');
    s
}

fn dump_row(y: usize, row: Option<&HashSet<ConcreteType>>, keep: &dyn Fn(&ConcreteType) -> bool) -> String {
    let mut flags = [false; 3];
    let mut t = BTreeSet::new();
    let mut f = BTreeSet::new();
    let mut b = BTreeSet::new();
    let mut p = BTreeSet::new();
    let mut r = BTreeSet::new();
    if let Some(row) = row {
        for c in row {
            if !keep(c) {
                continue;
            }
            match c {
                ConcreteType::Integer => flags[0] = true,
                ConcreteType::Binary => flags[1] = true,
                ConcreteType::Reference => flags[2] = true,
                ConcreteType::Tuple(i) => {
                    t.insert(*i);
                }
                ConcreteType::Function(i) => {
                    f.insert(*i);
                }
                ConcreteType::Builtin(i) => {
                    b.insert(*i);
                }
                ConcreteType::Process(i) => {
                    p.insert(*i);
                }
                ConcreteType::Resource(i) => {
                    r.insert(*i);
                }
            }
        }
    }
    let ids = |name: &str, s: &BTreeSet<usize>| {
        let mut o = format!("({}", name);
        for i in s {
            o.push_str(&format!(" {}", i));
        }
        o.push(')');
        o
    };
    format!(
        "(row {} {} (flags {} {} {}) {} {} {} {} {})",
        y,
        if row.is_some() { "present" } else { "absent" },
        flags[0] as u8,
        flags[1] as u8,
        flags[2] as u8,
        ids("t", &t),
        ids("f", &f),
        ids("bi", &b),
        ids("p", &p),
        ids("res", &r)
    )
}

/// The renaming plus the rows of `type_compatibility` it must commute with: the rows of every type
/// tested by an `IsType` of a mapped function, on the source side restricted to mapped ids and on
/// the target side to their images (other entries concern values this program cannot build).
fn dump_rho(name: &str, rho: &Rho, p: &Bytecode, pt: &Tables, qt: &Tables) -> String {
    let mut s = format!("(rho {}", name);
    for (n, m) in [("c", &rho.c), ("f", &rho.f), ("t", &rho.t), ("y", &rho.y), ("b", &rho.b), ("r", &rho.r)] {
        s.push(' ');
        s.push_str(&dump_map(n, m));
    }
    let mut tested: BTreeSet<usize> = BTreeSet::new();
    for a in rho.f.keys() {
        if let Some(f) = p.functions.get(*a) {
            for i in &f.instructions {
                if let Instruction::IsType(y) = i {
                    tested.insert(*y);
                }
            }
        }
    }
    let img = |m: &BTreeMap<usize, usize>| m.values().copied().collect::<BTreeSet<usize>>();
    let (it, ifn, ib, ir) = (img(&rho.t), img(&rho.f), img(&rho.b), img(&rho.r));
    let keep_src = |c: &ConcreteType| match c {
        ConcreteType::Tuple(i) => rho.t.contains_key(i),
        ConcreteType::Function(i) | ConcreteType::Process(i) => rho.f.contains_key(i),
        ConcreteType::Builtin(i) => rho.b.contains_key(i),
        ConcreteType::Resource(i) => rho.r.contains_key(i),
        _ => true,
    };
    let keep_dst = |c: &ConcreteType| match c {
        ConcreteType::Tuple(i) => it.contains(i),
        ConcreteType::Function(i) | ConcreteType::Process(i) => ifn.contains(i),
        ConcreteType::Builtin(i) => ib.contains(i),
        ConcreteType::Resource(i) => ir.contains(i),
        _ => true,
    };
    s.push_str(" (rows-src");
    for y in &tested {
        s.push(' ');
        s.push_str(&dump_row(*y, pt.rows.get(*y), &keep_src));
    }
    s.push_str(") (rows-dst");
    let mut seen = BTreeSet::new();
    for y in &tested {
        if let Some(y2) = rho.y.get(y)
            && seen.insert(*y2)
        {
            s.push(' ');
            s.push_str(&dump_row(*y2, qt.rows.get(*y2), &keep_dst));
        }
    }
    s.push_str(") (conflicts");
    for c in &rho.conflicts {
        s.push(' ');
        s.push_str(&sexp::quote(c));
    }
    s.push_str("))");
    s
}

// ------------------------------------------------------------------ canonical result values

struct Canon<'a> {
    /// function id of the running program -> id in the common (`ts`) space
    fmap: &'a dyn Fn(usize) -> Option<usize>,
    builtins: Vec<String>,
    resources: Vec<String>,
    pids: Vec<usize>,
    refs: Vec<u64>,
    erase_functions: bool,
}

impl Canon<'_> {
    fn fid(&self, f: usize) -> String {
        if self.erase_functions {
            return "*".into();
        }
        match (self.fmap)(f) {
            Some(g) => g.to_string(),
            None => format!("unmapped:{}", f),
        }
    }
    fn dump(&mut self, v: &Value, lookup: &impl TypeLookup, bins: &Bins) -> String {
        match v {
            Value::Integer(n) => format!("(i {})", n),
            Value::Binary(b) => match bins.bytes(b) {
                Some(bytes) => format!("(b {})", hex(&bytes)),
                None => "(b ?)".to_string(),
            },
            Value::Reference(r) => {
                let k = match self.refs.iter().position(|x| x == r) {
                    Some(k) => k,
                    None => {
                        self.refs.push(*r);
                        self.refs.len() - 1
                    }
                };
                format!("(r #{})", k)
            }
            Value::Tuple(tid, fields) => {
                let (name, labels) = match lookup.lookup_tuple(*tid) {
                    Some(info) => (
                        info.name.clone().unwrap_or_else(|| "-".to_string()),
                        info.fields.iter().map(|(l, _)| l.clone().unwrap_or_else(|| "-".to_string())).collect::<Vec<_>>(),
                    ),
                    None => (format!("?{}", tid), vec![]),
                };
                let mut s = format!("(t {} ({})", name, labels.join(" "));
                for f in fields.iter() {
                    s.push(' ');
                    s.push_str(&self.dump(f, lookup, bins));
                }
                s.push(')');
                s
            }
            Value::Function(fid, caps) => {
                let mut s = format!("(f {}", self.fid(*fid));
                for c in caps.iter() {
                    s.push(' ');
                    s.push_str(&self.dump(c, lookup, bins));
                }
                s.push(')');
                s
            }
            Value::Builtin(id) => {
                format!("(bi {})", self.builtins.get(*id).cloned().unwrap_or_else(|| format!("?{}", id)))
            }
            Value::Process(pid, fid) => {
                let k = match self.pids.iter().position(|x| x == pid) {
                    Some(k) => k,
                    None => {
                        self.pids.push(*pid);
                        self.pids.len() - 1
                    }
                };
                format!("(p #{} {})", k, self.fid(*fid))
            }
            Value::Resource(rid, ty) => {
                format!("(res {} {})", rid, self.resources.get(*ty).cloned().unwrap_or_else(|| format!("?{}", ty)))
            }
        }
    }
}

/// One bounded synchronous run (as `qvh::run_bytecode`), result in the common id space.
fn run_sync(bc: &Bytecode, fmap: &dyn Fn(usize) -> Option<usize>, erase_functions: bool) -> String {
    let b2 = bc.clone();
    match guarded(move || qvh::execute_bounded(b2, 200_000)) {
        Err(loc) => format!("(panic \"{}\")", loc),
        Ok(Err(Ok(e))) => format!("(err {})", error_class(&e)),
        Ok(Err(Err(why))) => format!("(err {})", why),
        Ok(Ok((value, executor))) => {
            let bins = Bins::Exec(&executor, &bc.constants);
            let mut c = Canon {
                fmap,
                builtins: bc.builtins.iter().map(|b| b.name.clone()).collect(),
                resources: bc.resources.clone(),
                pids: vec![],
                refs: vec![],
                erase_functions,
            };
            format!("(ok {})", c.dump(&value, bc, &bins))
        }
    }
}

// ------------------------------------------------------------------ a real Environment + Worker on this thread

type Q<T> = Arc<Mutex<VecDeque<T>>>;
struct Rx(Q<Command<TestEffect>>);
struct Tx(Q<Event<TestEffect>>);
/// What the environment told its worker: the entry of the last `StartProcess` and the tables of the
/// last `UpdateProgram`. While `drop_starts` is set, `StartProcess` is withheld from the worker (the
/// programs merged earlier only occupy the tables; they are not run).
#[derive(Default)]
struct Seen {
    entry: Option<usize>,
    rows: Option<Vec<HashSet<ConcreteType>>>,
    canon: Option<Vec<usize>>,
    updates: usize,
}
struct Handle {
    cmd: Q<Command<TestEffect>>,
    evt: Q<Event<TestEffect>>,
    drop_starts: Arc<AtomicBool>,
    seen: Arc<Mutex<Seen>>,
}
impl CommandReceiver<TestEffect> for Rx {
    fn try_recv(&mut self) -> Result<Option<Command<TestEffect>>, EnvironmentError> {
        Ok(self.0.lock().unwrap().pop_front())
    }
}
impl EventSender<TestEffect> for Tx {
    fn send(&mut self, event: Event<TestEffect>) -> Result<(), EnvironmentError> {
        self.0.lock().unwrap().push_back(event);
        Ok(())
    }
}
impl WorkerHandle<TestEffect> for Handle {
    fn send(&mut self, command: Command<TestEffect>) -> Result<(), EnvironmentError> {
        match &command {
            Command::StartProcess { function_index, .. } => {
                self.seen.lock().unwrap().entry = *function_index;
                if self.drop_starts.load(Ordering::SeqCst) {
                    return Ok(());
                }
            }
            Command::UpdateProgram(u) => {
                let mut s = self.seen.lock().unwrap();
                s.rows = Some(u.type_compatibility.clone());
                s.canon = Some(u.canonical_tuples.clone());
                s.updates += 1;
            }
            _ => {}
        }
        self.cmd.lock().unwrap().push_back(command);
        Ok(())
    }
    fn try_recv(&mut self) -> Result<Option<Event<TestEffect>>, EnvironmentError> {
        Ok(self.evt.lock().unwrap().pop_front())
    }
}

fn test_file_open(
    process_id: ProcessId,
    _value: &Value,
    _executor: &mut Executor<TestEffect>,
) -> Result<BuiltinResult<TestEffect>, Error> {
    Ok(BuiltinResult::Action(Action::RequestEffect { process_id, effect: TestEffect::Open(0) }))
}

struct Backend {
    next: ResourceId,
    file_type: usize,
}
impl EffectBackend for Backend {
    type E = TestEffect;
    fn execute(&mut self, _pid: ProcessId, effect: TestEffect) -> Result<Option<EffectResult>, Error> {
        match effect {
            TestEffect::Open(_) => {
                self.next += 1;
                Ok(Some(Ok((Value::Resource(self.next, self.file_type), vec![]))))
            }
            TestEffect::Op(_, _) => Ok(Some(Ok((Value::ok(), vec![])))),
        }
    }
    fn process_completions(&mut self) -> Vec<(ProcessId, EffectResult)> {
        vec![]
    }
    fn close_resource(&mut self, _resource_id: ResourceId) {}
    fn set_type_ids(&mut self, resources: &[String], _results: &[(String, ResultTupleInfo)]) {
        if let Some(i) = resources.iter().position(|r| r == "File") {
            self.file_type = i;
        }
    }
}

struct EnvRun {
    env: Environment<TestEffect>,
    worker: Worker<TestEffect, Rx, Tx>,
    drop_starts: Arc<AtomicBool>,
    seen: Arc<Mutex<Seen>>,
}

impl EnvRun {
    fn new() -> Self {
        let mut registry = qvh::registry();
        registry.attach_implementation("file_open", test_file_open);
        let cmd: Q<Command<TestEffect>> = Arc::new(Mutex::new(VecDeque::new()));
        let evt: Q<Event<TestEffect>> = Arc::new(Mutex::new(VecDeque::new()));
        let drop_starts = Arc::new(AtomicBool::new(false));
        let seen = Arc::new(Mutex::new(Seen::default()));
        let worker = Worker::new(Rx(cmd.clone()), Tx(evt.clone()), registry, false, 0);
        let handle = Handle { cmd, evt, drop_starts: drop_starts.clone(), seen: seen.clone() };
        let mut env = Environment::<TestEffect>::new(vec![Box::new(handle)]);
        env.set_effect_backend(Box::new(Backend { next: 0, file_type: 0 }));
        EnvRun { env, worker, drop_starts, seen }
    }

    /// Merge a program without running it.
    fn merge_only(&mut self, bc: Bytecode) -> Result<(), String> {
        self.drop_starts.store(true, Ordering::SeqCst);
        let r = self.env.start_process(Some(bc)).map(|_| ()).map_err(|e| format!("{:?}", e));
        self.drop_starts.store(false, Ordering::SeqCst);
        r
    }

    /// Merge `bc`, start it, and return (pid, the whole merged program with the remapped entry).
    fn merge_and_start(&mut self, bc: Bytecode) -> Result<(ProcessId, Bytecode), String> {
        let pid = self.env.start_process(Some(bc)).map_err(|e| format!("{:?}", e))?;
        let entry = self.seen.lock().unwrap().entry.ok_or("no StartProcess command")?;
        Ok((pid, self.env.get_program().to_bytecode(Some(entry))))
    }

    /// The tables the worker was last given (falls back to recomputing them over the merged program).
    fn tables(&self, merged: &Bytecode) -> Tables {
        let s = self.seen.lock().unwrap();
        match (&s.rows, &s.canon) {
            (Some(r), Some(c)) => Tables { rows: r.clone(), canon: c.clone() },
            _ => tables_of(merged),
        }
    }

    fn run(&mut self, pid: ProcessId, merged: &Bytecode, fmap: &dyn Fn(usize) -> Option<usize>) -> String {
        let req = match self.env.request_result(pid, None) {
            Ok(r) => r,
            Err(e) => return format!("(env-error {})", sexp::quote(&format!("{:?}", e))),
        };
        let mut now: u64 = 0;
        let mut idle = 0usize;
        // Budget: WORKING iterations only (one worker.step = at most MAX_STEP_UNITS = 1000 instruction
        // units), so a packaging that makes the program loop is reported quickly as StepLimit on that
        // side (and differs from the other side) instead of stalling the whole check. Idle iterations
        // are bounded separately below. Both runs of a pair are deterministic and execute the same
        // instructions up to renaming, so they spend the same budget.
        let mut worked = 0usize;
        for _ in 0..2_000_000usize {
            if worked > 5_000 {
                break;
            }
            let mut did = false;
            match self.worker.step(now) {
                Ok(d) => did |= d,
                Err(e) => return format!("(env-error {})", sexp::quote(&format!("{:?}", e))),
            }
            match self.env.step() {
                Ok(d) => did |= d,
                Err(e) => return format!("(env-error {})", sexp::quote(&format!("{:?}", e))),
            }
            if !did {
                now += 1;
                idle += 1;
                if idle > 4000 {
                    return "(err Blocked)".into();
                }
            } else {
                idle = 0;
                worked += 1;
            }
            match self.env.poll_request(req) {
                Ok(Some(RequestResult::Result(Ok((value, heap)), _))) => {
                    let program = self.env.get_program();
                    let consts = program.get_constants().to_vec();
                    let bins = Bins::Extracted(&heap, &consts);
                    let mut c = Canon {
                        fmap,
                        builtins: merged.builtins.iter().map(|b| b.name.clone()).collect(),
                        resources: merged.resources.clone(),
                        pids: vec![],
                        refs: vec![],
                        erase_functions: false,
                    };
                    return format!("(ok {})", c.dump(&value, program, &bins));
                }
                Ok(Some(RequestResult::Result(Err(e), _))) => return format!("(err {})", error_class(&e)),
                Ok(Some(_)) => return "(env-error unexpected-result)".into(),
                Ok(None) => {}
                Err(e) => return format!("(env-error {})", sexp::quote(&format!("{:?}", e))),
            }
        }
        "(err StepLimit)".to_string()
    }
}

// ------------------------------------------------------------------ one case

fn modules_of(items: &[Sexp]) -> HashMap<Vec<String>, String> {
    let mut modules = HashMap::new();
    for m in items {
        if let Sexp::List(l) = m
            && !l.is_empty()
            && l[0].atom() == "mod"
        {
            let path: Vec<String> = l[1].atom().split('/').map(|s| s.to_string()).collect();
            modules.insert(path, l[2].atom().to_string());
        }
    }
    modules
}

fn inverse(m: &BTreeMap<usize, usize>) -> HashMap<usize, usize> {
    m.iter().map(|(a, b)| (*b, *a)).collect()
}

/// Field-wise comparison of a Bytecode with its JSON round trip (Bytecode has no PartialEq).
fn json_leg(ts: &Bytecode) -> Result<(Bytecode, String), String> {
    let text = serde_json::to_string(ts).map_err(|e| format!("serialise: {}", e))?;
    let back: Bytecode = serde_json::from_str(&text).map_err(|e| format!("deserialise: {}", e))?;
    let mut diffs = vec![];
    if back.constants != ts.constants {
        diffs.push("constants");
    }
    if back.functions != ts.functions {
        diffs.push("functions");
    }
    if back.builtins != ts.builtins {
        diffs.push("builtins");
    }
    if back.entry != ts.entry {
        diffs.push("entry");
    }
    if back.tuples != ts.tuples {
        diffs.push("tuples");
    }
    if back.types != ts.types {
        diffs.push("types");
    }
    if back.resources != ts.resources {
        diffs.push("resources");
    }
    // and the pretty form `quiv compile` writes
    let pretty = serde_json::to_string_pretty(ts).map_err(|e| format!("serialise: {}", e))?;
    let back2: Bytecode = serde_json::from_str(&pretty).map_err(|e| format!("deserialise pretty: {}", e))?;
    if format!("{:?}", back2) != format!("{:?}", ts) {
        diffs.push("pretty-form");
    }
    let verdict = if diffs.is_empty() { "same".to_string() } else { format!("differ {}", diffs.join(" ")) };
    Ok((back, verdict))
}

fn package_line(line: &str, dump: bool) -> String {
    let items = sexp::parse_all(line);
    let src = items[0].atom().to_string();
    let modules = modules_of(&items[1..]);
    let mut behind: Vec<String> = vec![];
    let mut merge_ac = false;
    for it in &items[1..] {
        if let Sexp::List(l) = it
            && !l.is_empty()
        {
            match l[0].atom() {
                "behind" => behind = l[1..].iter().map(|s| s.atom().to_string()).collect(),
                "merge" => merge_ac = l[1].atom() == "ac",
                _ => {}
            }
        }
    }
    let s2 = src.clone();
    let m2 = modules.clone();
    let c = match guarded(move || qvh::compile_source(&s2, m2)) {
        Err(loc) => return format!("(panic \"{}\")", loc),
        Ok(Err(e)) => return e.line(),
        Ok(Ok(c)) => c,
    };
    let ac = c.program.to_bytecode(Some(c.entry));
    let ts = match guarded(|| c.program.to_bytecode_optimized(c.entry)) {
        Ok(b) => b,
        Err(loc) => return format!("(package-panic tree-shake \"{}\")", loc),
    };
    let (js, json_verdict) = match guarded(|| json_leg(&ts)) {
        Ok(Ok(x)) => x,
        Ok(Err(e)) => return format!("(package-error json {})", sexp::quote(&e)),
        Err(loc) => return format!("(package-panic json \"{}\")", loc),
    };
    let rho_ts = reconstruct(&ac, &ts);

    // e-base: ts merged into a fresh environment
    let mut base = EnvRun::new();
    let ts2 = ts.clone();
    let (base_pid, m0) = match guarded(|| base.merge_and_start(ts2)) {
        Ok(Ok(x)) => x,
        Ok(Err(e)) => return format!("(package-error merge-base {})", sexp::quote(&e)),
        Err(loc) => return format!("(package-panic merge-base \"{}\")", loc),
    };
    let rho_base = reconstruct(&ts, &m0);

    // e-mg: behind the given programs
    let mut mg = EnvRun::new();
    let mut priors = 0usize;
    for p in &behind {
        let p2 = p.clone();
        if let Ok(Ok(pc)) = guarded(move || qvh::compile_source(&p2, HashMap::new())) {
            let Ok(pb) = guarded(|| pc.program.to_bytecode_optimized(pc.entry)) else { continue };
            match guarded(|| mg.merge_only(pb)) {
                Ok(Ok(())) => priors += 1,
                Ok(Err(e)) => return format!("(package-error merge-prior {})", sexp::quote(&e)),
                Err(loc) => return format!("(package-panic merge-prior \"{}\")", loc),
            }
        }
    }
    let before = mg.env.get_program().to_bytecode(None);
    let x = if merge_ac { ac.clone() } else { ts.clone() };
    let x2 = x.clone();
    let (mg_pid, m) = match guarded(|| mg.merge_and_start(x2)) {
        Ok(Ok(r)) => r,
        Ok(Err(e)) => return format!("(package-error merge {})", sexp::quote(&e)),
        Err(loc) => return format!("(package-panic merge \"{}\")", loc),
    };
    let rho_mg = reconstruct(&x, &m);

    // ---- runs, results in ts id space
    let f_ts = rho_ts.f.clone();
    let ac_to_ts = move |f: usize| f_ts.get(&f).copied();
    let id = |f: usize| Some(f);
    let s_ac = run_sync(&ac, &ac_to_ts, false);
    let s_ts = run_sync(&ts, &id, false);
    let s_js = run_sync(&js, &id, false);
    let inv_base = inverse(&rho_base.f);
    let e_base = {
        let fm = |f: usize| inv_base.get(&f).copied();
        match guarded(|| base.run(base_pid, &m0, &fm)) {
            Ok(s) => s,
            Err(loc) => format!("(panic \"{}\")", loc),
        }
    };
    let inv_mg = inverse(&rho_mg.f);
    let e_mg = {
        let fm = |f: usize| {
            let g = inv_mg.get(&f).copied()?;
            if merge_ac { ac_to_ts(g) } else { Some(g) }
        };
        match guarded(|| mg.run(mg_pid, &m, &fm)) {
            Ok(s) => s,
            Err(loc) => format!("(panic \"{}\")", loc),
        }
    };

    // ---- statistics of the merge: how much moved, how much was already there
    let moved = |m: &BTreeMap<usize, usize>| m.iter().filter(|(a, b)| a != b).count();
    let deduped = |m: &BTreeMap<usize, usize>, old_len: usize| m.values().filter(|b| **b < old_len).count();
    let shifted = moved(&rho_mg.c) + moved(&rho_mg.f) + moved(&rho_mg.t) + moved(&rho_mg.y) + moved(&rho_mg.b);
    let dedup = deduped(&rho_mg.c, before.constants.len())
        + deduped(&rho_mg.f, before.functions.len())
        + deduped(&rho_mg.t, before.tuples.len())
        + deduped(&rho_mg.y, before.types.len())
        + deduped(&rho_mg.b, before.builtins.len());
    let ninstr = |b: &Bytecode, fs: &mut dyn Iterator<Item = usize>| -> usize {
        fs.map(|f| b.functions.get(f).map(|f| f.instructions.len()).unwrap_or(0)).sum()
    };
    let mut out = format!(
        "(packaged (runs (s-ac {}) (s-ts {}) (s-js {}) (e-base {}) (e-mg {})) (json {}) (k {}) (merged {}) \
         (stats (fns-ac {}) (fns-ts {}) (fns-mg {}) (mapped-fns-ts {}) (mapped-ins-ts {}) (mapped-fns-mg {}) (mapped-ins-mg {}) \
         (shifted {}) (deduped {}) (dropped-fns {}) (updates {}))",
        s_ac,
        s_ts,
        s_js,
        e_base,
        e_mg,
        json_verdict,
        priors,
        if merge_ac { "ac" } else { "ts" },
        ac.functions.len(),
        ts.functions.len(),
        m.functions.len(),
        rho_ts.f.len(),
        ninstr(&ac, &mut rho_ts.f.keys().copied()),
        rho_mg.f.len(),
        ninstr(&x, &mut rho_mg.f.keys().copied()),
        shifted,
        dedup,
        ac.functions.len() - ts.functions.len().min(ac.functions.len()),
        mg.seen.lock().unwrap().updates,
    );
    if dump {
        let (tac, tts) = (tables_of(&ac), tables_of(&ts));
        let tm = mg.tables(&m);
        out.push(' ');
        out.push_str(&dump_program("ac", &ac, &tac.canon));
        out.push(' ');
        out.push_str(&dump_program("ts", &ts, &tts.canon));
        out.push(' ');
        out.push_str(&dump_program("mg", &m, &tm.canon));
        out.push(' ');
        // the environment's program just before this merge (input of the merge_bytecode model)
        out.push_str(&dump_program("before", &before, &[]));
        out.push(' ');
        out.push_str(&dump_rho("ts", &rho_ts, &ac, &tac, &tts));
        out.push(' ');
        out.push_str(&dump_rho("mg", &rho_mg, &x, if merge_ac { &tac } else { &tts }, &tm));
    }
    out.push(')');
    out
}

fn import_line(line: &str) -> String {
    let items = sexp::parse_all(line);
    let src = items[0].atom().to_string();
    let modules = modules_of(&items[1..]);
    let mut inplace = String::new();
    for it in &items[1..] {
        if let Sexp::List(l) = it
            && !l.is_empty()
            && l[0].atom() == "inplace"
        {
            inplace = l[1].atom().to_string();
        }
    }
    let one = |s: String, m: HashMap<Vec<String>, String>| -> String {
        let c = match guarded(move || qvh::compile_source(&s, m)) {
            Err(loc) => return format!("(panic \"{}\")", loc),
            Ok(Err(e)) => return e.line(),
            Ok(Ok(c)) => c,
        };
        let bc = c.program.to_bytecode(Some(c.entry));
        run_sync(&bc, &|f| Some(f), true)
    };
    format!("(import {} {})", one(src, modules), one(inplace, HashMap::new()))
}

/// `--dump-json`: the tree-shaken Bytecode of each source as `quiv compile` writes it (one line).
fn dump_json_line(line: &str) -> String {
    let items = sexp::parse_all(line);
    let src = items[0].atom().to_string();
    let modules = modules_of(&items[1..]);
    match guarded(move || qvh::compile_source(&src, modules)) {
        Ok(Ok(c)) => match guarded(|| c.program.to_bytecode_optimized(c.entry)) {
            Ok(b) => serde_json::to_string(&b).unwrap_or_else(|e| format!("(json-error {})", e)),
            Err(loc) => format!("(panic \"{}\")", loc),
        },
        Ok(Err(e)) => e.line(),
        Err(loc) => format!("(panic \"{}\")", loc),
    }
}

/// `--json`: `(json "<Bytecode as JSON>") (behind "<source>"*)`: what `quiv run file.json` does with a
/// hand-written Bytecode: run it alone (fresh environment) and merged behind the given programs.
/// -> `(jsonrun (alone O) (merged O))`, function ids erased.
fn json_line(line: &str) -> String {
    let items = sexp::parse_all(line);
    let mut text = String::new();
    let mut behind: Vec<String> = vec![];
    for it in &items {
        if let Sexp::List(l) = it
            && !l.is_empty()
        {
            match l[0].atom() {
                "json" => text = l[1].atom().to_string(),
                "behind" => behind = l[1..].iter().map(|s| s.atom().to_string()).collect(),
                _ => {}
            }
        }
    }
    let bc: Bytecode = match serde_json::from_str(&text) {
        Ok(b) => b,
        Err(e) => return format!("(jsonrun (bad-json {}))", sexp::quote(&e.to_string())),
    };
    let one = |priors: &[String]| -> String {
        let mut env = EnvRun::new();
        for p in priors {
            let p2 = p.clone();
            if let Ok(Ok(pc)) = guarded(move || qvh::compile_source(&p2, HashMap::new()))
                && let Ok(pb) = guarded(|| pc.program.to_bytecode_optimized(pc.entry))
            {
                let _ = guarded(|| env.merge_only(pb));
            }
        }
        let b2 = bc.clone();
        match guarded(|| env.merge_and_start(b2)) {
            Ok(Ok((pid, m))) => match guarded(|| env.run(pid, &m, &|_| None)) {
                Ok(s) => s,
                Err(loc) => format!("(panic \"{}\")", loc),
            },
            Ok(Err(e)) => format!("(merge-error {})", sexp::quote(&e)),
            Err(loc) => format!("(panic \"{}\")", loc),
        }
    };
    format!("(jsonrun (alone {}) (merged {}))", one(&[]), one(&behind))
}

fn main() {
    qvh::quiet_panics();
    let args: Vec<String> = std::env::args().collect();
    let dump = !args.iter().any(|a| a == "--no-dump");
    let import = args.iter().any(|a| a == "--import");
    for line in qvh::stdin_cases() {
        if args.iter().any(|a| a == "--dump-json") {
            println!("{}", dump_json_line(&line));
            continue;
        }
        if args.iter().any(|a| a == "--json") {
            match guarded(|| json_line(&line)) {
                Ok(s) => println!("{}", s.replace('\n', " ")),
                Err(loc) => println!("(panic \"{}\")", loc),
            }
            continue;
        }
        let out = if import {
            guarded(|| import_line(&line))
        } else {
            guarded(|| package_line(&line, dump))
        };
        match out {
            Ok(s) => println!("{}", s.replace('\n', " ")),
            Err(loc) => println!("(panic \"{}\")", loc),
        }
    }
}
