//! qv_format: drives the real formatter / simplifier / pretty printer / parser string processing.
//!
//! Modes (argv[1]); one case per stdin line, one output line per case:
//!   e2e [--out]  `"<source>"`  real-vs-real metamorphic check of `format_program`:
//!        (parse-error) | (panic "<loc>" <stage>) |
//!        (e2e (reparse ok|err) (idem ok|diff) (ast ok|diff) (bc same|diff|skip|<..>) (comments ok|diff)
//!             (ncomments n) (maxline n) (lines n) (feat (Variant n)..) [(out "<formatted>") (out2 "..")])
//!   norm  `"<source>" M R`     parse with the real parser, dump the AST, apply the real
//!        `normalize_blocks` with the compiler options and with the formatter options
//!        (keep c = c.span is Some(off) && off % M == R; M = 0 means keep nothing); prints
//!        `<in>\t<compiler-out>\t<formatter-out>` (three AST dumps) or `(parse-error)`.
//!   esc   `(single cp..) | (multi depth cp..) | (psingle cp..) | (pmulti depth cp..)`
//!        builds a one-string program AST, runs the real `format_program`, re-parses the output with
//!        the real parser: `(esc (out cp..) (back ok cp.. | err | other))`
//!   rawmulti `(term|pat cp..)`  parses `"""<raw>"""` with the real parser:
//!        `(ok cp..) | (err) | (other)` (other: holes / more than one text segment)
//!   rawsingle `(term|pat cp..)` same for `"<raw>"`.
//!   pretty `(pretty (w n..) <doc>)`  real `pretty::print` at each width: `(printed (cp..) ..)`
//!   frag   `(fragfmt (c t+))` | `(fragparse cp..)`  the data-literal fragment of FormatFrag.v: real format_program on a
//!        fragment AST + real parser on its output: `(frag (out cp..) (back (ok (c ..))|(err)|(other)))`; real parser on a text
//!   comments `"<source>"`      the harness's own hole-aware comment scanner: `(comments "c1" ..)`
use qvh::sexp::{self, Sexp, quote};
use qvh::{guarded, hex};
use quiver_compiler::ast::*;
use quiver_compiler::pretty::{self, Doc};
use quiver_compiler::simplify::{Options, normalize_blocks};
use quiver_compiler::{format_program, parse};
use std::collections::{BTreeMap, HashMap};

// ------------------------------------------------------------------------------------------
// AST dumper: every variant by name; spans dropped except the chain span offset (read by the
// formatter's `keep` closure). Names are atoms, text is hex (`x..`), None is `-`.
// ------------------------------------------------------------------------------------------
fn a(s: &str) -> Sexp {
    Sexp::Atom(s.to_string())
}
fn l(head: &str, mut items: Vec<Sexp>) -> Sexp {
    let mut v = vec![a(head)];
    v.append(&mut items);
    Sexp::List(v)
}
fn opt_name(n: &Option<String>) -> Sexp {
    match n {
        Some(s) => a(s),
        None => a("-"),
    }
}
fn names(v: &[String]) -> Sexp {
    Sexp::List(v.iter().map(|s| a(s)).collect())
}
fn xhex(b: &[u8]) -> Sexp {
    a(&format!("x{}", hex(b)))
}

fn d_program(p: &Program) -> Sexp {
    l("Program", p.statements.iter().map(d_statement).collect())
}
fn d_statement(s: &Statement) -> Sexp {
    match s {
        Statement::TypeAlias {
            name,
            type_parameters,
            type_definition,
            ..
        } => l(
            "TypeAlias",
            vec![opt_name(name), names(type_parameters), d_type(type_definition)],
        ),
        Statement::Expression(seq) => l("Expression", vec![d_sequence(seq)]),
    }
}
fn d_sequence(s: &Sequence) -> Sexp {
    l("Sequence", s.chains.iter().map(d_chain).collect())
}
fn d_chain(c: &Chain) -> Sexp {
    let mut v = vec![
        match &c.match_pattern {
            Some(m) => l("Some", vec![d_match(m)]),
            None => a("-"),
        },
        match c.span.get() {
            Some(sp) => a(&sp.offset.to_string()),
            None => a("-"),
        },
    ];
    v.extend(c.terms.iter().map(d_term));
    l("Chain", v)
}
fn d_literal(x: &Literal) -> Sexp {
    match x {
        Literal::Integer(n) => l("Integer", vec![a(&n.to_string())]),
        Literal::Binary(b) => l("Binary", vec![xhex(b)]),
    }
}
fn d_style(s: &StringStyle) -> Sexp {
    a(match s {
        StringStyle::Single => "Single",
        StringStyle::Multi => "Multi",
    })
}
fn d_term(t: &Term) -> Sexp {
    match t {
        Term::Literal(x) => l("Literal", vec![d_literal(x)]),
        Term::Tuple(t) => d_tuple(t),
        Term::String(style, segs) => {
            let mut v = vec![d_style(style)];
            v.extend(segs.iter().map(|s| match s {
                StrSegment::Text(b) => l("Text", vec![xhex(b)]),
                StrSegment::Hole(e) => l("Hole", vec![d_expression(e)]),
            }));
            l("String", v)
        }
        Term::Match(m) => l("Match", vec![d_match(m)]),
        Term::Block(e) => l("Block", vec![d_expression(e)]),
        Term::Function(f) => l(
            "Function",
            vec![
                names(&f.type_parameters),
                f.parameter_type.as_ref().map_or(a("-"), d_type),
                f.return_type.as_ref().map_or(a("-"), d_type),
                f.body.as_ref().map_or(a("-"), d_expression),
            ],
        ),
        Term::Access(x) => l("Access", vec![d_access(x)]),
        Term::Spawn(inner, _) => l("Spawn", vec![d_term(inner)]),
        Term::Self_ => l("Self_", vec![]),
        Term::Select(None, _) => l("Select", vec![a("-")]),
        Term::Select(Some(chains), _) => l(
            "Select",
            vec![l("Some", chains.iter().map(d_chain).collect())],
        ),
        Term::Process(n) => l("Process", vec![a(&n.to_string())]),
        Term::Reference(x) => l("Reference", vec![d_access(x)]),
    }
}
fn d_tuple(t: &Tuple) -> Sexp {
    let mut v = vec![match &t.name {
        TupleName::Anonymous => a("Anonymous"),
        TupleName::Named(n) => l("Named", vec![a(n)]),
        TupleName::Inherit => a("Inherit"),
    }];
    v.extend(t.fields.iter().map(|f| {
        l(
            "TupleField",
            vec![
                opt_name(&f.name),
                match &f.value {
                    FieldValue::Chain(c) => l("FChain", vec![d_chain(c)]),
                    FieldValue::Spread(n) => l("FSpread", vec![opt_name(n)]),
                },
            ],
        )
    }));
    l("Tuple", v)
}
fn d_expression(e: &Expression) -> Sexp {
    l(
        "ExpressionB",
        e.branches
            .iter()
            .map(|b| {
                l(
                    "Branch",
                    vec![
                        d_sequence(&b.condition),
                        b.consequence.as_ref().map_or(a("-"), d_sequence),
                    ],
                )
            })
            .collect(),
    )
}
fn d_access(x: &Access) -> Sexp {
    let mut v = vec![match &x.source {
        None => a("-"),
        Some(AccessSource::Identifier(n)) => l("Identifier", vec![a(n)]),
        Some(AccessSource::Parameter) => a("Parameter"),
        Some(AccessSource::Ripple) => a("Ripple"),
        Some(AccessSource::Import(p)) => l("Import", p.iter().map(|s| a(s)).collect()),
        Some(AccessSource::Self_) => a("SelfSrc"),
        Some(AccessSource::Builtin(n)) => l("Builtin", vec![a(n)]),
        Some(AccessSource::TailCall(n)) => l("TailCall", vec![opt_name(n)]),
        Some(AccessSource::TailCallRipple) => a("TailCallRipple"),
    }];
    v.extend(x.accessors.iter().map(|p| match p {
        AccessPath::Field(n) => l("Field", vec![a(n)]),
        AccessPath::Index(i) => l("Index", vec![a(&i.to_string())]),
    }));
    l("AccessT", v)
}
fn d_match(m: &Match) -> Sexp {
    match m {
        Match::Identifier(n, _) => l("MIdentifier", vec![a(n)]),
        Match::Literal(x) => l("MLiteral", vec![d_literal(x)]),
        Match::String(style, b) => l("MString", vec![d_style(style), xhex(b)]),
        Match::Tuple(t) => {
            let mut v = vec![opt_name(&t.name)];
            v.extend(
                t.fields
                    .iter()
                    .map(|f| l("MatchField", vec![opt_name(&f.name), d_match(&f.pattern)])),
            );
            l("MTuple", v)
        }
        Match::Partial(p) => {
            let mut v = vec![opt_name(&p.name)];
            v.extend(p.fields.iter().map(|f| {
                l(
                    "PartialPatternField",
                    vec![a(&f.name), f.pattern.as_ref().map_or(a("-"), d_match)],
                )
            }));
            l("MPartial", v)
        }
        Match::Star(n) => l("MStar", vec![opt_name(n)]),
        Match::Placeholder => l("MPlaceholder", vec![]),
        Match::Reference(n, _) => l("MReference", vec![a(n)]),
        Match::Type(t) => l("MType", vec![d_type(t)]),
        Match::Or(ms) => l("MOr", ms.iter().map(d_match).collect()),
        Match::As(t, n, _) => l("MAs", vec![d_type(t), a(n)]),
    }
}
fn d_types(ts: &[Type]) -> Sexp {
    Sexp::List(ts.iter().map(d_type).collect())
}
fn d_type(t: &Type) -> Sexp {
    match t {
        Type::Primitive(p) => l(
            "TPrimitive",
            vec![a(match p {
                PrimitiveType::Int => "Int",
                PrimitiveType::Bin => "Bin",
                PrimitiveType::Ref => "Ref",
            })],
        ),
        Type::Tuple(tt) => {
            let mut v = vec![opt_name(&tt.name), a(if tt.is_partial { "partial" } else { "full" })];
            v.extend(tt.fields.iter().map(|f| match f {
                FieldType::Field { name, type_def } => {
                    l("FieldT", vec![opt_name(name), d_type(type_def)])
                }
                FieldType::Spread {
                    identifier,
                    type_arguments,
                } => l("SpreadT", vec![opt_name(identifier), d_types(type_arguments)]),
            }));
            l("TTuple", v)
        }
        Type::Function(f) => l("TFunction", vec![d_type(&f.input), d_type(&f.output)]),
        Type::Union(u) => l("TUnion", u.types.iter().map(d_type).collect()),
        Type::Intersection(ts) => l("TIntersection", ts.iter().map(d_type).collect()),
        Type::Identifier { name, arguments } => l("TIdentifier", vec![a(name), d_types(arguments)]),
        Type::Cycle(n) => l(
            "TCycle",
            vec![n.map_or(a("-"), |n| a(&n.to_string()))],
        ),
        Type::Process(p) => l(
            "TProcess",
            vec![
                p.receive_type.as_ref().map_or(a("-"), |t| d_type(t)),
                p.return_type.as_ref().map_or(a("-"), |t| d_type(t)),
            ],
        ),
        Type::Resource(n) => l("TResource", vec![a(n)]),
        Type::ModuleType {
            module,
            member,
            arguments,
        } => l(
            "TModuleType",
            vec![
                Sexp::List(module.iter().map(|s| a(s)).collect()),
                opt_name(member),
                d_types(arguments),
            ],
        ),
        Type::SelfDefault { arguments } => l("TSelfDefault", vec![d_types(arguments)]),
    }
}

fn count_heads(s: &Sexp, out: &mut BTreeMap<String, usize>) {
    if let Sexp::List(items) = s {
        if let Some(Sexp::Atom(h)) = items.first() {
            if h.chars().next().is_some_and(|c| c.is_ascii_uppercase()) {
                *out.entry(h.clone()).or_default() += 1;
            }
        }
        for it in items {
            count_heads(it, out);
        }
    } else if let Sexp::Atom(h) = s {
        // nullary variants printed as bare atoms
        if matches!(
            h.as_str(),
            "Parameter" | "Ripple" | "SelfSrc" | "TailCallRipple" | "Inherit" | "Anonymous" | "Multi" | "Single"
        ) {
            *out.entry(h.clone()).or_default() += 1;
        }
    }
}

// ------------------------------------------------------------------------------------------
// Comment scanner (independent of format.rs's scan_trivia): follows the *parser's* lexical
// structure — `//` to end of line (\n or \r) in code context; strings `"…"` / `"""…"""` with
// backslash escapes; an unescaped `{` inside a string opens a hole (code context) until the
// matching `}`.
// ------------------------------------------------------------------------------------------
#[derive(Clone, Copy, PartialEq)]
enum Ctx {
    Code(usize), // brace depth inside a hole (0 = top level)
    Single,
    Multi,
}
fn scan_comments(src: &str) -> Vec<String> {
    scan_comments2(src).0
}
/// (comments, some comment lies inside an interpolation hole)
fn scan_comments2(src: &str) -> (Vec<String>, bool) {
    let r = scan_comments3(src);
    (r.0, r.1)
}
/// (comments, a comment lies inside a hole, byte offset of each comment,
///  a comment lies inside the brackets of a `=pattern` match term)
fn scan_comments3(src: &str) -> (Vec<String>, bool, Vec<usize>, bool) {
    let r = scan_comments4(src);
    (r.0, r.1, r.2, r.3)
}
/// as scan_comments3, plus: a comment lies inside a `[ ]` that holds nothing but commas and comments
fn scan_comments4(src: &str) -> (Vec<String>, bool, Vec<usize>, bool, bool, bool) {
    let r = scan_comments5(src);
    (r.0, r.1, r.2, r.3, r.4, r.5)
}
/// as scan_comments4, plus: a backslash occurs in the code of an interpolation hole (a resource type `\\Name`)
fn scan_comments5(src: &str) -> (Vec<String>, bool, Vec<usize>, bool, bool, bool, bool) {
    let mut hole_backslash = false;
    let mut brackets: Vec<(bool, bool, bool)> = vec![]; // (has code, has comment, is a `! [` source list) per open `[`
    let mut in_empty_brackets = false;
    let mut in_select_sources = false;
    let mut in_hole = false;
    let mut offsets = vec![];
    let mut in_match_term = false;
    let mut pat_active = false;
    let mut pdepth: i32 = 0;
    let byte_at: Vec<usize> = src.char_indices().map(|(b, _)| b).collect();
    let cs: Vec<char> = src.chars().collect();
    let mut out = vec![];
    let mut stack = vec![Ctx::Code(0)];
    let mut i = 0;
    let top_level = |st: &Vec<Ctx>| st.len() == 1;
    while i < cs.len() {
        let c = cs[i];
        match *stack.last().unwrap() {
            Ctx::Code(depth) => {
                if c == '/' && i + 1 < cs.len() && cs[i + 1] == '/' {
                    let mut j = i;
                    while j < cs.len() && cs[j] != '\n' && cs[j] != '\r' {
                        j += 1;
                    }
                    let text: String = cs[i..j].iter().collect();
                    out.push(text.trim_end().to_string());
                    offsets.push(byte_at[i]);
                    if let Some(top) = brackets.last_mut() {
                        top.1 = true;
                    }
                    if brackets.iter().any(|b| b.2) {
                        in_select_sources = true;
                    }
                    if pat_active && pdepth > 0 {
                        in_match_term = true;
                    }
                    if !top_level(&stack) {
                        in_hole = true;
                    }
                    i = j;
                    continue;
                }
                if c == '\\' && !top_level(&stack) {
                    hole_backslash = true;
                }
                if c == '[' {
                    if let Some(top) = brackets.last_mut() {
                        top.0 = true;
                    }
                    // `! [` (the `!`, horizontal space, then the bracket) opens a select source list
                    let mut k = i;
                    while k > 0 && (cs[k - 1] == ' ' || cs[k - 1] == '\t') {
                        k -= 1;
                    }
                    let is_select = k < i && k > 0 && cs[k - 1] == '!';
                    brackets.push((false, false, is_select));
                } else if c == ']' {
                    if let Some((has_code, has_comment, _)) = brackets.pop() {
                        if !has_code && has_comment {
                            in_empty_brackets = true;
                        }
                    }
                } else if !c.is_whitespace() && c != ',' {
                    if let Some(top) = brackets.last_mut() {
                        top.0 = true;
                    }
                }
                // lexical extent of a `=pattern` match term: from `=` up to whitespace / separator at bracket depth 0
                if !pat_active
                    && c == '='
                    && cs.get(i + 1).is_some_and(|n| !n.is_whitespace() && *n != '>' && *n != '=')
                    && (i == 0 || cs[i - 1] != '=')
                {
                    pat_active = true;
                    pdepth = 0;
                } else if pat_active {
                    match c {
                        '(' | '[' => pdepth += 1,
                        ')' | ']' => {
                            pdepth -= 1;
                            if pdepth < 0 {
                                pat_active = false;
                            }
                        }
                        ',' | '|' | '}' | '{' if pdepth == 0 => pat_active = false,
                        w if w.is_whitespace() && pdepth == 0 => pat_active = false,
                        _ => {}
                    }
                }
                if c == '"' {
                    if i + 2 < cs.len() && cs[i + 1] == '"' && cs[i + 2] == '"' {
                        stack.push(Ctx::Multi);
                        i += 3;
                    } else {
                        stack.push(Ctx::Single);
                        i += 1;
                    }
                    continue;
                }
                if c == '{' {
                    let n = stack.len();
                    stack[n - 1] = Ctx::Code(depth + 1);
                } else if c == '}' {
                    if depth <= 1 && !top_level(&stack) {
                        stack.pop(); // end of hole: back to the enclosing string
                    } else {
                        let n = stack.len();
                        stack[n - 1] = Ctx::Code(depth.saturating_sub(1));
                    }
                }
                i += 1;
            }
            Ctx::Single => {
                if c == '\\' {
                    i += 2;
                } else if c == '"' {
                    stack.pop();
                    i += 1;
                } else if c == '{' {
                    stack.push(Ctx::Code(1));
                    i += 1;
                } else {
                    i += 1;
                }
            }
            Ctx::Multi => {
                if c == '\\' {
                    i += 2;
                } else if c == '"' && i + 2 < cs.len() + 0 && cs.get(i + 1) == Some(&'"') && cs.get(i + 2) == Some(&'"') {
                    stack.pop();
                    i += 3;
                } else if c == '{' {
                    stack.push(Ctx::Code(1));
                    i += 1;
                } else {
                    i += 1;
                }
            }
        }
    }
    (out, in_hole, offsets, in_match_term, in_empty_brackets, in_select_sources, hole_backslash)
}


// ------------------------------------------------------------------------------------------
// Input signatures of the known findings F15..F19 (computed on the *input* AST / source only).
// ------------------------------------------------------------------------------------------
#[derive(Default)]
struct Sig {
    multi_blank2: bool, // F15: a """ string with two adjacent blank content lines
    multi_uspace: bool, // F18: a """ string line ending in a Unicode space other than ' ', tab, CR
    hole_string: bool,  // F16: a string literal / string pattern nested inside an interpolation hole
    tail_block: bool,   // F19: a non-final chain term that is a block ending in a tail call
    multi_pattern: bool,      // F33: a """ string *pattern*
    lower_tuple_type: bool,   // F34: a tuple type named by a lower-case type name: `'e[...]`
    paren_partial_type: bool, // F35: a type pattern that is a partial tuple type, e.g. `((j: 't))`
    spawn_rich_function: bool, // F36: spawn of a function with type parameters / return type / no body
    wrap_binding: bool, // F37: a branch of a multi-branch block whose body is one chain that binds/matches
    spawn_container: bool, // F39: `@` applied to a tuple / string / spawn / select term (format.rs:432 unreachable!)
    multi_branch: bool, // a block / function body with two or more branches
    primitive_named_identifier: bool, // F40: Type::Identifier named int/bin/ref (only `<'int>` produces it)
    toplevel_type_binding: bool, // F41: a statement-level chain bound to a type pattern: `'d<'t> = ...`
    self_default_pattern: bool, // F42: Type::SelfDefault inside a pattern
    hole_name_then_paren: bool, // F79c17: the F43 shape inside an interpolation hole
    name_then_paren: bool, // F43: a step ending in a bare tuple name followed by a step starting with `(`
    select_then_tuple: bool, // F60: bare `!` directly followed by an anonymous tuple term
    bodyless_fn_then_block: bool, // F61: a body-less function directly followed by a block (same chain or next step)
    multi_hole: bool, // F62 (with trivia): a """ string with an interpolation hole
    empty_select: bool, // F63: `! []`
    in_pattern: bool,
}
fn unprotected_space(c: char) -> bool {
    c.is_whitespace() && c != ' ' && c != '\t' && c != '\r' && c != '\n'
}
fn sig_multi_lines(lines: &[String], sig: &mut Sig) {
    // `lines`: the content lines as the formatter renders them (holes as a non-blank placeholder)
    let blank = |l: &String| l.chars().all(unprotected_space);
    for w in lines.windows(2) {
        if blank(&w[0]) && blank(&w[1]) {
            sig.multi_blank2 = true;
        }
    }
    for l in lines {
        if l.chars().last().is_some_and(unprotected_space) {
            sig.multi_uspace = true;
        }
    }
}
fn sig_multi_text(bytes: &[u8], sig: &mut Sig) {
    let text = String::from_utf8_lossy(bytes).to_string();
    let lines: Vec<String> = text.split('\n').map(|s| s.to_string()).collect();
    sig_multi_lines(&lines, sig);
}
fn ends_in_tail(t: &Term) -> bool {
    match t {
        Term::Access(Access {
            source: Some(AccessSource::TailCall(_) | AccessSource::TailCallRipple),
            ..
        }) => true,
        Term::Block(e) if e.branches.len() == 1 && e.branches[0].consequence.is_none() => e.branches[0]
            .condition
            .chains
            .last()
            .and_then(|c| c.terms.last())
            .is_some_and(ends_in_tail),
        _ => false,
    }
}

fn sig_type(t: &Type, sig: &mut Sig) {
    match t {
        Type::Tuple(tt) => {
            if tt.name.as_ref().is_some_and(|n| n.chars().next().is_some_and(|c| c.is_ascii_lowercase())) {
                sig.lower_tuple_type = true;
            }
            for f in &tt.fields {
                match f {
                    FieldType::Field { type_def, .. } => sig_type(type_def, sig),
                    FieldType::Spread { type_arguments, .. } => type_arguments.iter().for_each(|t| sig_type(t, sig)),
                }
            }
        }
        Type::Function(f) => {
            sig_type(&f.input, sig);
            sig_type(&f.output, sig);
        }
        Type::Union(u) => u.types.iter().for_each(|t| sig_type(t, sig)),
        Type::Intersection(ts) => ts.iter().for_each(|t| sig_type(t, sig)),
        Type::Identifier { name, arguments } => {
            if matches!(name.as_str(), "int" | "bin" | "ref") {
                sig.primitive_named_identifier = true;
            }
            arguments.iter().for_each(|t| sig_type(t, sig))
        }
        Type::SelfDefault { arguments } => {
            if sig.in_pattern {
                sig.self_default_pattern = true;
            }
            arguments.iter().for_each(|t| sig_type(t, sig))
        }
        Type::ModuleType { arguments, .. } => arguments.iter().for_each(|t| sig_type(t, sig)),
        Type::Process(p) => {
            if let Some(t) = &p.receive_type {
                sig_type(t, sig)
            }
            if let Some(t) = &p.return_type {
                sig_type(t, sig)
            }
        }
        _ => {}
    }
}
/// mirrors simplify.rs `contains_match` / `is_frame_free_chain` (negated)
fn term_contains_match(t: &Term) -> bool {
    match t {
        Term::Match(_) => true,
        Term::Tuple(tuple) => tuple.fields.iter().any(|f| match &f.value {
            FieldValue::Chain(c) => chain_binds(c),
            FieldValue::Spread(_) => false,
        }),
        Term::Select(Some(chains), _) => chains.iter().any(chain_binds),
        _ => false,
    }
}
fn chain_binds(c: &Chain) -> bool {
    c.match_pattern.is_some() || c.terms.iter().any(term_contains_match)
}
/// The term that ends up last / first once redundant-shaped blocks (one branch, no `=>`) are spliced away.
fn last_through_blocks(t: &Term) -> &Term {
    match t {
        Term::Block(e) if e.branches.len() == 1 && e.branches[0].consequence.is_none() => e.branches[0]
            .condition
            .chains
            .last()
            .and_then(|c| c.terms.last())
            .map_or(t, last_through_blocks),
        _ => t,
    }
}
fn first_through_blocks(t: &Term) -> &Term {
    match t {
        Term::Block(e)
            if e.branches.len() == 1
                && e.branches[0].consequence.is_none()
                && e.branches[0].condition.chains.len() == 1
                && e.branches[0].condition.chains[0].match_pattern.is_none() =>
        {
            e.branches[0].condition.chains[0].terms.first().map_or(t, first_through_blocks)
        }
        _ => t,
    }
}
fn is_bodyless_function(t: &Term) -> bool {
    matches!(t, Term::Function(f) if f.body.is_none())
}
fn type_ends_in_bare_name(t: &Type) -> bool {
    match t {
        Type::Tuple(tt) => tt.name.is_some() && tt.fields.is_empty() && !tt.is_partial,
        Type::Union(u) => u.types.last().is_some_and(type_ends_in_bare_name),
        Type::Intersection(ts) => ts.last().is_some_and(type_ends_in_bare_name),
        _ => false,
    }
}
fn chain_starts_with_paren(c: &Chain) -> bool {
    match &c.match_pattern {
        Some(Match::Partial(p)) => p.name.is_none(),
        Some(Match::Type(_) | Match::Or(_) | Match::As(..)) => true,
        _ => false,
    }
}
fn sig_match(m: &Match, in_hole: bool, sig: &mut Sig) {
    match m {
        Match::String(style, b) => {
            if in_hole {
                sig.hole_string = true;
            }
            if *style == StringStyle::Multi {
                sig.multi_pattern = true;
                sig_multi_text(b, sig);
            }
        }
        Match::Type(t) => {
            if matches!(t, Type::Tuple(tt) if tt.is_partial) {
                sig.paren_partial_type = true;
            }
            sig.in_pattern = true;
            sig_type(t, sig);
            sig.in_pattern = false;
        }
        Match::As(t, _, _) => {
            sig.in_pattern = true;
            sig_type(t, sig);
            sig.in_pattern = false;
        }
        Match::Tuple(t) => t.fields.iter().for_each(|f| sig_match(&f.pattern, in_hole, sig)),
        Match::Partial(p) => p.fields.iter().for_each(|f| {
            if let Some(m) = &f.pattern {
                sig_match(m, in_hole, sig)
            }
        }),
        Match::Or(ms) => ms.iter().for_each(|m| sig_match(m, in_hole, sig)),
        _ => {}
    }
}
fn sig_chain(c: &Chain, in_hole: bool, sig: &mut Sig) {
    if let Some(m) = &c.match_pattern {
        sig_match(m, in_hole, sig);
    }
    for w in c.terms.windows(2) {
        if matches!(last_through_blocks(&w[0]), Term::Select(None, _))
            && matches!(first_through_blocks(&w[1]), Term::Tuple(t) if matches!(t.name, TupleName::Anonymous))
        {
            sig.select_then_tuple = true;
        }
        if is_bodyless_function(last_through_blocks(&w[0])) && matches!(&w[1], Term::Block(_)) {
            sig.bodyless_fn_then_block = true;
        }
    }
    let n = c.terms.len();
    for (i, t) in c.terms.iter().enumerate() {
        if i + 1 < n && matches!(t, Term::Block(_)) && ends_in_tail(t) {
            sig.tail_block = true;
        }
        sig_term(t, in_hole, sig);
    }
}
fn sig_steps(chains: &[Chain], in_hole: bool, sig: &mut Sig) {
    for w in chains.windows(2) {
        fn term_ends_bare(t: &Term) -> bool {
            match t {
                Term::Tuple(t) => matches!(t.name, TupleName::Named(_)) && t.fields.is_empty(),
                Term::Match(Match::Tuple(mt)) => mt.name.is_some() && mt.fields.is_empty(),
                // a block that may be spliced away: look at the end of its last step
                Term::Block(e) if e.branches.len() == 1 && e.branches[0].consequence.is_none() => e.branches[0]
                    .condition
                    .chains
                    .last()
                    .and_then(|c| c.terms.last())
                    .is_some_and(term_ends_bare),
                _ => false,
            }
        }
        let ends_bare = w[0].terms.last().is_some_and(term_ends_bare);
        if ends_bare && chain_starts_with_paren(&w[1]) {
            sig.name_then_paren = true;
            if in_hole {
                sig.hole_name_then_paren = true;
            }
        }
        if w[0].terms.last().is_some_and(|t| is_bodyless_function(last_through_blocks(t)))
            && w[1].match_pattern.is_none()
            && matches!(w[1].terms.first(), Some(Term::Block(_)))
        {
            sig.bodyless_fn_then_block = true;
        }
    }
}
fn sig_expression(e: &Expression, in_hole: bool, sig: &mut Sig) {
    for b in &e.branches {
        sig_steps(&b.condition.chains, in_hole, sig);
        if let Some(k) = &b.consequence {
            sig_steps(&k.chains, in_hole, sig);
        }
    }
    if e.branches.len() > 1 {
        sig.multi_branch = true;
        for b in &e.branches {
            let body = b.consequence.as_ref().unwrap_or(&b.condition);
            if let [c] = body.chains.as_slice() {
                if chain_binds(c) {
                    sig.wrap_binding = true;
                }
            }
        }
    }
    for b in &e.branches {
        b.condition.chains.iter().for_each(|c| sig_chain(c, in_hole, sig));
        if let Some(k) = &b.consequence {
            k.chains.iter().for_each(|c| sig_chain(c, in_hole, sig));
        }
    }
}
fn sig_term(t: &Term, in_hole: bool, sig: &mut Sig) {
    match t {
        Term::String(style, segs) => {
            if in_hole {
                sig.hole_string = true;
            }
            if *style == StringStyle::Multi {
                // rebuild the rendered content lines: text split on '\n', holes inline
                let mut lines = vec![String::new()];
                for seg in segs {
                    match seg {
                        StrSegment::Text(b) => {
                            let text = String::from_utf8_lossy(b).to_string();
                            let mut parts = text.split('\n');
                            if let Some(first) = parts.next() {
                                lines.last_mut().unwrap().push_str(first);
                            }
                            for p in parts {
                                lines.push(p.to_string());
                            }
                        }
                        StrSegment::Hole(_) => lines.last_mut().unwrap().push_str("{}"),
                    }
                }
                sig_multi_lines(&lines, sig);
            }
            for seg in segs {
                if let StrSegment::Hole(e) = seg {
                    if *style == StringStyle::Multi {
                        sig.multi_hole = true;
                    }
                    sig_expression(e, true, sig);
                }
            }
        }
        Term::Match(m) => sig_match(m, in_hole, sig),
        Term::Tuple(t) => t.fields.iter().for_each(|f| {
            if let FieldValue::Chain(c) = &f.value {
                sig_chain(c, in_hole, sig)
            }
        }),
        Term::Block(e) => sig_expression(e, in_hole, sig),
        Term::Function(f) => {
            if let Some(t) = &f.parameter_type {
                sig_type(t, sig)
            }
            if let Some(t) = &f.return_type {
                sig_type(t, sig)
            }
            if let Some(b) = &f.body {
                sig_expression(b, in_hole, sig)
            }
        }
        Term::Spawn(inner, _) => {
            if matches!(&**inner, Term::Tuple(_) | Term::String(..) | Term::Block(_) | Term::Spawn(..) | Term::Select(..)) {
                sig.spawn_container = true;
            }
            if let Term::Function(f) = &**inner {
                if !f.type_parameters.is_empty() || f.return_type.is_some() || f.body.is_none() {
                    sig.spawn_rich_function = true;
                }
            }
            sig_term(inner, in_hole, sig)
        }
        Term::Select(Some(cs), _) => {
            if cs.is_empty() {
                sig.empty_select = true;
            }
            cs.iter().for_each(|c| sig_chain(c, in_hole, sig))
        }
        _ => {}
    }
}
fn signature(p: &Program) -> Sig {
    let mut sig = Sig::default();
    for w in p.statements.windows(2) {
        if let (Statement::TypeAlias { type_definition, .. }, Statement::Expression(seq)) = (&w[0], &w[1]) {
            if type_ends_in_bare_name(type_definition) && seq.chains.first().is_some_and(chain_starts_with_paren) {
                sig.name_then_paren = true;
            }
        }
    }
    for s in &p.statements {
        match s {
            Statement::Expression(seq) => {
                sig_steps(&seq.chains, false, &mut sig);
                for c in &seq.chains {
                    if matches!(c.match_pattern, Some(Match::Type(_))) {
                        sig.toplevel_type_binding = true;
                    }
                    sig_chain(c, false, &mut sig)
                }
            }
            Statement::TypeAlias { type_definition, .. } => sig_type(type_definition, &mut sig),
        }
    }
    sig
}

/// (start, end) byte extents of every `cond => consequence` branch outside holes: from the first
/// character of the condition to the end of the last consequence step.
fn arrow_branches(p: &Program) -> Vec<(usize, usize)> {
    fn chain(c: &Chain, out: &mut Vec<(usize, usize)>) {
        c.terms.iter().for_each(|t| term(t, out));
    }
    fn expr(e: &Expression, out: &mut Vec<(usize, usize)>) {
        for b in &e.branches {
            if let Some(k) = &b.consequence {
                let start = b.condition.chains.first().and_then(|c| c.span.get()).map(|s| s.offset);
                let end = k.chains.last().and_then(|c| c.span.get()).map(|s| s.offset + s.length);
                if let (Some(a), Some(z)) = (start, end) {
                    out.push((a, z));
                }
                k.chains.iter().for_each(|c| chain(c, out));
            }
            b.condition.chains.iter().for_each(|c| chain(c, out));
        }
    }
    fn term(t: &Term, out: &mut Vec<(usize, usize)>) {
        match t {
            Term::Tuple(t) => t.fields.iter().for_each(|f| {
                if let FieldValue::Chain(c) = &f.value {
                    chain(c, out)
                }
            }),
            Term::Block(e) => expr(e, out),
            Term::Function(f) => {
                if let Some(b) = &f.body {
                    expr(b, out)
                }
            }
            Term::Spawn(inner, _) => term(inner, out),
            Term::Select(Some(cs), _) => cs.iter().for_each(|c| chain(c, out)),
            _ => {}
        }
    }
    let mut out = vec![];
    for s in &p.statements {
        if let Statement::Expression(seq) = s {
            seq.chains.iter().for_each(|c| chain(c, &mut out));
        }
    }
    out
}

/// Offsets of the binding patterns (`pat = chain`), for the "comment inside a pattern" signature.
fn bind_spans(p: &Program) -> Vec<(usize, usize)> {
    fn chain(c: &Chain, out: &mut Vec<(usize, usize)>) {
        if let Some(sp) = c.bind_span.get() {
            out.push((sp.offset, sp.offset + sp.length));
        }
        c.terms.iter().for_each(|t| term(t, out));
    }
    fn expr(e: &Expression, out: &mut Vec<(usize, usize)>) {
        for b in &e.branches {
            b.condition.chains.iter().for_each(|c| chain(c, out));
            if let Some(k) = &b.consequence {
                k.chains.iter().for_each(|c| chain(c, out));
            }
        }
    }
    fn term(t: &Term, out: &mut Vec<(usize, usize)>) {
        match t {
            Term::Tuple(t) => t.fields.iter().for_each(|f| {
                if let FieldValue::Chain(c) = &f.value {
                    chain(c, out)
                }
            }),
            Term::Block(e) => expr(e, out),
            Term::Function(f) => {
                if let Some(b) = &f.body {
                    expr(b, out)
                }
            }
            Term::Spawn(inner, _) => term(inner, out),
            Term::Select(Some(cs), _) => cs.iter().for_each(|c| chain(c, out)),
            // holes carry offsets relative to the hole: not usable
            _ => {}
        }
    }
    let mut out = vec![];
    for s in &p.statements {
        if let Statement::Expression(seq) = s {
            seq.chains.iter().for_each(|c| chain(c, &mut out));
        }
    }
    out
}

// ------------------------------------------------------------------------------------------
// e2e
// ------------------------------------------------------------------------------------------
fn canonical(p: Program) -> Program {
    normalize_blocks(
        p,
        &Options {
            keep: &|_| false,
            lift: true,
            group_consequences: false,
        },
    )
}

fn bytecode_of(src: &str) -> Result<String, String> {
    let s = src.to_string();
    match guarded(move || qvh::compile_source(&s, HashMap::new())) {
        Err(loc) => Err(format!("panic:{}", loc)),
        Ok(Err(e)) => Err(e.line()),
        Ok(Ok(c)) => {
            let bc = c.program.to_bytecode(Some(c.entry));
            Ok(serde_json::to_string(&bc).unwrap_or_else(|_| format!("{:?}", bc)))
        }
    }
}

fn e2e(src: &str, with_out: bool) -> String {
    let s0 = src.to_string();
    let ast = match guarded(move || parse(&s0)) {
        Err(loc) => return format!("(panic {} parse)", quote(&loc)),
        Ok(Err(_)) => return "(parse-error)".to_string(),
        Ok(Ok(a)) => a,
    };
    let mut feats = BTreeMap::new();
    count_heads(&d_program(&ast), &mut feats);
    let sig = signature(&ast);
    let ast_for_sig = ast.clone();
    let (a1, s1) = (ast.clone(), src.to_string());
    let out1 = match guarded(move || format_program(&a1, &s1)) {
        Err(loc) => {
            return format!(
                "(panic {} format{})",
                quote(&loc),
                if sig.spawn_container { " spawn-container" } else { "" }
            );
        }
        Ok(o) => o,
    };
    let mut fields: Vec<String> = vec![];
    let o1 = out1.clone();
    let re = match guarded(move || parse(&o1)) {
        Err(loc) => return format!("(panic {} reparse)", quote(&loc)),
        Ok(r) => r,
    };
    match re {
        Err(_) => {
            fields.push("(reparse err)".into());
        }
        Ok(ast2) => {
            fields.push("(reparse ok)".into());
            let (a2, s2) = (ast2.clone(), out1.clone());
            let out2 = match guarded(move || format_program(&a2, &s2)) {
                Err(loc) => return format!("(panic {} format2)", quote(&loc)),
                Ok(o) => o,
            };
            let squash = |t: &str| -> String {
                t.replace("~>", "").chars().filter(|c| !c.is_whitespace() && *c != ',' && *c != '|').collect()
            };
            fields.push(format!(
                "(idem {})",
                if out2 == out1 {
                    "ok"
                } else if squash(&out2) == squash(&out1) {
                    "layout"
                } else {
                    "content"
                }
            ));
            let same_ast = match guarded(move || canonical(ast) == canonical(ast2)) {
                Err(loc) => return format!("(panic {} normalize)", quote(&loc)),
                Ok(b) => b,
            };
            fields.push(format!("(ast {})", if same_ast { "ok" } else { "diff" }));
            let b1 = bytecode_of(src);
            let b2 = bytecode_of(&out1);
            let bc = match (&b1, &b2) {
                (Ok(x), Ok(y)) if x == y => "same".to_string(),
                (Ok(_), Ok(_)) => "diff".to_string(),
                (Err(e1), Err(e2)) if e1 == e2 => "skip".to_string(),
                (Err(e1), Err(e2)) => format!("(skip-differ {} {})", quote(e1), quote(e2)),
                (Ok(_), Err(e)) => format!("(lost-compile {})", quote(e)),
                (Err(e), Ok(_)) => format!("(gained-compile {})", quote(e)),
            };
            fields.push(format!("(bc {})", bc));
            if with_out && out2 != out1 {
                fields.push(format!("(out2 {})", quote(&out2)));
            }
        }
    }
    let (c_in, comment_in_hole, c_offsets, c_in_match, c_in_empty, c_in_select, hole_backslash) = scan_comments5(src);
    let binds = bind_spans(&ast_for_sig);
    let comment_in_pattern = c_in_match || c_offsets.iter().any(|o| binds.iter().any(|(a, b)| a <= o && o < b));
    let mut sigs = vec![];
    if sig.multi_blank2 {
        sigs.push("multi-blank2");
    }
    if sig.multi_uspace {
        sigs.push("multi-uspace");
    }
    if sig.hole_string {
        sigs.push("hole-string");
    }
    if sig.tail_block {
        sigs.push("tail-block");
    }
    if comment_in_hole {
        sigs.push("hole-comment");
    }
    if sig.multi_pattern {
        sigs.push("multi-pattern");
    }
    if sig.lower_tuple_type {
        sigs.push("lower-tuple-type");
    }
    if sig.paren_partial_type {
        sigs.push("partial-type-pattern");
    }
    if sig.spawn_rich_function {
        sigs.push("spawn-rich-function");
    }
    if sig.wrap_binding {
        sigs.push("wrap-binding");
    }
    if sig.primitive_named_identifier {
        sigs.push("primitive-named-identifier");
    }
    if sig.toplevel_type_binding {
        sigs.push("toplevel-type-binding");
    }
    if sig.self_default_pattern {
        sigs.push("self-default-type-pattern");
    }
    if sig.name_then_paren {
        sigs.push("name-then-paren");
    }
    if sig.hole_name_then_paren {
        sigs.push("hole-name-then-paren");
    }
    if !c_in.is_empty() {
        sigs.push("has-comment");
    }
    if comment_in_pattern {
        sigs.push("comment-in-pattern");
    }
    if c_in_empty {
        sigs.push("comment-in-empty-brackets");
    }
    if c_in_select {
        sigs.push("comment-in-select-sources");
    }
    if hole_backslash {
        sigs.push("hole-backslash");
    }
    {
        // a comment followed, up to the closing bracket, only by commas and further comments
        let hit = c_offsets.iter().any(|o| {
            let mut rest = &src[*o..];
            let mut commas = 0;
            loop {
                if rest.starts_with("//") {
                    rest = rest.find('\n').map_or("", |at| &rest[at..]);
                }
                let t = rest.trim_start();
                if let Some(r) = t.strip_prefix(',') {
                    commas += 1;
                    rest = r.trim_start();
                } else {
                    rest = t;
                }
                if !rest.starts_with("//") && !rest.starts_with(',') {
                    break;
                }
            }
            commas > 0 && rest.starts_with([']', '}', ')'])
        });
        if hit {
            sigs.push("comment-before-comma-closer");
        }
    }
    {
        // F31 (residual class): a comment inside the body of a type alias — after the alias name and before the
        // last code character of the alias (types have no spans; the alias ends where the next statement starts)
        let starts: Vec<(usize, bool)> = ast_for_sig
            .statements
            .iter()
            .filter_map(|st| match st {
                Statement::TypeAlias { name_span, .. } => name_span.get().map(|sp| (sp.offset, true)),
                Statement::Expression(seq) => seq.chains.first().and_then(|c| c.span.get()).map(|sp| (sp.offset, false)),
            })
            .collect();
        let in_comment = |pos: usize| {
            c_offsets.iter().any(|o| {
                *o <= pos && pos < src[*o..].find(|c| c == '\n' || c == '\r').map_or(src.len(), |k| o + k)
            })
        };
        let mut hit = false;
        for (i, (start, is_alias)) in starts.iter().enumerate() {
            if !is_alias {
                continue;
            }
            let region_end = starts.get(i + 1).map_or(src.len(), |n| n.0);
            let code_end = src[*start..region_end]
                .char_indices()
                .filter(|(k, c)| !c.is_whitespace() && !in_comment(start + k))
                .map(|(k, _)| start + k)
                .last()
                .unwrap_or(*start);
            if c_offsets.iter().any(|o| start < o && *o < code_end) {
                hit = true;
            }
        }
        if hit {
            sigs.push("comment-in-type");
        }
    }
    {
        // F38: a comment inside a `cond => consequence` branch (or trailing it on the line where it ends)
        let arrows = arrow_branches(&ast_for_sig);
        let line_end = |z: usize| src[z.min(src.len())..].find('\n').map_or(src.len(), |k| z + k);
        if c_offsets.iter().any(|o| arrows.iter().any(|(a, z)| a <= o && *o <= line_end(*z))) {
            sigs.push("comment-in-arrow-branch");
        }
    }
    {
        // F44 (mechanism seen in the OUTPUT): a deferred trailing comment was flushed onto a line whose
        // successor is a `~>` continuation line — the chain separator admits no comment there
        let (_, _, offs, _) = scan_comments3(&out1);
        let lines: Vec<&str> = out1.split('\n').collect();
        let mut starts = vec![0usize];
        for l in &lines {
            starts.push(starts.last().unwrap() + l.len() + 1);
        }
        let hit = offs.iter().any(|o| {
            let ln = starts.partition_point(|s| s <= o) - 1;
            // ... before a `~>` continuation line
            let before_cont = lines.get(ln + 1).is_some_and(|next| next.trim_start().starts_with("~>"));
            // ... or right after the `=` of a binding whose value was moved to the next line
            let code = lines[ln][..o - starts[ln]].trim_end();
            let after_bind_eq = code.ends_with(" =") || code == "=";
            before_cont || after_bind_eq
        });
        // ... or right after an opening `"""` (then it is swallowed by the string): text after an opening delimiter
        let mut after_open = false;
        {
            let cs: Vec<char> = out1.chars().collect();
            let (mut i, mut in_multi, mut in_single) = (0usize, false, false);
            while i < cs.len() {
                let c = cs[i];
                if in_single {
                    if c == '\\' {
                        i += 1;
                    } else if c == '"' {
                        in_single = false;
                    }
                } else if in_multi {
                    if c == '\\' {
                        i += 1;
                    } else if c == '"' && cs.get(i + 1) == Some(&'"') && cs.get(i + 2) == Some(&'"') {
                        in_multi = false;
                        i += 2;
                    }
                } else if c == '/' && cs.get(i + 1) == Some(&'/') {
                    while i < cs.len() && cs[i] != '\n' {
                        i += 1;
                    }
                } else if c == '"' && cs.get(i + 1) == Some(&'"') && cs.get(i + 2) == Some(&'"') {
                    in_multi = true;
                    i += 3;
                    let mut j = i;
                    while j < cs.len() && cs[j] != '\n' {
                        if !cs[j].is_whitespace() {
                            after_open = true;
                        }
                        j += 1;
                    }
                    continue;
                } else if c == '"' {
                    in_single = true;
                }
                i += 1;
            }
        }
        if hit || after_open {
            sigs.push("out-comment-before-continuation");
        }
    }
    if sig.empty_select {
        sigs.push("empty-select-sources");
    }
    if sig.select_then_tuple {
        sigs.push("select-then-tuple");
    }
    if sig.bodyless_fn_then_block {
        sigs.push("bodyless-fn-then-block");
    }
    if sig.multi_branch && !c_in.is_empty() {
        sigs.push("comment-and-branches");
    }
    {
        // a blank (whitespace-only) line anywhere, incl. the first line (F30)
        let norm = src.replace("\r\n", "\n");
        if norm.split('\n').rev().skip(1).any(|l| l.trim().is_empty()) {
            sigs.push("blank-line");
        }
    }
    if c_in.len() >= 2 {
        sigs.push("two-comments");
    }
    if sig.multi_hole && (!c_in.is_empty() || sigs.contains(&"blank-line")) {
        sigs.push("multi-hole-trivia");
    }
    {
        // a comment directly after `=>` on its line, or a comment line followed by `=>` (F38)
        let norm = src.replace("\r\n", "\n");
        let mut prev_comment = false;
        let mut prev_arrow = false; // the last code seen (ignoring blank and comment-only lines) ended in `=>`
        let mut hit = false;
        for line in norm.split('\n') {
            let t = line.trim();
            if prev_comment && t.trim_start_matches(|c: char| c == '}' || c == ']' || c == ')' || c.is_whitespace()).starts_with("=>") {
                hit = true;
            }
            if let Some(i) = line.find("//") {
                let code = line[..i].trim();
                if code.ends_with("=>") || (code.is_empty() && prev_arrow) {
                    hit = true;
                }
                if !code.is_empty() {
                    prev_arrow = code.ends_with("=>");
                }
                prev_comment = true;
            } else if !t.is_empty() {
                prev_comment = false;
                prev_arrow = t.ends_with("=>");
            }
        }
        if hit {
            sigs.push("comment-near-arrow");
        }
    }
    fields.push(format!("(sig {})", sigs.join(" ")));
    let c_out = scan_comments(&out1);
    let ckind = if c_in == c_out {
        "ok"
    } else {
        let (mut a, mut b) = (c_in.clone(), c_out.clone());
        a.sort();
        b.sort();
        if a == b {
            "reordered"
        } else if !c_in.iter().all(|c| c_out.iter().any(|o| o.contains(c.as_str()))) {
            "lost"
        } else if c_out.len() <= c_in.len() {
            "merged"
        } else {
            "changed"
        }
    };
    fields.push(format!("(comments {})", ckind));
    fields.push(format!("(ncomments {})", c_in.len()));
    let maxline = out1.lines().map(|x| x.chars().count()).max().unwrap_or(0);
    fields.push(format!("(maxline {})", maxline));
    fields.push(format!("(lines {})", out1.lines().count()));
    let lens: Vec<String> = out1.lines().map(|x| x.chars().count().to_string()).collect();
    fields.push(format!("(linelens {})", lens.join(" ")));
    fields.push(format!(
        "(feat {})",
        feats
            .iter()
            .map(|(k, v)| format!("({} {})", k, v))
            .collect::<Vec<_>>()
            .join(" ")
    ));
    if with_out {
        fields.push(format!("(out {})", quote(&out1)));
    }
    format!("(e2e {})", fields.join(" "))
}

// ------------------------------------------------------------------------------------------
// norm
// ------------------------------------------------------------------------------------------
fn norm(src: &str, m: usize, r: usize) -> String {
    let s0 = src.to_string();
    let ast = match guarded(move || parse(&s0)) {
        Err(loc) => return format!("(panic {} parse)", quote(&loc)),
        Ok(Err(_)) => return "(parse-error)".to_string(),
        Ok(Ok(a)) => a,
    };
    let din = d_program(&ast).to_string();
    let a1 = ast.clone();
    let cp = match guarded(move || canonical(a1)) {
        Err(loc) => return format!("(panic {} normalize-c)", quote(&loc)),
        Ok(p) => p,
    };
    let c = d_program(&cp).to_string();
    let fnorm = move |p: Program| {
        normalize_blocks(
            p,
            &Options {
                keep: &|chain: &Chain| match chain.span.get() {
                    Some(sp) => m != 0 && sp.offset % m == r,
                    None => false,
                },
                lift: false,
                group_consequences: true,
            },
        )
    };
    let fp = match guarded(move || fnorm(ast)) {
        Err(loc) => return format!("(panic {} normalize-f)", quote(&loc)),
        Ok(p) => p,
    };
    let f = d_program(&fp).to_string();
    // the theorems, evaluated on the real function (real-vs-real)
    let (cp2, fp2, fp3) = (cp.clone(), fp.clone(), fp.clone());
    let props = match guarded(move || {
        let cc = canonical(cp2.clone()) == cp2;
        let ff = fnorm(fp2.clone()) == fp2;
        let cf = canonical(fp3) == cp;
        // `==` ignores spans (Spanned: always equal), so compare the span-carrying dumps too
        format!(
            "(props (cc {}) (ff {}) (cf {}))",
            if cc { "ok" } else { "diff" },
            if ff { "ok" } else { "diff" },
            if cf { "ok" } else { "diff" }
        )
    }) {
        Err(loc) => return format!("(panic {} normalize-props)", quote(&loc)),
        Ok(s) => s,
    };
    format!("{}\t{}\t{}\t{}", din, c, f, props)
}

// ------------------------------------------------------------------------------------------
// esc / raw string modes
// ------------------------------------------------------------------------------------------
fn cps_to_string(items: &[Sexp]) -> String {
    items
        .iter()
        .map(|x| char::from_u32(x.atom().parse::<u32>().unwrap()).unwrap())
        .collect()
}
fn string_to_cps(s: &str) -> String {
    s.chars()
        .map(|c| (c as u32).to_string())
        .collect::<Vec<_>>()
        .join(" ")
}
fn mk_chain(terms: Vec<Term>) -> Chain {
    Chain {
        match_pattern: None,
        bind_span: Spanned::default(),
        span: Spanned::default(),
        terms,
    }
}
fn nest_in_tuples(term: Term, depth: usize) -> Term {
    let mut t = term;
    for _ in 0..depth {
        t = Term::Tuple(Tuple {
            name: TupleName::Anonymous,
            fields: vec![TupleField {
                name: None,
                name_span: Spanned::default(),
                span: Spanned::default(),
                value: FieldValue::Chain(mk_chain(vec![t])),
            }],
            span: Spanned::default(),
        });
    }
    t
}
/// Find the (first) string term / string pattern of a re-parsed one-string program.
fn find_string(p: &Program) -> Option<Result<Vec<u8>, ()>> {
    fn in_term(t: &Term) -> Option<Result<Vec<u8>, ()>> {
        match t {
            Term::String(_, segs) => Some(match segs.as_slice() {
                [] => Ok(vec![]),
                [StrSegment::Text(b)] => Ok(b.clone()),
                _ => Err(()),
            }),
            Term::Match(Match::String(_, b)) => Some(Ok(b.clone())),
            Term::Tuple(t) => t.fields.iter().find_map(|f| match &f.value {
                FieldValue::Chain(c) => c.terms.iter().find_map(in_term),
                _ => None,
            }),
            _ => None,
        }
    }
    p.statements.iter().find_map(|s| match s {
        Statement::Expression(seq) => seq
            .chains
            .iter()
            .find_map(|c| c.terms.iter().find_map(in_term)),
        _ => None,
    })
}
fn back_of(parsed: Result<Program, quiver_compiler::parser::Error>) -> String {
    match parsed {
        Err(_) => "err".to_string(),
        Ok(p) => match find_string(&p) {
            Some(Ok(bytes)) => match String::from_utf8(bytes) {
                Ok(s) => format!("ok {}", string_to_cps(&s)),
                Err(_) => "other".to_string(),
            },
            _ => "other".to_string(),
        },
    }
}
fn esc(case: &Sexp) -> String {
    let kind = case.head().to_string();
    let (depth, cps) = match kind.as_str() {
        "single" | "psingle" => (0usize, &case.args()[..]),
        _ => (case.args()[0].usize(), &case.args()[1..]),
    };
    let s = cps_to_string(cps);
    let bytes = s.clone().into_bytes();
    let term = match kind.as_str() {
        "single" => Term::String(StringStyle::Single, vec![StrSegment::Text(bytes)]),
        "multi" => Term::String(StringStyle::Multi, vec![StrSegment::Text(bytes)]),
        "psingle" => Term::Match(Match::String(StringStyle::Single, bytes)),
        _ => Term::Match(Match::String(StringStyle::Multi, bytes)),
    };
    let program = Program {
        statements: vec![Statement::Expression(Sequence {
            chains: vec![mk_chain(vec![nest_in_tuples(term, depth)])],
        })],
    };
    let out = match guarded(move || format_program(&program, "")) {
        Err(loc) => return format!("(panic {} format)", quote(&loc)),
        Ok(o) => o,
    };
    let o1 = out.clone();
    let back = match guarded(move || parse(&o1)) {
        Err(loc) => return format!("(panic {} parse)", quote(&loc)),
        Ok(r) => back_of(r),
    };
    format!("(esc (out {}) (back {}))", string_to_cps(&out), back)
}
fn raw_string(case: &Sexp, delim: &str) -> String {
    let raw = cps_to_string(case.args());
    let src = if case.head() == "pat" {
        format!("x ={}{}{}", delim, raw, delim)
    } else {
        format!("{}{}{}", delim, raw, delim)
    };
    match guarded(move || parse(&src)) {
        Err(loc) => format!("(panic {} parse)", quote(&loc)),
        Ok(r) => format!("({})", back_of(r)),
    }
}

// ------------------------------------------------------------------------------------------
// pretty
// ------------------------------------------------------------------------------------------
fn doc_of(s: &Sexp) -> Doc {
    match s {
        Sexp::Atom(x) | Sexp::Str(x) => match x.as_str() {
            "nil" => Doc::Nil,
            "line" => Doc::Line,
            "softline" => Doc::SoftLine,
            "hardline" => Doc::HardLine,
            "breakparent" => Doc::BreakParent,
            other => panic!("bad doc atom {}", other),
        },
        Sexp::List(_) => match s.head() {
            "text" => Doc::Text(cps_to_string(s.args())),
            "concat" => Doc::Concat(s.args().iter().map(doc_of).collect()),
            "nest" => pretty::nest(s.args()[0].usize(), doc_of(&s.args()[1])),
            "group" => pretty::group(doc_of(&s.args()[0])),
            "rawgroup" => Doc::Group(Box::new(doc_of(&s.args()[1])), s.args()[0].atom() == "true"),
            "ifbreak" => pretty::if_break(doc_of(&s.args()[0]), doc_of(&s.args()[1])),
            "suffix" => pretty::line_suffix(doc_of(&s.args()[0])),
            other => panic!("bad doc {}", other),
        },
    }
}
fn pretty_case(case: &Sexp) -> String {
    let widths: Vec<usize> = case.args()[0].args().iter().map(|w| w.usize()).collect();
    let doc = doc_of(&case.args()[1]);
    let mut outs = vec![];
    for w in widths {
        let d = doc.clone();
        match guarded(move || pretty::print(&d, w)) {
            Err(loc) => outs.push(format!("(panic {})", quote(&loc))),
            Ok(s) => outs.push(format!("({})", string_to_cps(&s))),
        }
    }
    // pretty::flatten and pretty::flat_width (at the same numbers used as `max`)
    let d = doc.clone();
    let flat = match guarded(move || pretty::flatten(&d)) {
        Err(loc) => format!("(panic {})", quote(&loc)),
        Ok(s) => format!("({})", string_to_cps(&s)),
    };
    let fw: Vec<String> = case.args()[0]
        .args()
        .iter()
        .map(|w| pretty::flat_width(&doc, w.usize()).map_or("-".to_string(), |n| n.to_string()))
        .collect();
    format!("(printed {}) (flat {}) (fw {})", outs.join(" "), flat, fw.join(" "))
}


// ------------------------------------------------------------------------------------------
// the "data literal" fragment of FormatFrag.v: (c t+); t = (i N) | (id cp..) | (s cp..) | (t - f*) | (t (n cp..) f*);
// f = (f - t+) | (f (l cp..) t+)
// ------------------------------------------------------------------------------------------
fn frag_term_of(s: &Sexp) -> Term {
    match s.head() {
        "i" => Term::Literal(Literal::Integer(s.args()[0].atom().parse().unwrap())),
        "id" => Term::Access(Access {
            source: Some(AccessSource::Identifier(cps_to_string(s.args()))),
            accessors: vec![],
            accessor_spans: vec![],
            base_span: Spanned::default(),
            span: Spanned::default(),
        }),
        "s" => {
            let text = cps_to_string(s.args());
            Term::String(
                StringStyle::Single,
                if text.is_empty() { vec![] } else { vec![StrSegment::Text(text.into_bytes())] },
            )
        }
        "t" => {
            let name = match &s.args()[0] {
                Sexp::List(l) => TupleName::Named(cps_to_string(&l[1..])),
                _ => TupleName::Anonymous,
            };
            let fields = s.args()[1..]
                .iter()
                .map(|f| TupleField {
                    name: match &f.args()[0] {
                        Sexp::List(l) => Some(cps_to_string(&l[1..])),
                        _ => None,
                    },
                    name_span: Spanned::default(),
                    span: Spanned::default(),
                    value: FieldValue::Chain(mk_chain(f.args()[1..].iter().map(frag_term_of).collect())),
                })
                .collect();
            Term::Tuple(Tuple { name, fields, span: Spanned::default() })
        }
        other => panic!("bad fragment term {}", other),
    }
}
fn frag_of_term(t: &Term) -> Option<String> {
    Some(match t {
        Term::Literal(Literal::Integer(n)) => format!("(i {})", n),
        Term::Access(a) if a.accessors.is_empty() => match &a.source {
            Some(AccessSource::Identifier(n)) => format!("(id {})", string_to_cps(n)),
            _ => return None,
        },
        Term::String(StringStyle::Single, segs) => match segs.as_slice() {
            [] => "(s )".to_string(),
            [StrSegment::Text(b)] => format!("(s {})", string_to_cps(std::str::from_utf8(b).ok()?)),
            _ => return None,
        },
        Term::Tuple(t) => {
            let name = match &t.name {
                TupleName::Anonymous => "-".to_string(),
                TupleName::Named(n) => format!("(n {})", string_to_cps(n)),
                TupleName::Inherit => return None,
            };
            let mut out = format!("(t {}", name);
            for f in &t.fields {
                let FieldValue::Chain(c) = &f.value else { return None };
                if c.match_pattern.is_some() {
                    return None;
                }
                out.push_str(&format!(
                    " (f {}",
                    f.name.as_ref().map_or("-".to_string(), |n| format!("(l {})", string_to_cps(n)))
                ));
                for t in &c.terms {
                    out.push(' ');
                    out.push_str(&frag_of_term(t)?);
                }
                out.push(')');
            }
            out.push(')');
            out
        }
        _ => return None,
    })
}
fn frag_of_program(p: &Program) -> Option<String> {
    let [Statement::Expression(seq)] = p.statements.as_slice() else { return None };
    let [c] = seq.chains.as_slice() else { return None };
    if c.match_pattern.is_some() {
        return None;
    }
    let terms: Option<Vec<String>> = c.terms.iter().map(frag_of_term).collect();
    Some(format!("(c {})", terms?.join(" ")))
}
fn frag_back(src: &str) -> String {
    let s0 = src.to_string();
    match guarded(move || parse(&s0)) {
        Err(loc) => format!("(panic {})", quote(&loc)),
        Ok(Err(_)) => "(err)".to_string(),
        Ok(Ok(p)) => frag_of_program(&p).map_or("(other)".to_string(), |c| format!("(ok {})", c)),
    }
}
/// `(fragfmt (c t+))`: real format_program of the fragment AST, and the real parser on its output.
/// `(fragparse cp..)`: the real parser on a text.
fn frag_case(case: &Sexp) -> String {
    match case.head() {
        "fragfmt" => {
            let terms: Vec<Term> = case.args()[0].args().iter().map(frag_term_of).collect();
            let program = Program {
                statements: vec![Statement::Expression(Sequence { chains: vec![mk_chain(terms)] })],
            };
            let out = match guarded(move || format_program(&program, "")) {
                Err(loc) => return format!("(panic {} format)", quote(&loc)),
                Ok(o) => o,
            };
            format!("(frag (out {}) (back {}))", string_to_cps(&out), frag_back(&out))
        }
        _ => format!("(frag (back {}))", frag_back(&cps_to_string(case.args()))),
    }
}

// ------------------------------------------------------------------------------------------
// FormatFrag2.v: the fragment with blocks. (seq (c t+)+); t adds (b br+); br = (br (q (c t+)+) -|(q (c t+)+))
// ------------------------------------------------------------------------------------------
fn frag2_seq_of(s: &Sexp) -> Sequence {
    Sequence {
        chains: s.args().iter().map(|c| mk_chain(c.args().iter().map(frag2_term_of).collect())).collect(),
    }
}
fn frag2_term_of(s: &Sexp) -> Term {
    match s.head() {
        "b" => Term::Block(Expression {
            branches: s
                .args()
                .iter()
                .map(|b| Branch {
                    condition: frag2_seq_of(&b.args()[0]),
                    consequence: match &b.args()[1] {
                        Sexp::List(_) => Some(frag2_seq_of(&b.args()[1])),
                        _ => None,
                    },
                })
                .collect(),
        }),
        "t" => {
            let name = match &s.args()[0] {
                Sexp::List(l) => TupleName::Named(cps_to_string(&l[1..])),
                _ => TupleName::Anonymous,
            };
            let fields = s.args()[1..]
                .iter()
                .map(|f| TupleField {
                    name: match &f.args()[0] {
                        Sexp::List(l) => Some(cps_to_string(&l[1..])),
                        _ => None,
                    },
                    name_span: Spanned::default(),
                    span: Spanned::default(),
                    value: FieldValue::Chain(mk_chain(f.args()[1..].iter().map(frag2_term_of).collect())),
                })
                .collect();
            Term::Tuple(Tuple { name, fields, span: Spanned::default() })
        }
        _ => frag_term_of(s),
    }
}
fn frag2_of_seq(q: &Sequence) -> Option<String> {
    let mut out = String::from("(q");
    for c in &q.chains {
        if c.match_pattern.is_some() {
            return None;
        }
        out.push_str(" (c");
        for t in &c.terms {
            out.push(' ');
            out.push_str(&frag2_of_term(t)?);
        }
        out.push(')');
    }
    out.push(')');
    Some(out)
}
fn frag2_of_term(t: &Term) -> Option<String> {
    Some(match t {
        Term::Block(e) => {
            let mut out = String::from("(b");
            for b in &e.branches {
                out.push_str(&format!(
                    " (br {} {})",
                    frag2_of_seq(&b.condition)?,
                    match &b.consequence {
                        Some(k) => frag2_of_seq(k)?,
                        None => "-".to_string(),
                    }
                ));
            }
            out.push(')');
            out
        }
        Term::Tuple(t) => {
            let name = match &t.name {
                TupleName::Anonymous => "-".to_string(),
                TupleName::Named(n) => format!("(n {})", string_to_cps(n)),
                TupleName::Inherit => return None,
            };
            let mut out = format!("(t {}", name);
            for f in &t.fields {
                let FieldValue::Chain(c) = &f.value else { return None };
                if c.match_pattern.is_some() {
                    return None;
                }
                out.push_str(&format!(
                    " (f {}",
                    f.name.as_ref().map_or("-".to_string(), |n| format!("(l {})", string_to_cps(n)))
                ));
                for t in &c.terms {
                    out.push(' ');
                    out.push_str(&frag2_of_term(t)?);
                }
                out.push(')');
            }
            out.push(')');
            out
        }
        other => frag_of_term(other)?,
    })
}
fn frag2_back(src: &str) -> String {
    let s0 = src.to_string();
    match guarded(move || parse(&s0)) {
        Err(loc) => format!("(panic {})", quote(&loc)),
        Ok(Err(_)) => "(err)".to_string(),
        Ok(Ok(p)) => {
            let r = match p.statements.as_slice() {
                [Statement::Expression(seq)] => frag2_of_seq(seq),
                _ => None,
            };
            r.map_or("(other)".to_string(), |c| format!("(ok {})", c))
        }
    }
}
fn frag2_case(case: &Sexp) -> String {
    match case.head() {
        "frag2fmt" => {
            let seq = frag2_seq_of(&case.args()[0]);
            let program = Program { statements: vec![Statement::Expression(seq)] };
            let out = match guarded(move || format_program(&program, "")) {
                Err(loc) => return format!("(panic {} format)", quote(&loc)),
                Ok(o) => o,
            };
            format!("(frag2 (out {}) (back {}))", string_to_cps(&out), frag2_back(&out))
        }
        _ => format!("(frag2 (back {}))", frag2_back(&cps_to_string(case.args()))),
    }
}

fn main() {
    qvh::quiet_panics();
    let args: Vec<String> = std::env::args().collect();
    let mode = args.get(1).map(|s| s.as_str()).unwrap_or("e2e");
    let with_out = args.iter().any(|a| a == "--out");
    use std::io::Write;
    let stdout = std::io::stdout();
    let mut w = std::io::BufWriter::new(stdout.lock());
    for line in qvh::stdin_cases() {
        let items = sexp::parse_all(&line);
        let out = match mode {
            "e2e" => e2e(items[0].atom(), with_out),
            "norm" => norm(items[0].atom(), items[1].usize(), items[2].usize()),
            "esc" => esc(&items[0]),
            "rawmulti" => raw_string(&items[0], "\"\"\""),
            "rawsingle" => raw_string(&items[0], "\""),
            "pretty" => pretty_case(&items[0]),
            "frag" => frag_case(&items[0]),
            "frag2" => frag2_case(&items[0]),
            "comments" => format!(
                "(comments {})",
                scan_comments(items[0].atom())
                    .iter()
                    .map(|c| quote(c))
                    .collect::<Vec<_>>()
                    .join(" ")
            ),
            other => panic!("unknown mode {}", other),
        };
        writeln!(w, "{}", out.replace('\n', "\\n")).unwrap();
    }
}
