//! qv_front: robustness driver for the REAL front end (C18 — search, not proof).
//!
//! One input text per stdin line:
//!     "<text>"        s-expression-quoted (qvh::sexp escapes \" \\ \n \t \r), or
//!     x<hex>          the UTF-8 bytes of the text in hex (for control / non-ASCII characters)
//! For each text: `quiver_compiler::parse`, then (if Ok) `Compiler::compile` exactly as
//! `qvh::compile_source` does (bundled std available, nothing is executed), each under
//! `qvh::guarded` (catch_unwind -> file:line).  One outcome line per case:
//!     (parsed) (compiled)
//!     (parsed) (compile-error <Kind>)
//!     (parsed) (panic "<file:line>")              panic inside Compiler::compile
//!     (parse-error <Kind> <offset> <line> <col>)  the reported SourceSpan
//!     (parse-error <Kind> nospan)
//!     (panic "<file:line>")                       panic inside parse
//!     (abort <signal|code>)                       the process died (stack overflow = SIGABRT/SIGSEGV)
//!     (timeout)                                   the case used more than --case-ms of CPU time
//!                                                 (or 12x that in wall-clock time)
//!     (invalid-utf8)                              hex input that is not UTF-8 (not a &str: out of scope)
//! With `--times` every answered line is followed by a TAB and the in-process milliseconds the
//! case took (parse + compile, excluding process start).
//!
//! A stack overflow aborts the process instead of unwinding, so the cases run in CHILD processes
//! (this binary re-executed with `--child`).  The child answers one line per case, flushed; the
//! parent reads them with a per-case watchdog (on the child's CPU time, so that a loaded machine
//! cannot fake a timeout).  When the child dies or stalls, the case it was
//! working on is the culprit (outputs are streamed, so no bisection is needed): it gets
//! `(abort ..)` / `(timeout)` and a fresh child is started for the remaining cases.
//! Every case runs on a thread with a fixed stack (`--stack-mb`, default 8 = the main-thread stack
//! the `quiv` CLI runs with on Linux), so that "nesting depth <= 100 must pass" is decided against
//! a realistic limit and not against whatever the harness happens to have.
use quiver_compiler::compiler::ModuleCache;
use quiver_compiler::{Compiler, PackageResolver, parse};
use quiver_core::program::Program;
use std::collections::HashMap;
use std::io::{BufRead, BufReader, Write};
use std::process::{Command, Stdio};
use std::sync::mpsc;
use std::time::Duration;

fn decode(line: &str) -> Result<String, ()> {
    if let Some(h) = line.strip_prefix('x') {
        let h = h.trim();
        let bytes: Vec<u8> = (0..h.len() / 2)
            .map(|i| u8::from_str_radix(&h[2 * i..2 * i + 2], 16).unwrap_or(0))
            .collect();
        String::from_utf8(bytes).map_err(|_| ())
    } else {
        Ok(qvh::sexp::parse(line).atom().to_string())
    }
}

fn kind_name(dbg: String) -> String {
    dbg.split(['(', ' ', '{']).next().unwrap_or("").to_string()
}

/// The front end on one text (runs on the sized thread).
fn front(src: &str) -> String {
    let s = src.to_string();
    let parsed = qvh::guarded(move || parse(&s));
    let ast = match parsed {
        Err(loc) => return format!("(panic \"{}\")", loc),
        Ok(Err(e)) => {
            let kind = kind_name(format!("{:?}", e.kind));
            return match e.span {
                Some(sp) => format!("(parse-error {} {} {} {})", kind, sp.offset, sp.line, sp.column),
                None => format!("(parse-error {} nospan)", kind),
            };
        }
        Ok(Ok(ast)) => ast,
    };
    // as qvh::compile_source (lib.rs), without registering the entry function
    let compiled = qvh::guarded(move || {
        let builtins = qvh::registry();
        let mut program = Program::new();
        let mut module_cache = ModuleCache::new();
        let resolver = PackageResolver::memory(HashMap::new());
        // as quiv run (after the F58 repair): the parameter is the nil *type*, not the NIL tuple id
        let entry_param_type = program.register_type(quiver_core::types::Type::nil());
        Compiler::compile(
            ast,
            &HashMap::new(),
            &mut module_cache,
            &resolver,
            &mut program,
            entry_param_type,
            &HashMap::new(),
            &builtins,
            None,
        )
        .map(|c| c.instructions.len())
        .map_err(|e| kind_name(format!("{:?}", e.error)))
    });
    match compiled {
        Err(loc) => format!("(parsed) (panic \"{}\")", loc),
        Ok(Err(kind)) => format!("(parsed) (compile-error {})", kind),
        Ok(Ok(_)) => "(parsed) (compiled)".to_string(),
    }
}

fn child(stack_mb: usize) {
    qvh::quiet_panics();
    let times = std::env::args().any(|a| a == "--times");
    let stdin = std::io::stdin();
    let stdout = std::io::stdout();
    for line in stdin.lock().lines() {
        let line = line.unwrap();
        let t0 = std::time::Instant::now();
        let out = match decode(&line) {
            Err(()) => "(invalid-utf8)".to_string(),
            Ok(src) => {
                let h = std::thread::Builder::new()
                    .stack_size(stack_mb << 20)
                    .spawn(move || {
                        qvh::quiet_panics();
                        front(&src)
                    })
                    .unwrap();
                h.join().unwrap_or_else(|_| "(panic \"thread\")".to_string())
            }
        };
        let mut o = stdout.lock();
        if times {
            writeln!(o, "{}\t{}", out, t0.elapsed().as_millis()).unwrap();
        } else {
            writeln!(o, "{}", out).unwrap();
        }
        o.flush().unwrap();
    }
}

fn arg_val(name: &str, default: usize) -> usize {
    let a: Vec<String> = std::env::args().collect();
    a.iter()
        .position(|x| x == name)
        .and_then(|i| a.get(i + 1))
        .and_then(|v| v.parse().ok())
        .unwrap_or(default)
}

fn main() {
    let stack_mb = arg_val("--stack-mb", 8);
    if std::env::args().any(|a| a == "--child") {
        child(stack_mb);
        return;
    }
    let case_ms = arg_val("--case-ms", 5000) as u64;
    let cases = qvh::stdin_cases();
    let exe = std::env::current_exe().unwrap();
    let times = std::env::args().any(|a| a == "--times");
    let mut i = 0;
    let out = std::io::stdout();
    while i < cases.len() {
        let mut cmd = Command::new(&exe);
        if times {
            cmd.arg("--times");
        }
        let mut ch = cmd
            .arg("--child")
            .arg("--stack-mb")
            .arg(stack_mb.to_string())
            .stdin(Stdio::piped())
            .stdout(Stdio::piped())
            .stderr(Stdio::null())
            .spawn()
            .unwrap();
        let mut cin = ch.stdin.take().unwrap();
        let cout = ch.stdout.take().unwrap();
        let (tx, rx) = mpsc::channel::<String>();
        let reader = std::thread::spawn(move || {
            for l in BufReader::new(cout).lines() {
                match l {
                    Ok(l) => {
                        if tx.send(l).is_err() {
                            break;
                        }
                    }
                    Err(_) => break,
                }
            }
        });
        // feed one case at a time so that the watchdog times exactly one case
        let mut dead = false;
        while i < cases.len() && !dead {
            if writeln!(cin, "{}", cases[i]).and_then(|_| cin.flush()).is_err() {
                // the child is gone before reading: treat as abort of this case
                let st = ch.wait().ok();
                let mut o = out.lock();
                writeln!(o, "(abort {})", status_name(st)).unwrap();
                i += 1;
                dead = true;
                break;
            }
            // watchdog on the CHILD'S CPU TIME (robust against a loaded machine), with a wall-clock
            // backstop of 12x the limit (a child blocked without burning CPU)
            let cpu0 = cpu_ms(ch.id());
            let wall0 = std::time::Instant::now();
            let verdict = loop {
                match rx.recv_timeout(Duration::from_millis(50)) {
                    Ok(l) => break Ok(l),
                    Err(mpsc::RecvTimeoutError::Disconnected) => break Err(false),
                    Err(mpsc::RecvTimeoutError::Timeout) => {
                        let used = cpu_ms(ch.id()).saturating_sub(cpu0);
                        if used > case_ms || wall0.elapsed().as_millis() as u64 > 12 * case_ms {
                            break Err(true);
                        }
                    }
                }
            };
            match verdict {
                Ok(l) => {
                    let mut o = out.lock();
                    writeln!(o, "{}", l).unwrap();
                    i += 1;
                }
                Err(true) => {
                    let _ = ch.kill();
                    let _ = ch.wait();
                    let mut o = out.lock();
                    writeln!(o, "(timeout)").unwrap();
                    i += 1;
                    dead = true;
                }
                Err(false) => {
                    let st = ch.wait().ok();
                    let mut o = out.lock();
                    writeln!(o, "(abort {})", status_name(st)).unwrap();
                    i += 1;
                    dead = true;
                }
            }
        }
        drop(cin);
        if !dead {
            let _ = ch.wait();
        }
        let _ = reader.join();
    }
}

/// user+system CPU time of a process so far, in ms (/proc/<pid>/stat fields 14, 15; 100 ticks/s)
fn cpu_ms(pid: u32) -> u64 {
    let Ok(stat) = std::fs::read_to_string(format!("/proc/{}/stat", pid)) else {
        return 0;
    };
    // the command name (field 2) is parenthesised and may contain spaces: split after the last ')'
    let rest = stat.rsplit(')').next().unwrap_or("");
    let f: Vec<&str> = rest.split_whitespace().collect();
    // `rest` starts at field 3, so utime/stime (14, 15) are at indices 11, 12
    let t = |k: usize| f.get(k).and_then(|x| x.parse::<u64>().ok()).unwrap_or(0);
    (t(11) + t(12)) * 10
}

fn status_name(st: Option<std::process::ExitStatus>) -> String {
    use std::os::unix::process::ExitStatusExt;
    match st {
        Some(s) => match (s.signal(), s.code()) {
            (Some(sig), _) => format!("signal-{}", sig),
            (_, Some(c)) => format!("exit-{}", c),
            _ => "unknown".to_string(),
        },
        None => "unknown".to_string(),
    }
}
