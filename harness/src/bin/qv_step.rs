//! qv_step: value-level lock-step trace of the real executor, one instruction at a time (hook:
//! `executor::verif::set_quantum(1)`), for the correspondence with `coq/theories/vm/Vm.v` (`step`).
//! stdin: one case per line: `"<source>" (mod "a/b" "<source>")*`.
//! stdout per case, one line:
//!   `(steps (prog as-compiled (entry e) (consts (i Z)|b ..) (fns (fn caps type (ins ..))..) (tuples arity..)
//!           (nbuiltins n) (ntypes n)) (trace (st (STACK) (LOCALS) (FRAMES))...) (fin ok V | err Class | blocked | limit | cut))`
//!   | `(parse-error)` | `(compile-error K)` | `(panic ..)`
//! A state is dumped BEFORE every `Executor::step` call (quantum 1 = one instruction followed by the
//! executor's own auto-pop of exhausted frames). STACK and LOCALS are in Vec order (bottom / index 0
//! first), FRAMES outermost first as `(fn base caps pc)`. Values: `(i Z) (b H) (r N) (t ID v..) (f IDX v..)
//! (bi IDX) (p PID FN) (rs RID TY)`; a binary handle H is 2*index (+1 for a heap binary).
//! `--limit N`: at most N states per case (default 400); the trace is also cut at ~150 kB.
use qvh::sexp::{self, Sexp};
use qvh::TestEffect;
use quiver_core::bytecode::{Bytecode, Constant};
use quiver_core::error::Error;
use quiver_core::executor::Executor;
use quiver_core::value::{Binary, Value};
use std::collections::HashMap;

mod dumpinstr {
    use quiver_core::bytecode::Instruction;
    /// Same spelling as qv_compile's dump (the wf / step drivers share the instruction reader).
    pub fn dump_instr(i: &Instruction) -> String {
        match i {
            Instruction::Constant(k) => format!("(const {})", k),
            Instruction::Pop => "(pop)".into(),
            Instruction::Duplicate => "(dup)".into(),
            Instruction::Pick(n) => format!("(pick {})", n),
            Instruction::Rotate(n) => format!("(rot {})", n),
            Instruction::Reset(n) => format!("(reset {})", n),
            Instruction::Load(n) => format!("(load {})", n),
            Instruction::Store => "(store)".into(),
            Instruction::Tuple(t) => format!("(tuple {})", t),
            Instruction::Get(n) => format!("(get {})", n),
            Instruction::IsType(t) => format!("(istype {})", t),
            Instruction::Jump(o) => format!("(jmp {})", o),
            Instruction::JumpIf(o) => format!("(jmpif {})", o),
            Instruction::Call => "(call)".into(),
            Instruction::TailCall(r) => format!("(tailcall {})", if *r { 1 } else { 0 }),
            Instruction::Function(f) => format!("(fn {})", f),
            Instruction::Builtin(b) => format!("(builtin {})", b),
            Instruction::Equal(n) => format!("(equal {})", n),
            Instruction::Not => "(not)".into(),
            Instruction::Spawn => "(spawn)".into(),
            Instruction::Send => "(send)".into(),
            Instruction::Self_ => "(self)".into(),
            Instruction::Select => "(select)".into(),
            Instruction::Process(p, f) => format!("(process {} {})", p, f),
        }
    }
}

fn dump_value(v: &Value, out: &mut String) {
    match v {
        Value::Integer(i) => {
            out.push_str("(i ");
            out.push_str(&i.to_string());
            out.push(')');
        }
        Value::Binary(Binary::Constant(k)) => out.push_str(&format!("(b {})", 2 * k)),
        Value::Binary(Binary::Heap(k)) => out.push_str(&format!("(b {})", 2 * k + 1)),
        Value::Reference(r) => out.push_str(&format!("(r {})", r)),
        Value::Tuple(id, fs) => {
            out.push_str(&format!("(t {}", id));
            for f in fs.iter() {
                out.push(' ');
                dump_value(f, out);
            }
            out.push(')');
        }
        Value::Function(idx, caps) => {
            out.push_str(&format!("(f {}", idx));
            for c in caps.iter() {
                out.push(' ');
                dump_value(c, out);
            }
            out.push(')');
        }
        Value::Builtin(b) => out.push_str(&format!("(bi {})", b)),
        Value::Process(p, f) => out.push_str(&format!("(p {} {})", p, f)),
        Value::Resource(r, t) => out.push_str(&format!("(rs {} {})", r, t)),
    }
}

fn dump_state(ex: &Executor<TestEffect>, out: &mut String) -> bool {
    let Some(p) = ex.get_process(0) else { return false };
    out.push_str(" (st (");
    for (i, v) in p.stack.iter().enumerate() {
        if i > 0 {
            out.push(' ');
        }
        dump_value(v, out);
    }
    out.push_str(") (");
    for (i, v) in p.locals.iter().enumerate() {
        if i > 0 {
            out.push(' ');
        }
        dump_value(v, out);
    }
    out.push_str(") (");
    // Frame::locals_base / captures_count are private: read them through the verif dump
    let d = ex.verif_dump();
    if let Some((_, frames)) = d.frames.iter().find(|(pid, _)| *pid == 0) {
        for (i, (f, base, caps, pc)) in frames.iter().enumerate() {
            if i > 0 {
                out.push(' ');
            }
            out.push_str(&format!("({} {} {} {})", f, base, caps, pc));
        }
    }
    out.push_str("))");
    true
}

fn dump_program(bc: &Bytecode) -> String {
    let mut s = format!("(prog as-compiled (entry {})", bc.entry.map(|e| e as i64).unwrap_or(-1));
    s.push_str(" (consts");
    for c in &bc.constants {
        match c {
            Constant::Integer(i) => s.push_str(&format!(" (i {})", i)),
            Constant::Binary(_) => s.push_str(" b"),
        }
    }
    s.push_str(") (fns");
    for f in &bc.functions {
        s.push_str(&format!(" (fn {} {} (ins", f.captures, f.type_id));
        for i in &f.instructions {
            s.push(' ');
            s.push_str(&dumpinstr::dump_instr(i));
        }
        s.push_str("))");
    }
    s.push_str(") (tuples");
    for t in &bc.tuples {
        s.push_str(&format!(" {}", t.fields.len()));
    }
    s.push_str(&format!(") (nbuiltins {}) (ntypes {}))", bc.builtins.len(), bc.types.len()));
    s
}

fn error_class(e: &Error) -> &'static str {
    match e {
        Error::StackUnderflow => "StackUnderflow",
        Error::CallInvalid => "CallInvalid",
        Error::FunctionUndefined(_) => "FunctionUndefined",
        Error::BuiltinUndefined(_) => "BuiltinUndefined",
        Error::FrameUnderflow => "FrameUnderflow",
        Error::VariableUndefined(_) => "VariableUndefined",
        Error::ConstantUndefined(_) => "ConstantUndefined",
        Error::FieldAccessInvalid(_) => "FieldAccessInvalid",
        Error::TypeMismatch { .. } => "TypeMismatch",
        Error::ArityMismatch { .. } => "ArityMismatch",
        Error::InvalidArgument(_) => "InvalidArgument",
        Error::TupleEmpty => "TupleEmpty",
        Error::OperationNotAllowed { .. } => "OperationNotAllowed",
        Error::ScopeCountInvalid { .. } => "ScopeCountInvalid",
        Error::ScopeUnderflow => "ScopeUnderflow",
    }
}

/// As `qvh::execute_bounded_with`, one instruction per `step`, dumping process 0 before each.
fn run_steps(bytecode: Bytecode, limit: usize) -> String {
    use quiver_core::compatibility::{
        CompatibilityInput, compute_canonical_tuples, compute_param_compatibility, compute_type_compatibility,
    };
    use quiver_core::executor::{ProgramUpdate, verif};
    let mut out = String::from("(steps ");
    out.push_str(&dump_program(&bytecode));
    out.push_str(" (trace");
    let Some(entry) = bytecode.entry else {
        out.push_str(") (fin blocked))");
        return out;
    };
    let mut executor = Executor::new(qvh::registry(), false, 0);
    let input = CompatibilityInput {
        types: &bytecode.types,
        tuples: &bytecode.tuples,
        functions: &bytecode.functions,
        builtins: &bytecode.builtins,
        resource_names: &bytecode.resources,
    };
    let type_compatibility = compute_type_compatibility(&input);
    let canonical_tuples = compute_canonical_tuples(&bytecode.tuples);
    let (function_param_compatibility, builtin_param_compatibility) = compute_param_compatibility(&input);
    let update = ProgramUpdate {
        constants: bytecode.constants,
        functions: bytecode.functions,
        tuples: bytecode.tuples[2..].to_vec(),
        types: bytecode.types,
        builtins: bytecode.builtins,
        resources: bytecode.resources,
        type_compatibility,
        function_param_compatibility,
        builtin_param_compatibility,
        canonical_tuples,
    };
    executor.update_program(update);
    if executor.spawn_process(0, Some(entry), vec![], Value::nil(), vec![], false).is_err() {
        out.push_str(") (fin blocked))");
        return out;
    }
    verif::set_quantum(1);
    let mut fin = String::from("limit");
    for _ in 0..limit {
        if out.len() > 150_000 {
            fin = "cut".into();
            break;
        }
        if !dump_state(&executor, &mut out) {
            fin = "blocked".into();
            break;
        }
        let (did_work, _action) = executor.step(1000, 0);
        let Some(process) = executor.get_process(0) else {
            fin = "blocked".into();
            break;
        };
        if let Some(result) = &process.result {
            fin = match result {
                Ok(v) => {
                    let mut s = String::from("ok ");
                    dump_value(v, &mut s);
                    s
                }
                Err(e) => format!("err {}", error_class(e)),
            };
            break;
        }
        if !did_work {
            fin = "blocked".into();
            break;
        }
    }
    verif::set_quantum(0);
    out.push_str(") (fin ");
    out.push_str(&fin);
    out.push_str("))");
    out
}

fn main() {
    qvh::quiet_panics();
    let args: Vec<String> = std::env::args().collect();
    let limit: usize = args.iter().position(|a| a == "--limit").map(|i| args[i + 1].parse().unwrap()).unwrap_or(400);
    for line in qvh::stdin_cases() {
        let items = sexp::parse_all(&line);
        let src = items[0].atom().to_string();
        let mut modules = HashMap::new();
        for m in &items[1..] {
            if let Sexp::List(l) = m {
                let path: Vec<String> = l[1].atom().split('/').map(|s| s.to_string()).collect();
                modules.insert(path, l[2].atom().to_string());
            }
        }
        let r = qvh::guarded(move || match qvh::compile_source(&src, modules) {
            Err(e) => e.line(),
            Ok(c) => run_steps(c.program.to_bytecode(Some(c.entry)), limit),
        });
        match r {
            Ok(s) => println!("{}", s),
            Err(loc) => {
                quiver_core::executor::verif::set_quantum(0);
                println!("(panic \"{}\")", loc)
            }
        }
    }
}
