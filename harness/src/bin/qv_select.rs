//! qv_select — drives a REAL `Executor<TestEffect>` through one select under a generated history
//! (property C05).  No Worker / Environment: the harness plays their part through the executor's
//! public API exactly as worker.rs does (`notify_message`, `notify_result`, `mark_active`, and for a
//! failed awaited process the two statements of worker.rs `notify_result`'s `Err` arm).
//!
//! stdin: one case per line:  `"<quiver source>" (ops <op>*)`
//!   (to-select NOW)      quantum-1 steps until pid 0 is about to execute its first `Select`
//!                        (spawn requests are answered at once with phantom pids 100, 101, ...;
//!                        with `(local)` before it, the spawned helpers are real local processes)
//!   (local)              answer Spawn actions by really spawning the helper on this executor
//!   (step Q NOW)         ONE `Executor::step(1000, NOW)` with the verif quantum override Q
//!   (msg TARGET V)       `notify_message(TARGET, V, heap)`            (TARGET 0 = process under test)
//!   (res K V)            `notify_result(0, 100+K, V, heap)`
//!   (fail K)             worker.rs notify_result Err arm: `result = Some(Err(..)); frames.clear()`
//!   (report K..)         `notify_await_report(0, [100+K..])` (worker.rs update_await_results, first statement)
//!   (active)             `mark_active(0)`  (worker.rs update_await_results with no result: wake_selecting)
//!   (failc K)            the same, only if pid 0 still awaits 100+K (worker.rs after the F45 repair)
//!   (ff NOW)             quantum-1 steps at NOW until pid 0 is about to re-enter the select
//!   (drive NOW MAX)      ff + one entry, repeated: run the machine to completion/park at NOW
//!   (finish NOW MAX)     once the select is over: run the rest of the program (quantum 1000)
//! values V: `(i n)` `(b hex)` `(t n)` (= tuple `T[n]`) `nil` `ok`
//!
//! stdout: one line per case: `(case ((op i) <rec>*)* (refcounts ..))`: `(op i)` marks the records of
//!   op number i; `<rec>` = `(<name> <info>* (d ...dump of pid 0...))`; `ff`/`drive` emit a full
//!   `step` record for every step that is not a plain filter-body step of pid 0.
use num_bigint::BigInt;
use quiver_core::Executor;
use quiver_core::bytecode::{Bytecode, Instruction};
use quiver_core::executor::ProgramUpdate;
use quiver_core::process::Action;
use quiver_core::value::{Binary, Value};
use qvh::sexp::{self, Sexp};
use qvh::{Bins, TestEffect, dump_value, error_class, guarded, hex, unhex};

const PID: usize = 0;

struct Ctx {
    ex: Executor<TestEffect>,
    bc: Bytecode,
    t_tuple: Option<usize>,
    spawned: usize,
    local: bool,
    helpers_done: Vec<usize>,
    /// the select under test has completed (complete_select ran)
    completed: bool,
    /// instruction index of the Select under test in the root frame (set by `to-select`)
    main_pc: Option<usize>,
}

fn setup(bytecode: Bytecode) -> Ctx {
    use quiver_core::compatibility::{
        CompatibilityInput, compute_canonical_tuples, compute_param_compatibility,
        compute_type_compatibility,
    };
    let bc = bytecode.clone();
    let entry = bytecode.entry.expect("entry");
    let mut ex = Executor::new(qvh::registry(), false, 0);
    let input = CompatibilityInput {
        types: &bytecode.types,
        tuples: &bytecode.tuples,
        functions: &bytecode.functions,
        builtins: &bytecode.builtins,
        resource_names: &bytecode.resources,
    };
    let type_compatibility = compute_type_compatibility(&input);
    let canonical_tuples = compute_canonical_tuples(&bytecode.tuples);
    let (function_param_compatibility, builtin_param_compatibility) =
        compute_param_compatibility(&input);
    let t_tuple = bytecode
        .tuples
        .iter()
        .position(|t| t.name.as_deref() == Some("T") && t.fields.len() == 1);
    ex.update_program(ProgramUpdate {
        constants: bytecode.constants,
        functions: bytecode.functions,
        tuples: bytecode.tuples[2..].to_vec(),
        types: bytecode.types,
        builtins: bytecode.builtins,
        resources: bytecode.resources,
        type_compatibility,
        function_param_compatibility,
        builtin_param_compatibility,
        canonical_tuples,
    });
    ex.spawn_process(PID, Some(entry), vec![], Value::nil(), vec![], false)
        .expect("spawn");
    Ctx { ex, bc, t_tuple, spawned: 0, local: false, helpers_done: vec![], completed: false, main_pc: None }
}

/// value + heap data as the worker would hand them to `notify_*`
fn value_of(s: &Sexp, ctx: &Ctx) -> (Value, Vec<Vec<u8>>) {
    match s {
        Sexp::Atom(a) if a == "nil" => (Value::nil(), vec![]),
        Sexp::Atom(a) if a == "ok" => (Value::ok(), vec![]),
        _ => match s.head() {
            "i" => (Value::Integer(s.args()[0].atom().parse::<BigInt>().unwrap()), vec![]),
            "b" => (Value::Binary(Binary::Heap(0)), vec![unhex(s.args()[0].atom())]),
            "t" => (
                Value::tuple(
                    ctx.t_tuple.expect("program has no tuple T"),
                    vec![Value::Integer(s.args()[0].atom().parse::<BigInt>().unwrap())],
                ),
                vec![],
            ),
            other => panic!("bad value {}", other),
        },
    }
}

fn dv(v: &Value, ctx: &Ctx) -> String {
    let bins = Bins::Exec(&ctx.ex, &ctx.bc.constants);
    dump_value(v, &ctx.bc, &bins)
}

fn dump_result(r: &Option<Result<Value, quiver_core::Error>>, ctx: &Ctx) -> String {
    match r {
        None => "-".into(),
        Some(Ok(v)) => format!("(ok {})", dv(v, ctx)),
        Some(Err(e)) => {
            let tag = match e {
                quiver_core::Error::InvalidArgument(m) if m.starts_with("awaited ") => {
                    m.split(' ').nth(1).unwrap_or("-").to_string()
                }
                _ => "-".to_string(),
            };
            format!("(err {} {})", error_class(e), tag)
        }
    }
}

/// Dump of the process under test: scheduling flags, select state, mailbox, awaiting, result.
fn dump(ctx: &Ctx) -> String {
    let d = ctx.ex.verif_dump();
    let Some(p) = ctx.ex.get_process(PID) else {
        return "(d gone)".into();
    };
    let sel = match &p.select_state {
        None => "-".to_string(),
        Some(s) if ctx.main_pc.is_some() && (s.frame != 0 || Some(s.instruction) != ctx.main_pc) => "-".to_string(),
        Some(s) => format!(
            "(sel (fr {} {}) (cur{}) (recv {}) (start {}) (nsrc {}))",
            s.frame,
            s.instruction,
            s.cursors.iter().map(|c| format!(" {}", c)).collect::<String>(),
            match &s.receiving {
                None => "-".to_string(),
                Some((i, m)) => format!("({} {})", i, dv(m, ctx)),
            },
            s.start_time.map(|t| t.to_string()).unwrap_or("-".into()),
            s.sources.len()
        ),
    };
    let mb = p.mailbox.iter().map(|m| format!(" {}", dv(m, ctx))).collect::<String>();
    let mut aw: Vec<(usize, String)> = p
        .awaiting
        .iter()
        .map(|(k, v)| (*k, v.as_ref().map(|v| dv(v, ctx)).unwrap_or("-".into())))
        .collect();
    aw.sort();
    let aw = aw.iter().map(|(k, v)| format!(" ({} {})", k, v)).collect::<String>();
    let un = p.unreported_awaits.iter().map(|t| format!(" {}", t)).collect::<String>();
    format!(
        "(d (q {}) (s {}) {} (mb{}) (aw{}) (un{}) (res {}) (nt {}) (fr {}) (st {}))",
        d.queue.iter().filter(|x| **x == PID).count(),
        d.selecting.contains(&PID) as u8,
        sel,
        mb,
        aw,
        un,
        dump_result(&p.result, ctx),
        ctx.ex.next_timeout_ms().map(|t| t.to_string()).unwrap_or("-".into()),
        p.frames.len(),
        p.stack.len(),
    )
}

fn next_instruction(ctx: &Ctx, pid: usize) -> Option<Instruction> {
    let p = ctx.ex.get_process(pid)?;
    let f = p.frames.last()?;
    ctx.bc.functions.get(f.function_index)?.instructions.get(f.counter).copied()
}

/// Play the worker/environment for the action a step returned.
fn handle_action(ctx: &mut Ctx, action: Option<Action<TestEffect>>) -> String {
    match action {
        None => "-".into(),
        Some(Action::Spawn { caller, function_index, captures, argument }) => {
            let pid = 100 + ctx.spawned;
            ctx.spawned += 1;
            if ctx.local {
                ctx.ex
                    .spawn_process(pid, Some(function_index), captures, argument, vec![], false)
                    .expect("local spawn");
            }
            ctx.ex.notify_spawn(caller, Value::Process(pid, function_index));
            format!("(spawn {})", pid)
        }
        Some(Action::Await { targets, caller }) => format!(
            "(await {}{})",
            caller,
            targets.iter().map(|t| format!(" {}", t)).collect::<String>()
        ),
        Some(Action::Deliver { target, value, .. }) => format!("(deliver {} {})", target, dv(&value, ctx)),
        Some(Action::RequestEffect { .. }) => "(effect)".into(),
    }
}

/// One real `Executor::step`; reports who ran, how many Select instructions pid 0 executed, and
/// which helper processes finished during the step (local mode).
fn one_step(ctx: &mut Ctx, q: usize, now: u64) -> String {
    quiver_core::executor::verif::set_quantum(q);
    quiver_core::executor::verif::set_tracing(true);
    let sel_before = ctx.ex.get_process(PID).map(|p| p.select_state.is_some()).unwrap_or(false);
    let (did, action) = ctx.ex.step(1000, now);
    let trace = quiver_core::executor::verif::take_trace();
    quiver_core::executor::verif::set_tracing(false);
    let entries = trace
        .iter()
        .filter(|t| {
            t.pid == PID
                && matches!(t.instruction, Instruction::Select)
                && t.frames_len == 1
                && Some(t.pc) == ctx.main_pc
        })
        .count();
    let ran = trace.first().map(|t| t.pid.to_string()).unwrap_or("-".into());
    let instrs = trace.len();
    let act = handle_action(ctx, action);
    // completion of the select under test: the root frame has moved past it (or the process ended
    // without an error).  With exactly one instruction executed the value is on top of the stack.
    let mut val = "-".to_string();
    let _ = sel_before;
    if !ctx.completed {
        if let Some(p) = ctx.ex.get_process(PID) {
            let past = match (p.frames.first(), ctx.main_pc) {
                (Some(f), Some(pc)) => f.counter > pc,
                (None, Some(_)) => matches!(p.result, Some(Ok(_))),
                _ => false,
            };
            if past && entries > 0 {
                ctx.completed = true;
                val = if instrs != 1 {
                    "?".to_string()
                } else if p.frames.is_empty() {
                    match &p.result {
                        Some(Ok(v)) => dv(v, ctx),
                        _ => "?".to_string(),
                    }
                } else {
                    p.stack.last().map(|v| dv(v, ctx)).unwrap_or("?".to_string())
                };
            }
        }
    }
    // helpers that finished (local mode)
    let mut done = String::new();
    let d = ctx.ex.verif_dump();
    for pid in d.process_ids.iter().filter(|p| **p >= 100) {
        if ctx.helpers_done.contains(pid) {
            continue;
        }
        if let Some(p) = ctx.ex.get_process(*pid) {
            if p.result.is_some() {
                done.push_str(&format!(" (done {} {})", pid - 100, dump_result(&p.result, ctx)));
                ctx.helpers_done.push(*pid);
            }
        }
    }
    format!(
        "(did {}) (ran {}) (n {}) (entries {}) (act {}) (val {}) (helpers{})",
        did as u8, ran, instrs, entries, act, val, done
    )
}

/// pid 0 is about to execute the Select under test (depth-1 frame, select not yet completed)
fn at_select(ctx: &Ctx) -> bool {
    !ctx.completed
        && ctx.ex.get_process(PID).map(|p| p.frames.len() == 1 && p.result.is_none()).unwrap_or(false)
        && matches!(next_instruction(ctx, PID), Some(Instruction::Select))
}

/// the part of the dump a filter step must leave alone
fn stable_part(ctx: &Ctx) -> String {
    let d = dump(ctx);
    d.split(" (nt ").next().unwrap_or("").to_string()
}

/// Fast-forward with quantum 1 at time `now` until pid 0 is about to enter the select again (or
/// nothing is runnable).  Steps that only run filter-body instructions of pid 0 are counted and
/// checked to leave the select state / mailbox / awaiting / result alone; every other step is
/// emitted as a full `step` record.
fn fast_forward(ctx: &mut Ctx, now: u64, out: &mut String) {
    let mut silent = 0usize;
    let mut changed = 0usize;
    for _ in 0..5000 {
        let d = ctx.ex.verif_dump();
        let Some(front) = d.queue.first().copied() else { break };
        if front == PID && (at_select(ctx) || ctx.completed) {
            break; // about to enter the select again / the select is over (`finish` runs the rest)
        }
        let before = stable_part(ctx);
        let had_result = ctx.ex.get_process(PID).map(|p| p.result.is_some()).unwrap_or(true);
        let info = one_step(ctx, 1, now);
        let has_result = ctx.ex.get_process(PID).map(|p| p.result.is_some()).unwrap_or(true);
        let quiet = front == PID
            && !had_result
            && !has_result
            && info.contains("(entries 0)")
            && info.contains("(helpers)")
            && info.contains("(act -)")
            && !ctx.completed;
        if quiet {
            silent += 1;
            if stable_part(ctx) != before {
                changed += 1;
            }
        } else {
            out.push_str(&format!(" (step (q 1) (now {}) {} {})", now, info, dump(ctx)));
        }
    }
    out.push_str(&format!(" (ff (silent {}) (changed {}) {})", silent, changed, dump(ctx)));
}

fn run_case(line: &str) -> String {
    let items = sexp::parse_all(line);
    let src = items[0].atom().to_string();
    let compiled = match guarded(move || qvh::compile_source(&src, Default::default())) {
        Err(loc) => return format!("(panic \"{}\")", loc),
        Ok(Err(e)) => return e.line(),
        Ok(Ok(c)) => c,
    };
    let bytecode = compiled.program.to_bytecode(Some(compiled.entry));
    let mut ctx = setup(bytecode);
    let mut out = String::from("(case");
    for (opi, op) in items[1].args().iter().enumerate() {
        let name = op.head().to_string();
        let a = op.args();
        out.push_str(&format!(" (op {})", opi));
        let before_len = out.len();
        let r = std::panic::catch_unwind(std::panic::AssertUnwindSafe(|| {
        match name.as_str() {
            "local" => {
                ctx.local = true;
                out.push_str(&format!(" (local {})", dump(&ctx)));
            }
            "to-select" => {
                let now: u64 = a[0].atom().parse().unwrap();
                let mut steps = 0;
                let mut reached = false;
                while steps < 20_000 {
                    if at_select(&ctx) {
                        reached = true;
                        ctx.main_pc = ctx.ex.get_process(PID).and_then(|p| p.frames.first().map(|f| f.counter));
                        break;
                    }
                    // only ever run pid 0 here: helpers (local mode) stay queued behind it
                    let d = ctx.ex.verif_dump();
                    if d.queue.first() != Some(&PID) {
                        if !d.queue.contains(&PID) {
                            break;
                        }
                        let front = d.queue[0];
                        ctx.ex.remove_from_queue(front);
                        ctx.ex.add_to_queue(front);
                        continue;
                    }
                    quiver_core::executor::verif::set_quantum(1);
                    let (_did, action) = ctx.ex.step(1000, now);
                    handle_action(&mut ctx, action);
                    steps += 1;
                }
                out.push_str(&format!(" (to-select (reached {}) (steps {}) {})", reached as u8, steps, dump(&ctx)));
            }
            "step" => {
                let q: usize = a[0].usize();
                let now: u64 = a[1].atom().parse().unwrap();
                let info = one_step(&mut ctx, q, now);
                out.push_str(&format!(" (step (q {}) (now {}) {} {})", q, now, info, dump(&ctx)));
            }
            "ff" => {
                let now: u64 = a[0].atom().parse().unwrap();
                fast_forward(&mut ctx, now, &mut out);
            }
            "drive" => {
                // run the select machine at a fixed time with no arrivals until it completes/parks
                let now: u64 = a[0].atom().parse().unwrap();
                let max: usize = a[1].usize();
                for _ in 0..max {
                    fast_forward(&mut ctx, now, &mut out);
                    let d = ctx.ex.verif_dump();
                    if d.queue.first() == Some(&PID) && at_select(&ctx) {
                        let info = one_step(&mut ctx, 1, now);
                        out.push_str(&format!(" (step (q 1) (now {}) {} {})", now, info, dump(&ctx)));
                    } else {
                        break;
                    }
                }
            }
            "msg" => {
                let target = a[0].usize();
                let (v, heap) = value_of(&a[1], &ctx);
                let r = ctx.ex.notify_message(if target == 0 { PID } else { 99 + target }, v, heap);
                out.push_str(&format!(" (msg (r {}) {})", r.is_ok() as u8, dump(&ctx)));
            }
            "res" => {
                let k = a[0].usize();
                let (v, heap) = value_of(&a[1], &ctx);
                let r = ctx.ex.notify_result(PID, 100 + k, v, heap);
                out.push_str(&format!(" (res (r {}) {})", r.is_ok() as u8, dump(&ctx)));
            }
            "fail" | "failc" => {
                // worker.rs notify_result, Err arm.  `fail`: unconditional (the code before the
                // F45 repair); `failc`: only while the awaiter still awaits the target (after it).
                let k = a[0].usize();
                let mut wake = false;
                if let Some(process) = ctx.ex.get_process_mut(PID) {
                    if name == "fail" || process.awaiting.contains_key(&(100 + k)) {
                        process.result =
                            Some(Err(quiver_core::Error::InvalidArgument(format!("awaited {} failed", k))));
                        process.frames.clear();
                    } else {
                        wake = true;
                    }
                }
                if wake {
                    // the repaired worker only wakes an awaiter that no longer awaits the target
                    // (`wake_selecting`; pid 0 is never parked in `spawning`, so mark_active is the same)
                    ctx.ex.mark_active(PID);
                }
                out.push_str(&format!(" ({} {})", name, dump(&ctx)));
            }
            "report" => {
                // Worker::update_await_results: the state of every process in the answer is known
                let ts: Vec<usize> = a.iter().map(|k| 100 + k.usize()).collect();
                ctx.ex.notify_await_report(PID, &ts);
                out.push_str(&format!(" (report {})", dump(&ctx)));
            }
            "active" => {
                ctx.ex.mark_active(PID);
                out.push_str(&format!(" (active {})", dump(&ctx)));
            }
            "finish" => {
                // only once the select under test is over: run the rest of the program
                let now: u64 = a[0].atom().parse().unwrap();
                let max: usize = a[1].usize();
                let mut steps = 0;
                quiver_core::executor::verif::set_quantum(0);
                while steps < max && ctx.completed {
                    if ctx.ex.get_process(PID).map(|p| p.result.is_some()).unwrap_or(true) {
                        break;
                    }
                    let d = ctx.ex.verif_dump();
                    if d.queue.first() != Some(&PID) {
                        if !d.queue.contains(&PID) {
                            break;
                        }
                        let front = d.queue[0];
                        ctx.ex.remove_from_queue(front);
                        ctx.ex.add_to_queue(front);
                        continue;
                    }
                    let (did, action) = ctx.ex.step(1000, now);
                    handle_action(&mut ctx, action);
                    steps += 1;
                    if !did {
                        break;
                    }
                }
                out.push_str(&format!(" (finish (steps {}) {})", steps, dump(&ctx)));
            }
            other => panic!("unknown op {}", other),
        };
        }));
        if r.is_err() {
            // a panic inside the real code: keep what the earlier ops produced, report where and why
            let _ = before_len;
            out.push_str(&format!(" (panic \"{}\" \"{}\"))", qvh::last_panic(), last_message().replace('"', "'")));
            return out;
        }
    }
    // refcount invariant of the real heap at the end of the history (debug builds): a leak here is
    // C06's business, reported as information only.
    let rc = match ctx.ex.check_refcounts() {
        Ok(()) => "ok".to_string(),
        Err(_) => "violated".to_string(),
    };
    out.push_str(&format!(" (refcounts {}))", rc));
    out
}


// ------------------------------------------------------------------------------------------------
// `--env`: the environment's initial-await protocol (finding F8) on the REAL `Environment`, with
// fake worker handles (plain queues).  One case per line:
//   (env (workers N) (owner ..) (targets p..) (evs (w (p v|-)..)..))
// pid 0 is the awaiter; pids 1.. are targets (pid % N is the worker the environment routes to).
// The harness injects `AwaitAction{0, targets}` and then one `ProcessResults` event per `evs` entry
// (from worker w), stepping the environment after each, and prints every `UpdateAwaitResults` the
// environment sends to the awaiter's worker:  (outs (upd (p v|-)..)..) (delivered (p v|-)..)
mod envmode {
    use super::*;
    use quiver_environment::{Command, Environment, EnvironmentError, Event, WorkerHandle};
    use std::collections::{BTreeMap, HashMap, VecDeque};
    use std::sync::{Arc, Mutex};

    type Q<T> = Arc<Mutex<VecDeque<T>>>;
    struct Handle {
        cmd: Q<Command<TestEffect>>,
        evt: Q<Event<TestEffect>>,
    }
    impl WorkerHandle<TestEffect> for Handle {
        fn send(&mut self, command: Command<TestEffect>) -> Result<(), EnvironmentError> {
            self.cmd.lock().unwrap().push_back(command);
            Ok(())
        }
        fn try_recv(&mut self) -> Result<Option<Event<TestEffect>>, EnvironmentError> {
            Ok(self.evt.lock().unwrap().pop_front())
        }
    }

    fn section<'a>(items: &'a [Sexp], name: &str) -> &'a [Sexp] {
        for it in items {
            if let Sexp::List(l) = it
                && !l.is_empty()
                && matches!(&l[0], Sexp::Atom(a) if a == name)
            {
                return &l[1..];
            }
        }
        &[]
    }

    pub fn run_env_case(line: &str) -> String {
        let case = sexp::parse(line);
        let items = case.args();
        let nw = section(items, "workers")[0].usize();
        let targets: Vec<usize> = section(items, "targets").iter().map(|t| t.usize()).collect();
        let mut cmds = vec![];
        let mut evts = vec![];
        let mut handles: Vec<Box<dyn WorkerHandle<TestEffect>>> = Vec::new();
        for _ in 0..nw {
            let cmd: Q<Command<TestEffect>> = Arc::new(Mutex::new(VecDeque::new()));
            let evt: Q<Event<TestEffect>> = Arc::new(Mutex::new(VecDeque::new()));
            cmds.push(cmd.clone());
            evts.push(evt.clone());
            handles.push(Box::new(Handle { cmd, evt }));
        }
        let mut env = Environment::<TestEffect>::new(handles);
        let maxp = targets.iter().copied().max().unwrap_or(0);
        for _ in 0..=maxp {
            env.start_process(None).expect("start_process");
        }
        for c in &cmds {
            c.lock().unwrap().clear();
        }
        evts[0].lock().unwrap().push_back(Event::AwaitAction { awaiter: 0, targets: targets.clone() });
        env.step().expect("env step");
        let mut queried = String::new();
        for (w, c) in cmds.iter().enumerate() {
            for command in c.lock().unwrap().drain(..) {
                if let Command::QueryAndAwait { targets, .. } = command {
                    let mut t = targets.clone();
                    t.sort();
                    queried.push_str(&format!(" ({}{})", w, t.iter().map(|p| format!(" {}", p)).collect::<String>()));
                }
            }
        }
        let mut outs = String::new();
        let mut delivered: BTreeMap<usize, Option<String>> = BTreeMap::new();
        for ev in section(items, "evs") {
            let l = ev.list();
            let w = l[0].usize();
            let mut results = HashMap::new();
            for kv in &l[1..] {
                let kv = kv.list();
                let p = kv[0].usize();
                let v = match kv[1].atom() {
                    "-" => None,
                    n => Some(Ok((Value::Integer(n.parse::<BigInt>().unwrap()), vec![]))),
                };
                results.insert(p, v);
            }
            evts[w].lock().unwrap().push_back(Event::ProcessResults { awaiter: 0, results });
            if let Err(e) = env.step() {
                return format!("(env-error {:?})", e).replace('\n', " ");
            }
            for c in cmds.iter() {
                for command in c.lock().unwrap().drain(..) {
                    if let Command::UpdateAwaitResults { awaiter: 0, results } = command {
                        let mut rs: Vec<(usize, Option<String>)> = results
                            .iter()
                            .map(|(p, r)| {
                                (*p, match r {
                                    None => None,
                                    Some(Ok((Value::Integer(n), _))) => Some(n.to_string()),
                                    Some(Ok(_)) => Some("?".to_string()),
                                    Some(Err(_)) => Some("err".to_string()),
                                })
                            })
                            .collect();
                        rs.sort();
                        outs.push_str(" (upd");
                        for (p, v) in &rs {
                            outs.push_str(&format!(" ({} {})", p, v.clone().unwrap_or("-".into())));
                            delivered.insert(*p, v.clone());
                        }
                        outs.push(')');
                    }
                }
            }
        }
        let pending = env.verif_dump().pending_awaits.len();
        format!(
            "(queried{}) (outs{}) (pending {}) (delivered{})",
            queried,
            outs,
            pending,
            delivered.iter().map(|(p, v)| format!(" ({} {})", p, v.clone().unwrap_or("-".into()))).collect::<String>()
        )
    }
}

thread_local! {
    static LAST_MESSAGE: std::cell::RefCell<String> = const { std::cell::RefCell::new(String::new()) };
}

fn last_message() -> String {
    LAST_MESSAGE.with(|m| m.borrow().clone())
}

/// like qvh::quiet_panics, but also keeps the panic message (first 160 chars)
fn install_hook() {
    qvh::quiet_panics();
    let prev = std::panic::take_hook();
    std::panic::set_hook(Box::new(move |info| {
        let msg = info
            .payload()
            .downcast_ref::<String>()
            .cloned()
            .or_else(|| info.payload().downcast_ref::<&str>().map(|s| s.to_string()))
            .unwrap_or_default();
        LAST_MESSAGE.with(|m| *m.borrow_mut() = msg.chars().take(160).collect::<String>().replace('\n', " "));
        prev(info);
    }));
}

fn main() {
    install_hook();
    if std::env::args().any(|a| a == "--env") {
        for line in qvh::stdin_cases() {
            let l = line.clone();
            match guarded(move || envmode::run_env_case(&l)) {
                Ok(s) => println!("{}", s),
                Err(loc) => println!("(panic \"{}\")", loc),
            }
        }
        return;
    }
    for line in qvh::stdin_cases() {
        let l = line.clone();
        match guarded(move || run_case(&l)) {
            Ok(s) => println!("{}", s),
            Err(loc) => println!("(panic \"{}\")", loc),
        }
    }
    let _ = hex(&[]);
}
