//! qv_sim: deterministic single-threaded simulator of the real Environment + N Workers (+ Repl)
//! over in-memory transports, driven by an explicit schedule of atomic actions (DESIGN.md §4).
//! Input/trace/summary formats are specified in /verif/harness/SIM_FORMAT.md.
//!
//! stdin : one case per line
//!   (case (workers N) (quantum Q) (program "<line>"...) (schedule <action>*) (opts ...))
//! stdout: one summary line per case; with `--trace` a multi-line protocol trace before it.
//! flags : --trace  --instr (per-instruction records inside the trace)  --emit-schedule
#[path = "qv_sim/backend.rs"]
mod backend;
#[path = "qv_sim/dump.rs"]
mod dump;
#[path = "qv_sim/transport.rs"]
mod transport;

use backend::{BackendRef, CLOSE, SimBackend, new_backend_state, sim_registry};
use dump::{Canon, Fmt, dump_val, err_text, sanitize};
use quiver_compiler::compiler::ModuleCache;
use quiver_compiler::{Compiler, PackageResolver, parse};
use quiver_core::executor::verif;
use quiver_core::process::ProcessId;
use quiver_core::program::Program;
use quiver_core::types::Type;
use quiver_core::value::Value;
use quiver_environment::{
    Command, Environment, Event, Repl, ReplError, RequestResult, Worker, WorkerHandle,
};
use qvh::sexp::{self, Sexp};
use qvh::{Bins, TestEffect};
use std::cell::RefCell;
use std::collections::{BTreeMap, BTreeSet, HashMap, HashSet};
use std::rc::Rc;
use transport::{E, LogItem, Shared, SharedRef, SimHandle, SimReceiver, SimSender};

// ------------------------------------------------------------------------------------ actions

#[derive(Clone, Debug, PartialEq)]
enum Act {
    /// one Worker::step of worker i; Some(k): only the first k queued commands are visible
    W(usize, Option<usize>),
    /// one Environment::step; Some(ks): worker j's handle exposes only its first ks[j] events
    E(Option<Vec<usize>>),
    /// advance the virtual clock by d ms
    T(u64),
}

impl Act {
    fn text(&self) -> String {
        match self {
            Act::W(i, None) => format!("(w {})", i),
            Act::W(i, Some(k)) => format!("(w {} {})", i, k),
            Act::E(None) => "(e)".to_string(),
            Act::E(Some(ks)) => format!(
                "(e {})",
                ks.iter().map(|k| k.to_string()).collect::<Vec<_>>().join(" ")
            ),
            Act::T(d) => format!("(t {})", d),
        }
    }
}

struct Rng(u64);
impl Rng {
    fn next(&mut self) -> u64 {
        // splitmix64
        self.0 = self.0.wrapping_add(0x9E37_79B9_7F4A_7C15);
        let mut z = self.0;
        z = (z ^ (z >> 30)).wrapping_mul(0xBF58_476D_1CE4_E5B9);
        z = (z ^ (z >> 27)).wrapping_mul(0x94D0_49BB_1331_11EB);
        z ^ (z >> 31)
    }
    fn below(&mut self, n: usize) -> usize {
        if n == 0 { 0 } else { (self.next() % n as u64) as usize }
    }
    fn chance(&mut self, percent: u64) -> bool {
        self.next() % 100 < percent
    }
}

// ------------------------------------------------------------------------------------ the simulator

type SimWorker = Worker<E, SimReceiver, SimSender>;

struct Sim {
    n: usize,
    shared: SharedRef,
    backend: BackendRef,
    workers: Vec<SimWorker>,
    env: Environment<E>,
    repl: Option<Repl<E>>,
    now: u64,
    worker_dead: Vec<Option<String>>,
    env_dead: Option<String>,
    panics: Vec<String>,
    errs: Vec<String>,
    executed: Vec<Act>,
    action_no: usize,
    in_prelude: bool,
    trace: bool,
    instr: bool,
    bytecode: bool,
    out: Vec<String>,
    // program lines
    lines: Vec<String>,
    next_line: usize,
    pending_req: Option<u64>,
    result_values: Vec<LineResult>,
    // spawn tree / awaits
    children: HashMap<ProcessId, Vec<ProcessId>>,
    ever_awaited: HashSet<ProcessId>,
    // oracles
    shadow_bytes: Vec<HashMap<usize, Vec<u8>>>,
    oracle_fail: BTreeMap<&'static str, Vec<String>>,
    oracle_seen: HashSet<String>,
    log_cursor: usize,
    // resources (shadow ownership derived from the observable protocol)
    owner: BTreeMap<usize, ProcessId>,
    closed_by_env: BTreeSet<usize>,
    closed_explicit: BTreeSet<usize>,
    created: BTreeSet<usize>,
    // stats
    w_steps: usize,
    e_steps: usize,
    t_steps: usize,
    units: usize,
    partial_actions: usize,
    starve_stretches: usize,
    starve_longest: usize,
    hang: Option<String>,
}

enum LineResult {
    Ok(Value, Vec<Vec<u8>>),
    Err(quiver_core::error::Error),
    Static(String),
}

fn compile_kind(e: &quiver_compiler::compiler::Error) -> String {
    let s = format!("{:?}", e);
    s.split(['(', ' ', '{']).next().unwrap_or("").to_string()
}

impl Sim {
    fn new(n: usize, quantum: usize, async_effects: bool, trace: bool, instr: bool) -> Sim {
        let shared: SharedRef = Rc::new(RefCell::new(Shared::new(n)));
        let backend = new_backend_state(async_effects);
        let registry = sim_registry();
        let mut workers = Vec::new();
        let mut handles: Vec<Box<dyn WorkerHandle<E>>> = Vec::new();
        for i in 0..n {
            workers.push(Worker::new(
                SimReceiver { shared: shared.clone(), id: i },
                SimSender { shared: shared.clone(), id: i },
                registry.clone(),
                false,
                i as u16,
            ));
            handles.push(Box::new(SimHandle { shared: shared.clone(), id: i }));
        }
        let mut env = Environment::<E>::new(handles);
        env.set_effect_backend(Box::new(SimBackend {
            state: backend.clone(),
            shared: shared.clone(),
        }));
        verif::set_quantum(quantum);
        verif::set_tracing(true);
        Sim {
            n,
            shared,
            backend,
            workers,
            env,
            repl: None,
            now: 0,
            worker_dead: vec![None; n],
            env_dead: None,
            panics: vec![],
            errs: vec![],
            executed: vec![],
            action_no: 0,
            in_prelude: false,
            trace,
            instr,
            bytecode: false,
            out: vec![],
            lines: vec![],
            next_line: 0,
            pending_req: None,
            result_values: vec![],
            children: HashMap::new(),
            ever_awaited: HashSet::new(),
            shadow_bytes: (0..n).map(|_| HashMap::new()).collect(),
            oracle_fail: BTreeMap::new(),
            oracle_seen: HashSet::new(),
            log_cursor: 0,
            owner: BTreeMap::new(),
            closed_by_env: BTreeSet::new(),
            closed_explicit: BTreeSet::new(),
            created: BTreeSet::new(),
            w_steps: 0,
            e_steps: 0,
            t_steps: 0,
            units: 0,
            partial_actions: 0,
            starve_stretches: 0,
            starve_longest: 0,
            hang: None,
        }
    }

    fn fail(&mut self, oracle: &'static str, what: String) {
        let key = format!("{} {}", oracle, what);
        if self.oracle_seen.insert(key) {
            self.oracle_fail.entry(oracle).or_default().push(what);
        }
    }

    // ------------------------------------------------------------------ program start

    /// `(mode run)`: compile the whole source as one top-level program and start it like `quiv run`.
    fn start_run_mode(&mut self, source: &str) {
        let builtins = sim_registry();
        let src = source.to_string();
        let compiled = qvh::guarded(move || -> Result<(Program, usize), String> {
            let ast = parse(&src).map_err(|_| "(parse-error)".to_string())?;
            let mut program = Program::new();
            let mut cache = ModuleCache::new();
            let resolver = PackageResolver::memory(HashMap::new());
            // as quiv run (after the F58 repair): the parameter is the nil *type*, not the NIL tuple id
            let entry_param_type = program.register_type(quiver_core::types::Type::nil());
            let c = Compiler::compile(
                ast,
                &HashMap::new(),
                &mut cache,
                &resolver,
                &mut program,
                entry_param_type,
                &HashMap::new(),
                &builtins,
                None,
            )
            .map_err(|e| format!("(compile-error {})", compile_kind(&e.error)))?;
            let nil = program.register_type(Type::nil());
            let callable = program.register_type(Type::Callable {
                parameter: nil,
                result: c.result_type,
                receive: c.receive_type,
            });
            let entry = program.register_function(quiver_core::bytecode::Function {
                instructions: c.instructions,
                captures: 0,
                type_id: callable,
            });
            Ok((program, entry))
        });
        match compiled {
            Err(loc) => self.result_values.push(LineResult::Static(format!("(compiler-panic \"{}\")", loc))),
            Ok(Err(s)) => self.result_values.push(LineResult::Static(s)),
            Ok(Ok((program, entry))) => {
                let bc = program.to_bytecode(Some(entry));
                let pid = self.env.start_process(Some(bc)).expect("start_process");
                let req = self.env.request_result(pid, None).expect("request_result");
                self.pending_req = Some(req);
                self.result_values.push(LineResult::Static("(none)".to_string()));
            }
        }
        self.next_line = self.lines.len();
        let start = self.log_cursor;
        self.process_log(start);
    }

    /// REPL mode: evaluate lines one after another through the real `Repl`, starting the next one
    /// as soon as the previous result has been delivered.
    fn start_next_lines(&mut self) {
        while self.pending_req.is_none() && self.next_line < self.lines.len() {
            let idx = self.next_line;
            self.next_line += 1;
            let src = self.lines[idx].clone();
            // process types for `@N` references: fetched like the CLI/tests do, under a fair
            // prelude (not part of the explicit schedule). The first line needs none.
            let types = if idx == 0 { HashMap::new() } else { self.fetch_process_types() };
            let repl = self.repl.as_mut().expect("repl");
            let env = &mut self.env;
            let r = qvh::guarded(|| repl.evaluate(env, &src, types));
            let slot = match r {
                Err(loc) => LineResult::Static(format!("(compiler-panic \"{}\")", loc)),
                Ok(Err(ReplError::Parser(_))) => LineResult::Static("(parse-error)".to_string()),
                Ok(Err(ReplError::Compiler(e))) => {
                    LineResult::Static(format!("(compile-error {})", compile_kind(&e)))
                }
                Ok(Err(ReplError::Runtime(e))) => LineResult::Err(e),
                Ok(Err(ReplError::Environment(e))) => {
                    LineResult::Static(format!("(env-error {})", sexp::quote(&sanitize(&format!("{}", e)))))
                }
                Ok(Ok(None)) => LineResult::Static("(no-code)".to_string()),
                Ok(Ok(Some(req))) => {
                    self.pending_req = Some(req);
                    LineResult::Static("(none)".to_string())
                }
            };
            self.result_values.push(slot);
            let start = self.log_cursor;
            self.process_log(start);
            if self.trace {
                self.out.push(format!("(line {} {})", idx, sexp::quote(&src)));
                self.emit_log_since(start);
                if self.bytecode {
                    let p = self.program_dump();
                    self.out.push(p);
                }
            }
        }
    }

    fn fetch_process_types(&mut self) -> HashMap<usize, (Type, usize)> {
        let start = self.shared.borrow().log.len();
        let req = match self.env.request_process_types() {
            Ok(r) => r,
            Err(_) => return HashMap::new(),
        };
        if self.trace {
            self.out.push("(client \"request_process_types\")".to_string());
            self.emit_log_since(start);
        }
        self.in_prelude = true;
        let mut out = HashMap::new();
        for _ in 0..200 {
            self.do_action(Act::E(None));
            if let Ok(Some(RequestResult::ProcessTypes(t))) = self.env.poll_request(req) {
                out = t;
                break;
            }
            for i in 0..self.n {
                self.do_action(Act::W(i, None));
            }
        }
        self.in_prelude = false;
        out
    }

    fn poll_result(&mut self) {
        if let Some(req) = self.pending_req {
            match self.env.poll_request(req) {
                Ok(Some(RequestResult::Result(r, _))) => {
                    self.pending_req = None;
                    let last = self.result_values.len() - 1;
                    self.result_values[last] = match r {
                        Ok((v, heap)) => LineResult::Ok(v, heap),
                        Err(e) => LineResult::Err(e),
                    };
                    if self.repl.is_some() && !self.in_prelude {
                        self.start_next_lines();
                    }
                }
                Ok(Some(_)) => {
                    self.pending_req = None;
                }
                Ok(None) => {}
                Err(_) => {
                    self.pending_req = None;
                }
            }
        }
    }

    // ------------------------------------------------------------------ one atomic action

    fn do_action(&mut self, act: Act) -> bool {
        if !self.in_prelude {
            self.executed.push(act.clone());
        }
        self.action_no += 1;
        let log_start = self.shared.borrow().log.len();
        let mut did_work = false;
        let mut outcome = String::from("(outcome ok)");
        let mut exec_line = String::new();
        match &act {
            Act::T(d) => {
                self.now += d;
                self.t_steps += 1;
                did_work = true;
            }
            Act::W(i, k) => {
                let i = *i;
                if i >= self.n {
                    outcome = "(outcome no-such-worker)".to_string();
                } else if self.worker_dead[i].is_some() {
                    outcome = "(outcome dead)".to_string();
                } else {
                    self.w_steps += 1;
                    if let Some(k) = k {
                        if *k < self.shared.borrow().cmds[i].len() {
                            self.partial_actions += 1;
                        }
                    }
                    self.shared.borrow_mut().cmd_limit[i] = *k;
                    verif::take_trace();
                    let now = self.now;
                    let w = &mut self.workers[i];
                    let r = qvh::guarded(|| w.step(now));
                    self.shared.borrow_mut().cmd_limit[i] = None;
                    let tr = verif::take_trace();
                    self.units += tr.len();
                    match r {
                        Err(loc) => {
                            self.worker_dead[i] = Some(loc.clone());
                            self.panics.push(loc.clone());
                            outcome = format!("(outcome panic \"{}\")", loc);
                            did_work = true;
                        }
                        Ok(Err(e)) => {
                            let m = sanitize(&format!("{}", e));
                            self.worker_dead[i] = Some(format!("err: {}", m));
                            self.errs.push(format!("(worker {} {})", i, sexp::quote(&m)));
                            outcome = format!("(outcome err {})", sexp::quote(&m));
                            did_work = true;
                        }
                        Ok(Ok(d)) => {
                            did_work = d;
                            outcome = format!("(outcome ok {})", d);
                        }
                    }
                    if self.trace {
                        exec_line = match tr.first() {
                            None => " (exec idle)".to_string(),
                            Some(first) => {
                                let pid = first.pid;
                                let finished = self.workers[i]
                                    .verif_executor()
                                    .get_process(pid)
                                    .map(|p| p.result.is_some())
                                    .unwrap_or(false);
                                let mut s = format!(
                                    " (exec (pid {}) (units {}) (finished {}))",
                                    pid,
                                    tr.len(),
                                    finished
                                );
                                if self.instr {
                                    s.push_str("\n (instrs");
                                    for t in &tr {
                                        s.push_str(&format!(
                                            " ({} {} {:?} {} {} {})",
                                            t.function_index,
                                            t.pc,
                                            t.instruction,
                                            t.stack_len,
                                            t.locals_len,
                                            t.frames_len
                                        ));
                                    }
                                    s.push(')');
                                }
                                s
                            }
                        };
                    }
                }
            }
            Act::E(ks) => {
                if self.env_dead.is_some() {
                    outcome = "(outcome dead)".to_string();
                } else {
                    self.e_steps += 1;
                    {
                        let mut s = self.shared.borrow_mut();
                        let mut partial = false;
                        for j in 0..self.n {
                            let lim = ks.as_ref().and_then(|v| v.get(j).copied());
                            if let Some(l) = lim {
                                if l < s.evts[j].len() {
                                    partial = true;
                                }
                            }
                            s.evt_limit[j] = lim;
                        }
                        if partial {
                            self.partial_actions += 1;
                        }
                    }
                    let env = &mut self.env;
                    let r = qvh::guarded(|| env.step());
                    {
                        let mut s = self.shared.borrow_mut();
                        for j in 0..self.n {
                            s.evt_limit[j] = None;
                        }
                    }
                    match r {
                        Err(loc) => {
                            self.env_dead = Some(loc.clone());
                            self.panics.push(loc.clone());
                            outcome = format!("(outcome panic \"{}\")", loc);
                            did_work = true;
                        }
                        Ok(Err(e)) => {
                            // the real drivers (`quiv run`, tests) ignore an Err of Environment::step
                            // and keep stepping; so do we, but it is recorded.
                            let m = sanitize(&format!("{}", e));
                            self.errs.push(format!("(env {})", sexp::quote(&m)));
                            outcome = format!("(outcome err {})", sexp::quote(&m));
                            did_work = true;
                        }
                        Ok(Ok(d)) => {
                            did_work = d;
                            outcome = format!("(outcome ok {})", d);
                        }
                    }
                }
            }
        }
        self.process_log(log_start);
        // oracles evaluated after every action
        match &act {
            Act::W(i, _) if *i < self.n && self.worker_dead[*i].is_none() => self.check_heap(*i),
            Act::E(_) if self.env_dead.is_none() => self.check_ownership_map(),
            _ => {}
        }
        if self.trace {
            let head = format!(
                "(action {} {}{} (now {}){}",
                self.action_no,
                if self.in_prelude { "(prelude) " } else { "" },
                act.text(),
                self.now,
                exec_line
            );
            self.out.push(head);
            self.emit_log_since(log_start);
            self.out.push(format!(" {})", outcome));
            let st = self.state_dump();
            self.out.push(st);
        }
        if let Act::E(_) = act {
            self.poll_result();
        }
        did_work
    }

    fn emit_log_since(&mut self, start: usize) {
        let items: Vec<LogItem> = self.shared.borrow().log[start..].to_vec();
        let program = self.env.get_program();
        let f = Fmt { program, consts: program.get_constants() };
        let lines: Vec<String> = items.iter().map(|it| format!(" {}", f.log_item(it))).collect();
        self.out.extend(lines);
    }

    // ------------------------------------------------------------------ log post-processing

    fn proc_finished(&self, pid: ProcessId) -> Option<bool> {
        for (i, w) in self.workers.iter().enumerate() {
            if let Some(p) = w.verif_executor().get_process(pid) {
                if self.worker_dead[i].is_some() {
                    return None;
                }
                // a persistent (REPL) process that is sleeping between lines is not terminated
                return Some(p.result.is_some() && !p.persistent);
            }
        }
        None
    }

    fn transfer(&mut self, v: &Value, to: ProcessId) {
        match v {
            Value::Resource(rid, _) => {
                self.owner.insert(*rid, to);
            }
            Value::Tuple(_, fs) | Value::Function(_, fs) => {
                for f in fs.iter() {
                    self.transfer(f, to);
                }
            }
            _ => {}
        }
    }

    fn process_log(&mut self, _from: usize) {
        let start = self.log_cursor;
        let items: Vec<LogItem> = self.shared.borrow().log[start..].to_vec();
        self.log_cursor = start + items.len();
        for it in items {
            match it {
                LogItem::CmdSent(_, Command::NotifySpawn { process_id, spawned_pid, .. }) => {
                    self.children.entry(process_id).or_default().push(spawned_pid);
                }
                LogItem::CmdSent(_, Command::SpawnProcess { id, captures, argument, .. }) => {
                    for c in &captures {
                        self.transfer(c, id);
                    }
                    self.transfer(&argument, id);
                }
                LogItem::CmdSent(_, Command::DeliverMessage { target, message, .. }) => {
                    self.transfer(&message, target);
                }
                LogItem::EvtRecv(_, Event::AwaitAction { targets, .. }) => {
                    for t in targets {
                        self.ever_awaited.insert(t);
                    }
                }
                LogItem::Execute(pid, effect, out) => match effect {
                    TestEffect::Open(_) => {
                        if let Some(rest) = out.strip_prefix("(ok (res ") {
                            if let Ok(rid) = rest.trim_end_matches(')').parse::<usize>() {
                                self.created.insert(rid);
                                self.owner.insert(rid, pid);
                            }
                        }
                    }
                    TestEffect::Op(r, n) => {
                        match self.owner.get(&r).copied() {
                            Some(o) if o == pid => {}
                            Some(o) => self.fail(
                                "resources",
                                format!("(non-owner-execute (pid {}) (res {}) (owner {}))", pid, r, o),
                            ),
                            None => {
                                let why = if self.closed_by_env.contains(&r) {
                                    "execute-after-cleanup"
                                } else {
                                    "execute-unowned"
                                };
                                self.fail("resources", format!("({} (pid {}) (res {}))", why, pid, r));
                            }
                        }
                        if n == CLOSE && out.starts_with("(ok") {
                            self.closed_explicit.insert(r);
                        }
                    }
                },
                LogItem::Close(rid, was_open) => {
                    if self.closed_by_env.contains(&rid) {
                        self.fail("resources", format!("(closed-twice (res {}))", rid));
                    }
                    if let Some(o) = self.owner.get(&rid).copied() {
                        if self.proc_finished(o) == Some(false) {
                            self.fail(
                                "resources",
                                format!("(closed-while-owner-alive (res {}) (owner {}))", rid, o),
                            );
                        }
                    }
                    let _ = was_open;
                    self.closed_by_env.insert(rid);
                    self.owner.remove(&rid);
                }
                _ => {}
            }
        }
    }

    // ------------------------------------------------------------------ oracles

    /// `refcounts` (C06): check_refcounts, no reachable slot freed, bytes of reachable slots stable.
    fn check_heap(&mut self, i: usize) {
        let (rc, reach, dump) = {
            let ex = self.workers[i].verif_executor();
            (ex.check_refcounts(), ex.reachable_heap_indices(), ex.verif_dump())
        };
        if let Err(e) = rc {
            self.fail("refcounts", format!("(check-refcounts (worker {}) {})", i, sexp::quote(&e)));
        }
        let mut fails = vec![];
        {
            let shadow = &mut self.shadow_bytes[i];
            for &slot in &reach {
                if dump.freed.get(slot).copied().unwrap_or(false) {
                    fails.push(format!("(reachable-slot-freed (worker {}) (slot {}))", i, slot));
                    continue;
                }
                let bytes = dump.heap_bytes.get(slot).cloned().unwrap_or_default();
                match shadow.get(&slot) {
                    Some(old) if *old != bytes => fails.push(format!(
                        "(bytes-changed (worker {}) (slot {}) (was {}) (now {}))",
                        i,
                        slot,
                        qvh::hex(old),
                        qvh::hex(&bytes)
                    )),
                    Some(_) => {}
                    None => {
                        shadow.insert(slot, bytes);
                    }
                }
            }
            shadow.retain(|k, _| reach.contains(k));
        }
        for f in fails {
            self.fail("refcounts", f);
        }
    }

    /// The environment's own ownership map must equal the ownership derived from the protocol.
    fn check_ownership_map(&mut self) {
        let d = self.env.verif_dump();
        let env_map: BTreeMap<usize, usize> = d.resource_ownership.iter().copied().collect();
        if env_map != self.owner {
            let a = format!("{:?}", env_map);
            let b = format!("{:?}", self.owner);
            self.fail(
                "resources",
                format!("(ownership-map-mismatch (env {}) (derived {}))", sexp::quote(&a), sexp::quote(&b)),
            );
        }
    }

    // ------------------------------------------------------------------ enabledness / fair run

    fn worker_enabled(&self, i: usize) -> bool {
        if self.worker_dead[i].is_some() {
            return false;
        }
        if !self.shared.borrow().cmds[i].is_empty() || self.workers[i].has_runnable() {
            return true;
        }
        matches!(self.workers[i].next_timeout_ms(), Some(t) if t <= self.now)
    }

    fn env_enabled(&self) -> bool {
        if self.env_dead.is_some() {
            return false;
        }
        self.shared.borrow().evts.iter().any(|q| !q.is_empty()) || !self.backend.borrow().pending.is_empty()
    }

    fn next_timeout(&self) -> Option<u64> {
        (0..self.n)
            .filter(|i| self.worker_dead[*i].is_none())
            .filter_map(|i| self.workers[i].next_timeout_ms())
            .min()
    }

    fn anything_enabled(&self) -> bool {
        self.env_enabled() || (0..self.n).any(|i| self.worker_enabled(i))
    }

    /// Round-robin `e, w0 … wN-1` (+ a clock tick to the next timeout when idle) until quiescence.
    /// Returns true when quiescent, false when `max_rounds` was exhausted.
    fn run_fair(&mut self, max_rounds: usize) -> bool {
        for _ in 0..max_rounds {
            if !self.anything_enabled() {
                match self.next_timeout() {
                    Some(t) if t > self.now => {
                        let d = t - self.now;
                        self.do_action(Act::T(d));
                        continue;
                    }
                    Some(_) => {}
                    None => return true,
                }
            }
            if self.env_enabled() {
                self.do_action(Act::E(None));
            }
            for i in 0..self.n {
                if self.worker_enabled(i) {
                    self.do_action(Act::W(i, None));
                }
            }
        }
        !self.anything_enabled() && self.next_timeout().is_none()
    }

    /// Seeded random walk over enabled actions with starvation bias.
    /// params: percent chances `starve`, `partial`, `tick`.
    fn run_random(&mut self, seed: u64, steps: usize, starve: u64, partial: u64, tick: u64) {
        let mut rng = Rng(seed ^ 0x5DEE_CE66_D1CE_F00D);
        // victim: usize::MAX = environment, otherwise worker index
        let mut victim: Option<(usize, usize, usize)> = None; // (who, remaining, starved_steps)
        for _ in 0..steps {
            let mut enabled: Vec<usize> = (0..self.n).filter(|i| self.worker_enabled(*i)).collect();
            if self.env_enabled() {
                enabled.push(usize::MAX);
            }
            if enabled.is_empty() {
                match self.next_timeout() {
                    Some(t) if t > self.now => {
                        let d = t - self.now;
                        self.do_action(Act::T(d));
                        continue;
                    }
                    Some(_) => continue,
                    None => break,
                }
            }
            if tick > 0 && self.next_timeout().is_some() && rng.chance(tick) {
                let d = 1 + rng.below(3) as u64;
                self.do_action(Act::T(d));
                continue;
            }
            if victim.is_none() && enabled.len() > 1 && rng.chance(starve) {
                // prefer a worker whose queue holds a QueryAndAwait, then the environment
                let holding: Vec<usize> = (0..self.n)
                    .filter(|i| {
                        enabled.contains(i)
                            && self.shared.borrow().cmds[*i]
                                .iter()
                                .any(|c| matches!(c, Command::QueryAndAwait { .. }))
                    })
                    .collect();
                let who = if !holding.is_empty() && rng.chance(60) {
                    holding[rng.below(holding.len())]
                } else if enabled.contains(&usize::MAX) && rng.chance(50) {
                    usize::MAX
                } else {
                    enabled[rng.below(enabled.len())]
                };
                victim = Some((who, 3 + rng.below(25), 0));
            }
            let mut candidates: Vec<usize> = enabled.clone();
            if let Some((who, remaining, starved)) = victim {
                candidates.retain(|c| *c != who);
                if candidates.is_empty() || remaining == 0 {
                    if starved >= 3 {
                        self.starve_stretches += 1;
                        self.starve_longest = self.starve_longest.max(starved);
                    }
                    victim = None;
                    candidates = enabled.clone();
                } else {
                    let s = if enabled.contains(&who) { starved + 1 } else { starved };
                    victim = Some((who, remaining - 1, s));
                }
            }
            let c = candidates[rng.below(candidates.len())];
            if c == usize::MAX {
                let lens: Vec<usize> = self.shared.borrow().evts.iter().map(|q| q.len()).collect();
                let total: usize = lens.iter().sum();
                if total >= 2 && rng.chance(partial) {
                    let mut ks: Vec<usize> = lens.iter().map(|l| rng.below(l + 1)).collect();
                    if ks.iter().sum::<usize>() == 0 {
                        // expose exactly one event of some non-empty queue
                        let ne: Vec<usize> = (0..self.n).filter(|j| lens[*j] > 0).collect();
                        ks[ne[rng.below(ne.len())]] = 1;
                    }
                    self.do_action(Act::E(Some(ks)));
                } else {
                    self.do_action(Act::E(None));
                }
            } else {
                let len = self.shared.borrow().cmds[c].len();
                if len >= 2 && rng.chance(partial) {
                    let k = rng.below(len);
                    self.do_action(Act::W(c, Some(k)));
                } else {
                    self.do_action(Act::W(c, None));
                }
            }
        }
        if let Some((_, _, starved)) = victim {
            if starved >= 3 {
                self.starve_stretches += 1;
                self.starve_longest = self.starve_longest.max(starved);
            }
        }
    }

    // ------------------------------------------------------------------ dumps

    fn status_of(&self, i: usize, pid: ProcessId) -> &'static str {
        let ex = self.workers[i].verif_executor();
        let d = ex.verif_dump();
        let p = match ex.get_process(pid) {
            Some(p) => p,
            None => return "missing",
        };
        match &p.result {
            Some(Ok(_)) if p.frames.is_empty() => {
                if p.persistent { "sleeping" } else { "done" }
            }
            Some(Err(_)) => "failed",
            _ => {
                if d.queue.contains(&pid) {
                    "runnable"
                } else if d.spawning.contains(&pid) {
                    "waiting-spawn"
                } else if d.selecting.contains(&pid) {
                    "waiting-select"
                } else if d.effecting.contains(&pid) {
                    "waiting-effect"
                } else {
                    "active"
                }
            }
        }
    }

    fn state_dump(&self) -> String {
        let program = self.env.get_program();
        let consts = program.get_constants();
        let f = Fmt { program, consts };
        let mut s = String::from("(state\n");
        for i in 0..self.n {
            let ex = self.workers[i].verif_executor();
            let d = ex.verif_dump();
            let bins = Bins::Exec(ex, consts);
            let dv = |v: &Value| qvh::dump_value(v, program, &bins);
            let list = |v: &[usize]| v.iter().map(|x| x.to_string()).collect::<Vec<_>>().join(" ");
            s.push_str(&format!(
                " (worker {} {} (queue {}) (spawning {}) (selecting {}) (effecting {})\n",
                i,
                if self.worker_dead[i].is_some() { "dead" } else { "alive" },
                list(&d.queue),
                list(&d.spawning),
                list(&d.selecting),
                list(&d.effecting)
            ));
            for (pid, frames) in &d.frames {
                let Some(p) = ex.get_process(*pid) else { continue };
                let frames_s = frames
                    .iter()
                    .map(|(fi, base, caps, pc)| format!("({} {} {} {})", fi, pc, base, caps))
                    .collect::<Vec<_>>()
                    .join(" ");
                let vals = |vs: &mut dyn Iterator<Item = &Value>| vs.map(|v| dv(v)).collect::<Vec<_>>().join(" ");
                let result = match &p.result {
                    None => "-".to_string(),
                    Some(Ok(v)) => format!("(ok {})", dv(v)),
                    Some(Err(e)) => err_text(e),
                };
                let select = match &p.select_state {
                    None => "-".to_string(),
                    Some(st) => format!(
                        "(sel {} {} (sources {}) (cursors {}) (start {}) (receiving {}))",
                        st.frame,
                        st.instruction,
                        vals(&mut st.sources.iter()),
                        list(&st.cursors),
                        st.start_time.map(|t| t.to_string()).unwrap_or("-".to_string()),
                        match &st.receiving {
                            None => "-".to_string(),
                            Some((idx, v)) => format!("({} {})", idx, dv(v)),
                        }
                    ),
                };
                let mut awaiting: Vec<(usize, String)> = p
                    .awaiting
                    .iter()
                    .map(|(t, v)| (*t, v.as_ref().map(|v| dv(v)).unwrap_or("-".to_string())))
                    .collect();
                awaiting.sort();
                s.push_str(&format!(
                    "  (proc {} {} (persistent {}) (frames {}) (stack {}) (locals {}) (mailbox {}) (result {}) (select {}) (awaiting {}))\n",
                    pid,
                    self.status_of(i, *pid),
                    p.persistent,
                    frames_s,
                    vals(&mut p.stack.iter()),
                    vals(&mut p.locals.iter()),
                    vals(&mut p.mailbox.iter()),
                    result,
                    select,
                    awaiting.iter().map(|(t, v)| format!("({} {})", t, v)).collect::<Vec<_>>().join(" ")
                ));
            }
            let (awaited, awaiters) = self.workers[i].verif_dump();
            s.push_str(&format!(
                "  (awaited {}) (awaiters {})\n",
                list(&awaited),
                awaiters
                    .iter()
                    .map(|(t, a)| format!("({} ({}))", t, list(a)))
                    .collect::<Vec<_>>()
                    .join(" ")
            ));
            let mut pf = d.pending_free.clone();
            pf.sort_unstable();
            s.push_str(&format!(
                "  (heap {}) (free {}) (pending-free {}) (const-bins {}) (next-ref {})\n",
                (0..d.heap_bytes.len())
                    .map(|k| format!("({} {} {} {})", k, if d.heap_bytes[k].is_empty() { "-".to_string() } else { qvh::hex(&d.heap_bytes[k]) }, d.refcounts[k], d.freed[k]))
                    .collect::<Vec<_>>()
                    .join(" "),
                list(&d.free),
                list(&pf),
                d.constant_binaries
                    .iter()
                    .enumerate()
                    .filter_map(|(ci, b)| b.map(|slot| format!("({} {})", ci, slot)))
                    .collect::<Vec<_>>()
                    .join(" "),
                d.next_ref
            ));
            let sh = self.shared.borrow();
            s.push_str(&format!(
                "  (chan (cmds {}) (evts {})))\n",
                sh.cmds[i].iter().map(|c| f.command(c)).collect::<Vec<_>>().join(" "),
                sh.evts[i].iter().map(|e| f.event(e)).collect::<Vec<_>>().join(" ")
            ));
        }
        let d = self.env.verif_dump();
        s.push_str(&format!(
            " (env {} (router {}) (pending-awaits {}) (ownership {}) (next-pid {}))\n",
            if self.env_dead.is_some() { "dead" } else { "alive" },
            d.process_router.iter().map(|(p, w)| format!("({} {})", p, w)).collect::<Vec<_>>().join(" "),
            d.pending_awaits
                .iter()
                .map(|(a, exp, resp, ans)| {
                    let l = |v: &Vec<usize>| v.iter().map(|x| x.to_string()).collect::<Vec<_>>().join(" ");
                    format!("({} (expected {}) (responded {}) (answered {}))", a, l(exp), l(resp), l(ans))
                })
                .collect::<Vec<_>>()
                .join(" "),
            d.resource_ownership.iter().map(|(r, p)| format!("({} {})", r, p)).collect::<Vec<_>>().join(" "),
            d.next_process_id
        ));
        let b = self.backend.borrow();
        s.push_str(&format!(
            " (backend (open {}) (pending-completions {}))\n (clock {}))",
            b.open.iter().map(|r| r.to_string()).collect::<Vec<_>>().join(" "),
            b.pending.len(),
            self.now
        ));
        s
    }

    /// Full dump of the environment's merged program (what the workers have been sent so far).
    fn program_dump(&self) -> String {
        let p = self.env.get_program();
        let ins = |i: &quiver_core::bytecode::Instruction| {
            let d = format!("{:?}", i).replace(['(', ','], " ").replace(')', "");
            format!("({})", d.split_whitespace().collect::<Vec<_>>().join(" "))
        };
        let mut s = String::from("(program (consts");
        for c in p.get_constants() {
            match c {
                quiver_core::bytecode::Constant::Integer(n) => s.push_str(&format!(" (i {})", n)),
                quiver_core::bytecode::Constant::Binary(b) => s.push_str(&format!(" (b {})", qvh::hex(b))),
            }
        }
        s.push_str(")\n (fns");
        for (k, f) in p.get_functions().iter().enumerate() {
            s.push_str(&format!(
                "\n  (fn {} (captures {}) (type {}) (ins {}))",
                k,
                f.captures,
                f.type_id,
                f.instructions.iter().map(ins).collect::<Vec<_>>().join(" ")
            ));
        }
        s.push_str(")\n (tuples");
        for t in p.get_tuples() {
            s.push_str(&format!(
                " ({} ({}))",
                t.name.clone().unwrap_or("-".to_string()),
                t.fields
                    .iter()
                    .map(|(l, ty)| format!("({} {})", l.clone().unwrap_or("-".to_string()), ty))
                    .collect::<Vec<_>>()
                    .join(" ")
            ));
        }
        s.push_str(")\n (types");
        for t in p.get_types() {
            s.push_str(&format!(" {}", sexp::quote(&format!("{:?}", t))));
        }
        s.push_str(")\n (builtins");
        for b in p.get_builtins() {
            s.push_str(&format!(" ({} {} {})", b.name, b.param_type, b.result_type));
        }
        s.push_str("))");
        s
    }

    // ------------------------------------------------------------------ final oracles + summary

    /// Post-mortem probe for lost wake-ups: a spurious wake-up (an `UpdateAwaitResults` without
    /// results => `mark_active`) is semantically a no-op for a parked select; if a parked process
    /// makes progress after it, it had a ready source while parked in a quiescent system.
    fn probe_lost_wakeups(&mut self, max_rounds: usize) {
        let mut parked: Vec<(usize, ProcessId, String)> = vec![];
        for i in 0..self.n {
            if self.worker_dead[i].is_some() {
                continue;
            }
            let ex = self.workers[i].verif_executor();
            let d = ex.verif_dump();
            for pid in &d.selecting {
                if let Some(p) = ex.get_process(*pid) {
                    if p.result.is_none() {
                        parked.push((i, *pid, self.proc_fingerprint(i, *pid)));
                    }
                }
            }
        }
        if parked.is_empty() {
            return;
        }
        let was_trace = self.trace;
        self.trace = false;
        let saved_executed = self.executed.len();
        for (i, pid, _) in &parked {
            self.shared.borrow_mut().cmds[*i].push_back(Command::UpdateAwaitResults {
                awaiter: *pid,
                results: HashMap::new(),
            });
        }
        self.in_prelude = true;
        self.run_fair(max_rounds);
        self.in_prelude = false;
        self.executed.truncate(saved_executed);
        self.trace = was_trace;
        for (i, pid, before) in parked {
            if self.worker_dead[i].is_some() {
                continue;
            }
            let after = self.proc_fingerprint(i, pid);
            if after != before {
                self.fail(
                    "quiescence",
                    format!("(lost-wakeup (pid {}) (before {}) (after {}))", pid, sexp::quote(&before), sexp::quote(&after)),
                );
            }
        }
    }

    fn proc_fingerprint(&self, i: usize, pid: ProcessId) -> String {
        let ex = self.workers[i].verif_executor();
        let d = ex.verif_dump();
        let Some(p) = ex.get_process(pid) else { return "missing".to_string() };
        let frames = d
            .frames
            .iter()
            .find(|(q, _)| *q == pid)
            .map(|(_, f)| format!("{:?}", f))
            .unwrap_or_default();
        format!(
            "{} frames={} stack={} mailbox={} result={}",
            self.status_of(i, pid),
            frames,
            p.stack.len(),
            p.mailbox.len(),
            p.result.is_some()
        )
    }

    fn final_oracles(&mut self, quiescent: bool) {
        // resources: everything owned by a terminated process must have been closed
        let owners: Vec<(usize, ProcessId)> = self.owner.iter().map(|(r, p)| (*r, *p)).collect();
        for (rid, o) in owners {
            if self.closed_explicit.contains(&rid) {
                continue;
            }
            if self.proc_finished(o) == Some(true) {
                let awaited = self.ever_awaited.contains(&o);
                self.fail(
                    "resources",
                    format!("(unclosed-after-termination (res {}) (owner {}) (owner-awaited {}))", rid, o, awaited),
                );
            }
        }
        // a dead component breaks every liveness expectation; `no-internal-error` reports it
        if !quiescent || self.env_dead.is_some() || self.worker_dead.iter().any(|d| d.is_some()) {
            return;
        }
        // quiescence: parked processes must not have a ready source
        for i in 0..self.n {
            if self.worker_dead[i].is_some() {
                continue;
            }
            let (spawning, selecting) = {
                let d = self.workers[i].verif_executor().verif_dump();
                (d.spawning.clone(), d.selecting.clone())
            };
            for pid in spawning {
                self.fail("quiescence", format!("(spawning-without-pending-spawn (pid {}))", pid));
            }
            for pid in selecting {
                let mut bad = vec![];
                {
                    let ex = self.workers[i].verif_executor();
                    let Some(p) = ex.get_process(pid) else { continue };
                    if p.result.is_some() {
                        continue;
                    }
                    let Some(st) = &p.select_state else { continue };
                    for src in &st.sources {
                        if let Value::Process(t, _) = src {
                            match p.awaiting.get(t) {
                                Some(Some(_)) => bad.push(format!("(parked-with-available-result (pid {}) (target {}))", pid, t)),
                                _ => {
                                    // is the target finished on its (alive) worker?
                                    for (j, w) in self.workers.iter().enumerate() {
                                        if self.worker_dead[j].is_some() {
                                            continue;
                                        }
                                        if let Some(tp) = w.verif_executor().get_process(*t) {
                                            if tp.result.is_some() {
                                                bad.push(format!("(parked-on-finished-target (pid {}) (target {}))", pid, t));
                                            }
                                        }
                                    }
                                }
                            }
                        }
                    }
                    if let Some(start) = st.start_time {
                        for src in &st.sources {
                            if let Value::Integer(ms) = src {
                                use num_traits::ToPrimitive;
                                let d = ms.to_i64().unwrap_or(i64::MAX).max(0) as u64;
                                if self.now.saturating_sub(start) >= d {
                                    bad.push(format!("(parked-with-elapsed-timeout (pid {}))", pid));
                                }
                            }
                        }
                    }
                }
                for b in bad {
                    self.fail("quiescence", b);
                }
            }
        }
    }

    fn summary(&mut self, quiescent: bool, emit_schedule: bool) -> String {
        // canonical names: spawn-tree paths
        let mut canon = Canon::default();
        let mut todo = vec![(0usize, "0".to_string())];
        while let Some((pid, path)) = todo.pop() {
            if let Some(ch) = self.children.get(&pid) {
                for (k, c) in ch.iter().enumerate() {
                    todo.push((*c, format!("{}.{}", path, k)));
                }
            }
            canon.paths.insert(pid, path);
        }
        // gather processes
        let program = self.env.get_program();
        let consts = program.get_constants();
        let mut procs: Vec<(Vec<usize>, String, usize, usize)> = vec![]; // (sort key, path, worker, pid)
        for i in 0..self.n {
            let d = self.workers[i].verif_executor().verif_dump();
            for pid in d.process_ids {
                let path = canon.pid(pid);
                let key: Vec<usize> = path.split('.').map(|x| x.parse::<usize>().unwrap_or(usize::MAX)).collect();
                procs.push((key, path, i, pid));
            }
        }
        procs.sort();
        let mut s = String::new();
        // line results
        s.push_str("(result");
        for r in &self.result_values {
            s.push(' ');
            match r {
                LineResult::Static(t) => s.push_str(t),
                LineResult::Err(e) => s.push_str(&err_text(e)),
                LineResult::Ok(v, heap) => {
                    let bins = Bins::Extracted(heap, consts);
                    s.push_str(&format!("(ok {})", dump_val(v, program, &bins, &mut Some(&mut canon))));
                }
            }
        }
        s.push_str(") (per-process");
        for (_, path, i, pid) in &procs {
            let ex = self.workers[*i].verif_executor();
            let bins = Bins::Exec(ex, consts);
            let status = self.status_of(*i, *pid);
            let result = match ex.get_process(*pid).and_then(|p| p.result.as_ref()) {
                None => "-".to_string(),
                Some(Ok(v)) => format!("(ok {})", dump_val(v, program, &bins, &mut Some(&mut canon))),
                Some(Err(e)) => err_text(e),
            };
            s.push_str(&format!(" (proc {} {} {})", path, status, result));
        }
        s.push_str(") (mailbox-left");
        for (_, path, i, pid) in &procs {
            if let Some(p) = self.workers[*i].verif_executor().get_process(*pid) {
                if !p.mailbox.is_empty() {
                    s.push_str(&format!(" ({} {})", path, p.mailbox.len()));
                }
            }
        }
        s.push_str(&format!(") (quiescent {})", quiescent));
        if let Some(h) = &self.hang {
            s.push_str(&format!(" (hang {})", h));
        }
        s.push_str(&format!(
            " (panics{}) (errs{})",
            self.panics.iter().map(|p| format!(" \"{}\"", p)).collect::<String>(),
            self.errs.iter().map(|e| format!(" {}", e)).collect::<String>()
        ));
        // oracles
        if !self.panics.is_empty() || !self.errs.is_empty() {
            let items: Vec<String> = self
                .panics
                .iter()
                .map(|p| format!("(panic \"{}\")", p))
                .chain(self.errs.iter().cloned())
                .collect();
            for it in items {
                self.fail("no-internal-error", it);
            }
        }
        s.push_str(" (oracles");
        for name in ["refcounts", "no-internal-error", "quiescence", "resources"] {
            match self.oracle_fail.get(name) {
                None => s.push_str(&format!(" ({} ok)", name)),
                Some(items) => s.push_str(&format!(" ({} (fail {}))", name, items.join(" "))),
            }
        }
        // pid -> path map (so that Python can translate the raw pids of oracle items)
        let mut pm: Vec<(usize, String)> = canon.paths.iter().map(|(p, s)| (*p, s.clone())).collect();
        pm.sort();
        s.push_str(&format!(
            ") (pids{}) (placement{})",
            pm.iter().map(|(p, q)| format!(" ({} {})", p, q)).collect::<String>(),
            procs.iter().map(|(_, path, i, _)| format!(" ({} {})", path, i)).collect::<String>()
        ));
        s.push_str(&format!(
            " (stats (actions {}) (w {}) (e {}) (t {}) (units {}) (partial {}) (starve-stretches {}) (starve-longest {}) (clock {}) (effects {}))",
            self.executed.len(),
            self.w_steps,
            self.e_steps,
            self.t_steps,
            self.units,
            self.partial_actions,
            self.starve_stretches,
            self.starve_longest,
            self.now,
            self.shared.borrow().log.iter().filter(|l| matches!(l, LogItem::Execute(..))).count()
        ));
        if emit_schedule {
            s.push_str(&format!(
                " (schedule {})",
                self.executed.iter().map(|a| a.text()).collect::<Vec<_>>().join(" ")
            ));
        }
        s
    }
}

// ------------------------------------------------------------------------------------ case driver

fn get<'a>(items: &'a [Sexp], key: &str) -> Option<&'a [Sexp]> {
    for it in items {
        if let Sexp::List(l) = it {
            if !l.is_empty() && matches!(&l[0], Sexp::Atom(a) if a == key) {
                return Some(&l[1..]);
            }
        }
    }
    None
}

fn run_case(line: &str, trace: bool, instr: bool, bytecode: bool, emit_schedule: bool) -> (Vec<String>, String) {
    let parsed = sexp::parse(line);
    let items = parsed.args();
    let n = get(items, "workers").map(|a| a[0].usize()).unwrap_or(1).max(1);
    let quantum = get(items, "quantum").map(|a| a[0].usize()).unwrap_or(1000);
    let lines: Vec<String> = get(items, "program")
        .map(|a| a.iter().map(|x| x.atom().to_string()).collect())
        .unwrap_or_default();
    let opts = get(items, "opts").unwrap_or(&[]);
    let mode_run = get(opts, "mode").map(|a| a[0].atom() == "run").unwrap_or(false);
    let async_effects = get(opts, "effects").map(|a| a[0].atom() == "async").unwrap_or(false);
    let max_rounds = get(opts, "max-rounds").map(|a| a[0].usize()).unwrap_or(20000);
    let probe = get(opts, "probe").map(|a| a[0].atom() != "false").unwrap_or(true);
    let schedule: Vec<Sexp> = get(items, "schedule").map(|a| a.to_vec()).unwrap_or_default();

    let mut sim = Sim::new(n, quantum, async_effects, trace, instr);
    sim.lines = lines.clone();
    sim.bytecode = bytecode;
    if trace {
        sim.out.push(format!(
            "(sim (workers {}) (quantum {}) (mode {}) (effects {}))",
            n,
            quantum,
            if mode_run { "run" } else { "repl" },
            if async_effects { "async" } else { "sync" }
        ));
    }
    if mode_run {
        sim.start_run_mode(&lines.join("\n"));
    } else {
        let resolver = Box::new(PackageResolver::memory(HashMap::new()));
        let repl = Repl::new(&mut sim.env, resolver, sim_registry()).expect("Repl::new");
        sim.repl = Some(repl);
        sim.start_next_lines();
    }
    if trace {
        let st = sim.state_dump();
        sim.out.push(st);
    }
    for a in &schedule {
        let l = a.list();
        match l[0].atom() {
            "w" => {
                let k = l.get(2).map(|x| x.usize());
                sim.do_action(Act::W(l[1].usize(), k));
            }
            "e" => {
                let ks = if l.len() > 1 { Some(l[1..].iter().map(|x| x.usize()).collect()) } else { None };
                sim.do_action(Act::E(ks));
            }
            "t" => {
                sim.do_action(Act::T(l[1].atom().parse().unwrap_or(0)));
            }
            "run-fair" => {
                let m = l.get(1).map(|x| x.usize()).unwrap_or(max_rounds);
                sim.run_fair(m);
            }
            "random" => {
                let seed: u64 = l[1].atom().parse().unwrap_or(0);
                let steps = l[2].usize();
                let p = &l[3..];
                let starve = get(p, "starve").map(|a| a[0].usize() as u64).unwrap_or(8);
                let partial = get(p, "partial").map(|a| a[0].usize() as u64).unwrap_or(25);
                let tick = get(p, "tick").map(|a| a[0].usize() as u64).unwrap_or(0);
                sim.run_random(seed, steps, starve, partial, tick);
            }
            other => panic!("unknown action {}", other),
        }
    }
    let quiescent = sim.run_fair(max_rounds);
    if !quiescent {
        sim.hang = Some("(max-rounds)".to_string());
    }
    if sim.pending_req.is_some() && quiescent {
        sim.hang = Some("(result-never-delivered)".to_string());
    }
    sim.final_oracles(quiescent);
    if quiescent && probe && sim.env_dead.is_none() && sim.worker_dead.iter().all(|d| d.is_none()) {
        // summary fields are computed from the pre-probe state
        let line = sim.summary(quiescent, emit_schedule);
        let before = sim.oracle_fail.get("quiescence").map(|v| v.len()).unwrap_or(0);
        sim.probe_lost_wakeups(2000);
        let after = sim.oracle_fail.get("quiescence").map(|v| v.len()).unwrap_or(0);
        if after != before {
            // re-render so that the probe's findings are included (state part is post-probe then)
            let extra: Vec<String> = sim.oracle_fail["quiescence"][before..].to_vec();
            let line2 = line.replacen(
                "(quiescence ok)",
                &format!("(quiescence (fail {}))", extra.join(" ")),
                1,
            );
            let line2 = if line2 == line {
                line.replacen("(quiescence (fail ", &format!("(quiescence (fail {} ", extra.join(" ")), 1)
            } else {
                line2
            };
            return (std::mem::take(&mut sim.out), line2);
        }
        return (std::mem::take(&mut sim.out), line);
    }
    let line = sim.summary(quiescent, emit_schedule);
    (std::mem::take(&mut sim.out), line)
}

fn main() {
    qvh::quiet_panics();
    let args: Vec<String> = std::env::args().collect();
    let trace = args.iter().any(|a| a == "--trace");
    let instr = args.iter().any(|a| a == "--instr");
    let emit_schedule = args.iter().any(|a| a == "--emit-schedule");
    let bytecode = args.iter().any(|a| a == "--bytecode");
    for line in qvh::stdin_cases() {
        let l = line.clone();
        match qvh::guarded(move || run_case(&l, trace, instr, bytecode, emit_schedule)) {
            Ok((tr, summary)) => {
                for t in tr {
                    println!("{}", t);
                }
                println!("{}", summary);
            }
            Err(loc) => println!("(sim-panic \"{}\")", loc),
        }
    }
}
