//! qv_typed (C01): compile a Quiver source with the REAL compiler, run it on the REAL VM and dump
//! everything the Coq-defined typing judgement needs: the result value WITH its tuple / function
//! ids, the result type id the compiler inferred, and the program's type tables.
//!
//! stdin, one case per line: `"<quiver source>" (mod "a/b" "<source>")*`
//! stdout, one line per case:
//!   (parse-error) | (compile-error Kind) | (panic "file:line")            -- not accepted
//!   (run MODE OUT (rtype N) (fns (TYPE PROC CAPS)*) (bis TYPE*) (resources NAME*) REG)
//!     MODE ::= sync | env            (env: real Environment + 1 Worker; used when the sync run blocks)
//!     OUT  ::= (ok V) | (err Class "message") | (panic "file:line") | (skip why)
//!     V    ::= (i n) | (b hex) | (r n) | (t TUPLE-ID V*) | (f FN-ID V*) | (bi BUILTIN-ID)
//!            | (p PID FN-ID) | (res RID RESOURCE-TYPE-ID)
//!     fns: per function of the program that ran: its declared callable type id, the id of the
//!          process type `@(receive) -> result` derived from it (appended to the table by this
//!          harness; appending never changes an existing id), its captures count
//!     bis: per builtin of the program: the id of its callable type (appended likewise)
//!     REG  ::= (reg (tuples (tu NAME (LABEL TYPE)*)*) (types TY*))   names/labels: strings or `-`
//!     TY   ::= (int)|(bin)|(ref)|(tuple id)|(partial NAME (LABEL id)*)|(fn p r rc)|(cycle d)
//!            |(union id*)|(proc s|- r|-)|(res NAME)|(var NAME)
//! `--steps N`: step budget of the synchronous run (default 3000 executor steps of <= 1000 instructions).
use qvh::sexp::{self, Sexp};
use qvh::{Bins, TestEffect, error_class, guarded, hex};
use quiver_core::builtins::BuiltinResult;
use quiver_core::effects::{EffectBackend, EffectResult, ResultTupleInfo};
use quiver_core::process::{Action, ProcessId};
use quiver_core::program::Program;
use quiver_core::types::{Type, TypeLookup};
use quiver_core::value::{ResourceId, Value};
use quiver_core::{Error, Executor};
use quiver_environment::{
    Command, CommandReceiver, Environment, EnvironmentError, Event, EventSender, RequestResult,
    Worker, WorkerHandle,
};
use std::collections::{HashMap, VecDeque};
use std::sync::{Arc, Mutex};

fn q(s: &str) -> String {
    sexp::quote(s)
}

fn qname(n: &Option<String>) -> String {
    match n {
        None => "-".to_string(),
        Some(s) => q(s),
    }
}

fn dump_type(t: &Type) -> String {
    match t {
        Type::Integer => "(int)".into(),
        Type::Binary => "(bin)".into(),
        Type::Reference => "(ref)".into(),
        Type::Tuple(id) => format!("(tuple {})", id),
        Type::Partial { name, fields } => {
            let fs: String = fields.iter().map(|(l, t)| format!(" ({} {})", q(l), t)).collect();
            format!("(partial {}{})", qname(name), fs)
        }
        Type::Callable { parameter, result, receive } => format!("(fn {} {} {})", parameter, result, receive),
        Type::Cycle(d) => format!("(cycle {})", d),
        Type::Union(v) => {
            let vs: String = v.iter().map(|x| format!(" {}", x)).collect();
            format!("(union{})", vs)
        }
        Type::Process { send, receive } => format!(
            "(proc {} {})",
            send.map(|x| x.to_string()).unwrap_or("-".into()),
            receive.map(|x| x.to_string()).unwrap_or("-".into())
        ),
        Type::Resource(r) => format!("(res {})", q(r)),
        Type::Variable(v) => format!("(var {})", q(v)),
    }
}

fn dump_reg(p: &Program) -> String {
    let tuples: Vec<String> = p
        .get_tuples()
        .iter()
        .map(|t| {
            let fs: String = t.fields.iter().map(|(l, ty)| format!(" ({} {})", qname(l), ty)).collect();
            format!("(tu {}{})", qname(&t.name), fs)
        })
        .collect();
    let types: Vec<String> = p.get_types().iter().map(dump_type).collect();
    format!("(reg (tuples {}) (types {}))", tuples.join(" "), types.join(" "))
}

/// Value dump that keeps tuple / function ids (qvh::dump_value erases them).
fn dump_value_ids(v: &Value, bins: &Bins, out: &mut String) {
    match v {
        Value::Integer(n) => out.push_str(&format!("(i {})", n)),
        Value::Binary(b) => match bins.bytes(b) {
            Some(bytes) => out.push_str(&format!("(b {})", hex(&bytes))),
            None => out.push_str("(b ?)"),
        },
        Value::Reference(r) => out.push_str(&format!("(r {})", r)),
        Value::Tuple(tid, fields) => {
            out.push_str(&format!("(t {}", tid));
            for f in fields.iter() {
                out.push(' ');
                dump_value_ids(f, bins, out);
            }
            out.push(')');
        }
        Value::Function(fid, caps) => {
            out.push_str(&format!("(f {}", fid));
            for c in caps.iter() {
                out.push(' ');
                dump_value_ids(c, bins, out);
            }
            out.push(')');
        }
        Value::Builtin(id) => out.push_str(&format!("(bi {})", id)),
        Value::Process(pid, fid) => out.push_str(&format!("(p {} {})", pid, fid)),
        Value::Resource(rid, ty) => out.push_str(&format!("(res {} {})", rid, ty)),
    }
}

/// Append the derived types (process type per function, callable type per builtin) to a clone of
/// the program and print the tables. `register_type` only ever appends (or finds an equal entry),
/// so every id of the program that ran keeps its meaning.
fn tables(program: &Program, rtype: usize, resources: &[String]) -> String {
    let mut p = program.clone();
    let never = p.register_type(Type::Union(vec![]));
    let mut fns = vec![];
    for f in program.get_functions() {
        let proc_ty = match program.lookup_type(f.type_id) {
            Some(Type::Callable { result, receive, .. }) => {
                let (s, r) = (*receive, *result);
                p.register_type(Type::Process { send: Some(s), receive: Some(r) })
            }
            _ => never,
        };
        fns.push(format!("({} {} {})", f.type_id, proc_ty, f.captures));
    }
    let mut bis = vec![];
    for b in program.get_builtins() {
        let t = p.register_type(Type::Callable { parameter: b.param_type, result: b.result_type, receive: never });
        bis.push(t.to_string());
    }
    let rs: Vec<String> = resources.iter().map(|r| q(r)).collect();
    format!(
        "(rtype {}) (fns {}) (bis {}) (resources {}) {}",
        rtype,
        fns.join(" "),
        bis.join(" "),
        rs.join(" "),
        dump_reg(&p)
    )
}

fn err_line(e: &Error) -> String {
    let msg = format!("{:?}", e).replace('\n', " ");
    format!("(err {} {})", error_class(e), q(&msg))
}

// ------------------------------------------------------------------ in-memory environment runner
// (as harness/src/bin/qv_equal.rs `--run`: real Environment + real Worker over in-memory queues)

type Q<T> = Arc<Mutex<VecDeque<T>>>;
struct Rx(Q<Command<TestEffect>>);
struct Tx(Q<Event<TestEffect>>);
struct Handle {
    cmd: Q<Command<TestEffect>>,
    evt: Q<Event<TestEffect>>,
}
impl CommandReceiver<TestEffect> for Rx {
    fn try_recv(&mut self) -> Result<Option<Command<TestEffect>>, EnvironmentError> {
        Ok(self.0.lock().unwrap().pop_front())
    }
}
impl EventSender<TestEffect> for Tx {
    fn send(&mut self, event: Event<TestEffect>) -> Result<(), EnvironmentError> {
        self.0.lock().unwrap().push_back(event);
        Ok(())
    }
}
impl WorkerHandle<TestEffect> for Handle {
    fn send(&mut self, command: Command<TestEffect>) -> Result<(), EnvironmentError> {
        self.cmd.lock().unwrap().push_back(command);
        Ok(())
    }
    fn try_recv(&mut self) -> Result<Option<Event<TestEffect>>, EnvironmentError> {
        Ok(self.evt.lock().unwrap().pop_front())
    }
}

fn test_file_open(
    process_id: ProcessId,
    _value: &Value,
    _executor: &mut Executor<TestEffect>,
) -> Result<BuiltinResult<TestEffect>, Error> {
    Ok(BuiltinResult::Action(Action::RequestEffect { process_id, effect: TestEffect::Open(0) }))
}

struct Backend {
    next: ResourceId,
    file_type: usize,
}
impl EffectBackend for Backend {
    type E = TestEffect;
    fn execute(&mut self, _pid: ProcessId, effect: TestEffect) -> Result<Option<EffectResult>, Error> {
        match effect {
            TestEffect::Open(_) => {
                self.next += 1;
                Ok(Some(Ok((Value::Resource(self.next, self.file_type), vec![]))))
            }
            TestEffect::Op(_, _) => Ok(Some(Ok((Value::ok(), vec![])))),
        }
    }
    fn process_completions(&mut self) -> Vec<(ProcessId, EffectResult)> {
        vec![]
    }
    fn close_resource(&mut self, _resource_id: ResourceId) {}
    fn set_type_ids(&mut self, resources: &[String], _results: &[(String, ResultTupleInfo)]) {
        if let Some(i) = resources.iter().position(|r| r == "File") {
            self.file_type = i;
        }
    }
}

/// Run on a real Environment with one Worker. The environment MERGES the bytecode into its own
/// program (ids are renumbered), so the tables printed are the merged program's and the result
/// type is read off the merged entry function (the last function registered, whose instruction
/// count must equal the original entry's).
fn run_env(bytecode: quiver_core::bytecode::Bytecode, entry_len: usize, env_steps: usize) -> String {
    let mut registry = qvh::registry();
    registry.attach_implementation("file_open", test_file_open);
    let cmd: Q<Command<TestEffect>> = Arc::new(Mutex::new(VecDeque::new()));
    let evt: Q<Event<TestEffect>> = Arc::new(Mutex::new(VecDeque::new()));
    let mut worker = Worker::new(Rx(cmd.clone()), Tx(evt.clone()), registry.clone(), false, 0);
    let handles: Vec<Box<dyn WorkerHandle<TestEffect>>> = vec![Box::new(Handle { cmd, evt })];
    let mut env = Environment::<TestEffect>::new(handles);
    env.set_effect_backend(Box::new(Backend { next: 0, file_type: 0 }));
    let resources = bytecode.resources.clone();
    let pid = match env.start_process(Some(bytecode)) {
        Ok(p) => p,
        Err(_) => return "(run env (skip env-error))".into(),
    };
    let req = match env.request_result(pid, None) {
        Ok(r) => r,
        Err(_) => return "(run env (skip env-error))".into(),
    };
    let mut now: u64 = 0;
    let mut out: Option<String> = None;
    for _ in 0..env_steps {
        let mut did = false;
        match worker.step(now) {
            Ok(d) => did |= d,
            Err(_) => return "(run env (skip env-error))".into(),
        }
        match env.step() {
            Ok(d) => did |= d,
            Err(_) => return "(run env (skip env-error))".into(),
        }
        if !did {
            now += 1;
        }
        match env.poll_request(req) {
            Ok(Some(RequestResult::Result(Ok((value, heap)), _))) => {
                let program = env.get_program();
                let consts = program.get_constants().to_vec();
                let bins = Bins::Extracted(&heap, &consts);
                let mut s = String::from("(ok ");
                dump_value_ids(&value, &bins, &mut s);
                s.push(')');
                out = Some(s);
                break;
            }
            Ok(Some(RequestResult::Result(Err(e), _))) => {
                out = Some(err_line(&e));
                break;
            }
            Ok(Some(_)) => return "(run env (skip unexpected-result))".into(),
            Ok(None) => {}
            Err(_) => return "(run env (skip env-error))".into(),
        }
    }
    let out = out.unwrap_or_else(|| "(err StepLimit \"StepLimit\")".to_string());
    let program = env.get_program();
    let rtype = match program.get_functions().last() {
        Some(f) if f.instructions.len() == entry_len => match program.lookup_type(f.type_id) {
            Some(Type::Callable { result, .. }) => Some(*result),
            _ => None,
        },
        _ => None,
    };
    match rtype {
        Some(rt) => format!("(run env {} {})", out, tables(program, rt, &resources)),
        None => "(run env (skip entry-not-found))".into(),
    }
}

fn run_case(src: &str, modules: HashMap<Vec<String>, String>, steps: usize) -> String {
    let s = src.to_string();
    let compiled = match guarded(move || qvh::compile_source(&s, modules)) {
        Err(loc) => return format!("(panic {})", q(&loc)),
        Ok(Err(e)) => return e.line(),
        Ok(Ok(c)) => c,
    };
    let bytecode = compiled.program.to_bytecode(Some(compiled.entry));
    let entry_len = bytecode.functions[compiled.entry].instructions.len();
    let bc = bytecode.clone();
    let r = guarded(move || qvh::execute_bounded(bc, steps));
    let out = match r {
        Err(loc) => format!("(panic {})", q(&loc)),
        Ok(Err(Ok(e))) => err_line(&e),
        Ok(Err(Err("Blocked"))) => {
            // spawn / await / effects need an environment
            let bc2 = bytecode.clone();
            return match guarded(move || run_env(bc2, entry_len, 60_000)) {
                Ok(s) => s,
                Err(loc) => format!(
                    "(run env (panic {}) {})",
                    q(&loc),
                    tables(&compiled.program, compiled.result_type, &bytecode.resources)
                ),
            };
        }
        Ok(Err(Err(why))) => format!("(err {} {})", why, q(why)),
        Ok(Ok((value, executor))) => {
            let bins = Bins::Exec(&executor, &bytecode.constants);
            let mut s = String::from("(ok ");
            dump_value_ids(&value, &bins, &mut s);
            s.push(')');
            s
        }
    };
    format!(
        "(run sync {} {})",
        out,
        tables(&compiled.program, compiled.result_type, &bytecode.resources)
    )
}

fn main() {
    qvh::quiet_panics();
    let args: Vec<String> = std::env::args().collect();
    let steps: usize = args
        .iter()
        .position(|a| a == "--steps")
        .and_then(|p| args.get(p + 1))
        .and_then(|s| s.parse().ok())
        .unwrap_or(3_000);
    let child = std::thread::Builder::new()
        .stack_size(512 * 1024 * 1024)
        .spawn(move || {
            for line in qvh::stdin_cases() {
                let items = sexp::parse_all(&line);
                let src = items[0].atom().to_string();
                let mut modules = HashMap::new();
                for m in &items[1..] {
                    if let Sexp::List(l) = m {
                        let path: Vec<String> = l[1].atom().split('/').map(|s| s.to_string()).collect();
                        modules.insert(path, l[2].atom().to_string());
                    }
                }
                println!("{}", run_case(&src, modules, steps));
            }
        })
        .unwrap();
    child.join().unwrap();
}
